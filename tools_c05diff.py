import json,difflib,sys
d=json.load(open(sys.argv[1]))
det=d['violation']['detail']
w=det.split('--- wire path:\n')[1].split('--- decoded path:\n')[0].splitlines()
dd=det.split('--- decoded path:\n')[1].splitlines()
for l in difflib.unified_diff(w,dd,lineterm='',n=0): print(l[:260])
print(json.dumps(d['scenario'])[:1500])
