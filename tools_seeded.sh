#!/bin/bash
# tools_seeded.sh <name> <worktree> <property> <demo-relative-path> <go test -run pattern> <pkg> "<needs>" : verify a seeded change and keep it under seeded/<name>/
set -u
export GOFLAGS=-mod=mod GOPROXY=off GOSUMDB=off GOTOOLCHAIN=local
name=$1; wt=$2; prop=$3; demo=$4; pat=$5; pkg=$6; needs=$7
out=/verif/seeded/$name; mkdir -p $out
cd $wt || exit 2
cp SEEDED/patch.diff $out/patch.diff
cp $demo $out/$(basename $demo)
cp SEEDED/NOTES.md $out/NOTES.md 2>/dev/null
git checkout -q -- . 2>/dev/null
git apply $out/patch.diff || { echo "patch does not apply"; exit 2; }
go1.26.8 build ./... >/dev/null 2>&1; b=$?
go1.26.8 test -vet=off -count=1 -run "$pat" $pkg >/tmp/seeded_with.log 2>&1; with=$?
# existing tests of the package with the change, demo moved aside
mv $demo /tmp/demo_aside.go
go1.26.8 test -vet=off -count=1 $pkg >/tmp/seeded_existing.log 2>&1; existing=$?
mv /tmp/demo_aside.go $demo
git checkout -q -- . 
go1.26.8 test -vet=off -count=1 -run "$pat" $pkg >/tmp/seeded_without.log 2>&1; without=$?
git apply $out/patch.diff
# the check: run against the worktree itself (patch applied there), so /repo stays untouched
# while other runs use it; VERIF_REPO builds into its own directory (verifsim header)
(cd /verif && VERIF_REPO=$wt ./verifsim check $prop > /tmp/seeded_check_$name.log 2>&1; echo $? > /tmp/seeded_check.rc)
cp /tmp/seeded_check_$name.log /tmp/seeded_check.log
rc=$(cat /tmp/seeded_check.rc)
viol=$(grep "^violation class" /tmp/seeded_check.log | head -1 | cut -c1-300)
python3 - "$out" "$prop" "$needs" "$b" "$with" "$existing" "$without" "$rc" "$viol" "$demo" "$pat" "$pkg" <<'PY'
import json,sys
out,prop,needs,b,w,e,wo,rc,viol,demo,pat,pkg=sys.argv[1:]
json.dump({"property":prop,"breaks":prop,"needs_to_manifest":needs,
 "demonstration":{"file":demo,"command":"go1.26.8 test -vet=off -count=1 -run '%s' %s"%(pat,pkg)},
 "verified_by_me":{"builds_with_change":b=="0","demo_fails_with_change":w!="0","existing_package_tests_pass_with_change":e=="0","demo_passes_without_change":wo=="0"},
 "check_result":{"command":"./verifsim check %s (quick)"%prop,"exit":int(rc),"caught":rc=="1","violation":viol}},
 open(out+"/meta.json","w"),indent=1)
print(open(out+"/meta.json").read())
PY
