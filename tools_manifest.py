#!/usr/bin/env python3
"""Regenerates MANIFEST.json from the table below (keeps it valid at all times)."""
import json, os
VERIF = os.path.dirname(os.path.abspath(__file__))

CHECKS = {
 "C16": dict(
   level="exploration", design="§3 C16",
   technique="deterministic simulation: seeded cooperative scheduler at lock/atomic granularity + porcupine linearizability; sequential histories vs reference map",
   text="Seeded search over (table kind, capacity, key family, op history, schedule). Sequential histories are cross-checked in full against a reference map after every operation; concurrent histories run under a cooperative scheduler that decides every interleaving at segment-lock and count accesses and are checked for linearizability (porcupine) against a map model with over-approximated eviction. Sampling, not proof: a clean batch is evidence.",
   note="Trusts: the verifsync shim (same semantics as sync/atomic plus yields), porcupine, and that critical sections are atomic units (no yields inside a section). Eviction legality is over-approximated, so only safety clauses are decided."),
 "C15": dict(
   level="exploration", design="§3 C15",
   technique="deterministic simulation: seeded cooperative scheduler parks packs inside their consume callbacks and in front of every record they write (overlap/nesting of pooled state, half-done packs of shared messages); dns.Msg.Pack as reference",
   text="Seeded search over per-task pack operations and schedules: packs overlap and nest while sharing the pool; each pack is compared byte-for-byte with the library, the message is compared with a snapshot (shared messages also while another task's pack of them is half done), buffers are checked for aliasing and exposed capacity, and declined messages must have produced no output. Byte parity over all message structures is sampled only.",
   note="Trusts miekg/dns Pack as the reference and the message generator's reach; overlap happens at the consume callback and in front of each record the packer writes, nowhere else inside a pack."),
 "C09": dict(
   level="fault_enumeration", design="§3 C09",
   technique="deterministic simulation: real Resolver/AutoTA on fake clock (synctest) + simulated network and disk; per-history enumeration of crash points and disk errors; RFC 5011 reference state machine as oracle",
   text="Each generated root DNSKEY publication history (20-200 fake days, restarts, disk events) runs fault-free against an independent RFC 5011 state machine with exact comparison of the live trust set after every refresh; then the disk operations of its state-changing refreshes (revocations first) are failed (EIO/ENOSPC/short write/failing sync/failing rename) and crashed (volatile state lost/kept/torn) one at a time, re-running the history with relaxed-but-narrow invariants (never-early, revoked-never-again, fail-closed). Quick tier rotates one fault kind per operation over 1-2 refreshes per history; thorough tries every kind over up to 4.",
   note="Trusts the reference state machine, simdisk's durability model (content durable at Sync, directory entries durable at directory Sync) and the 2-minute tolerance band at hold-down boundaries. The middleware chain is an empty pipeline; only the resolver runs."),
 "C01": dict(
   level="exploration", design="§3 C01",
   technique="deterministic simulation: full sdns chain + real resolver on fake clock over simulated network; signing authoritative world with path-wide response tampering; ground-truth resolver over the zone model as oracle",
   text="Seeded search over generated zone hierarchies (signed/unsigned/opt-out, algorithms 8/10/13/14/15, NSEC/NSEC3, wildcards, CNAME/DNAME, shared servers, expired signature windows), sequential client histories with DO/AD/CD mixes that re-ask names (cache routes), and 29 kinds of path-wide tampering of chosen resolution steps, or no trust anchor. Every CD=0 reply for a securely delegated name must be SERVFAIL or equal the model's answer; AD only where entitled and secure; tamperings of the question's own response must surface as SERVFAIL. Sampling, not proof.",
   note="Trusts authsim (RFC 4034/4035/5155 answers, checked by the fault-free run: zero-tamper scenarios must reproduce ground truth) and miekg/dns signing. Names in NSEC3 opt-out spans are treated as unauthenticated. Findings (all repaired) are listed in known_findings.json."),
 "C02": dict(
   level="exploration", design="§3 C02",
   technique="deterministic simulation: full chain + real resolver on fake clock; genuine signed NSEC/NSEC3 records substituted path-wide; zone model existence/type truth; upstream-free (synthesised) denials checked against delivered live proofs",
   text="Seeded search over fully signed static hierarchies with denial structure, question histories dominated by absent names/types in phases (so RFC 8198 / RFC 8020 caches answer later ones alone), and 13 kinds of substitution of genuine, correctly signed denial records (other interval, subset, duplicates, sibling/child zone, rcode relabelling, no-DS claims with forged unsigned child data, wildcard replay with or without foreign NSEC). A name that exists is never denied, a present type never reported absent, substituted data never accepted, synthesised denials need a live CD=0 proof and never rest on opt-out. Subsets/orderings are sampled, not enumerated.",
   note="Trusts authsim's NSEC/NSEC3 chains (validated by sdns itself in fault-free runs) and the Truth model; names that are not owners of an opt-out zone are treated as unauthenticated (RFC 5155 §12.2). Proof lifetime is checked with 6 s slack (exact lifetimes belong to C04)."),
 "C08": dict(
   level="exploration", design="§3 C08",
   technique="deterministic simulation: full chain + real resolver on fake clock (hours to days); scripted withdrawal/re-pointing at the parent while the old child stays alive; lease model over delivered referrals as oracle",
   text="Seeded search over delegation TTL combinations (1 s to 3 d, crossing the 12 h ceiling), signed/unsigned, withdrawal or re-pointing time, old-child behaviours (long TTLs, own NS set and glue padded into every answer), prefetch-hot question schedules, referral-path latency, and optionally a second, glueless and unresolvable name server for the child under a 3 s query timeout (requests aborted while the delegation is only provisionally recorded). Every referral delivered to sdns grants a lease; for questions arriving after the last lease to the old servers ended no old-child record may be served, no packet may reach the old servers, and the reply must equal the parent's current data.",
   note="Trusts the generation tags in rdata and the lease model (ancestor bound taken generously). Questions arriving within 50 ms of the lease end are not judged."),
 "C07": dict(
   level="exploration", design="§3 C07",
   technique="deterministic simulation: full chain + real resolver over simulated network with an adversarial authoritative server and spoofed datagrams; ground truth + provenance marks + dial log as oracle",
   text="Seeded search over unsigned hierarchies in which one zone's legitimately authoritative servers apply subsets of 14 adversarial behaviours (out-of-zone records in every section, CNAME continued out of zone, sideways/upward/self/mixed/other-class referrals, loopback or out-of-zone glue) with owner names in mixed letter case, optionally timed against the expiry of the zone's own delegation lease, while wrong-ID / wrong-question datagrams are injected ahead of genuine replies; histories alternate trigger questions under that zone with questions for victim names. Victim replies must equal ground truth, attacker-marked data must never be attached to a name outside the zone, no loopback/local dial, no victim question to the attacker's address, and no query at all to the attacker's server unless an acceptable referral names it.",
   note="DNSSEC is off so only bailiwick rules protect the victim. Names inside the adversary's zone are not judged. Adversary and ancestors never share a server (it would then speak with the ancestor's authority)."),
 "C12": dict(
   level="exploration", design="§3 C12",
   technique="deterministic simulation: full chain + real resolver over generated attack topologies; per-question packet counting at the simulated network; metamorphic twin runs (shadow vs off)",
   text="Seeded search over attack topologies (CNAME chains/cycles across zones, DNAME ping-pong, glueless NS cycles, fan-out and deep referral chains, lame/self-referring servers, many colliding DNSKEYs and RRSIGs, high-iteration NSEC3), budgets from 1 upward, modes off/shadow/enforce, qname minimisation on/off; every question terminates within the query timeout, enforce-mode upstream attempts per question (UDP datagrams + TCP connections, counted to quiescence) never exceed max_outbound_queries, a budget failure is never served to a second client from a cache, and a shadow run equals an off run.",
   note="Only the outbound budget is visible on the wire; internal sub-query and DNSSEC-operation budgets are not compared. The 'EDE on the over-budget SERVFAIL' clause is recorded as a probe, not asserted, because over-budget cannot be told from a failing last attempt from outside."),
 "C13": dict(
   level="exploration", design="§3 C13",
   technique="deterministic simulation: full chain + real resolver on fake clock with scripted server outages and request-local failure causes; suppression/back-off envelope model as oracle",
   text="Seeded search over outage scripts (all servers of a zone silent / SERVFAIL / REFUSED / slower than the client's deadline), timed question histories with immediate repeats across names, types and CD values, client-side deadlines and tiny enforce-mode budgets (request-local causes), random valid min/max failure TTLs, tiny failure-cache sizes and rfc9520 on/off. Every SERVFAIL+EDE 13 served without upstream traffic must be justified by a genuine failure of that question or of a zone at or above the name inside a window that starts at the minimum, at most doubles per consecutive failure and never exceeds the maximum; request-local failures open no window; rfc9520 off means no suppression.",
   note="Which zone a failure is blamed on depends on cached delegations, so every failing zone on the path is credited (generous). The single-probe-after-expiry clause is not asserted. ECS audiences are exercised with forwarding at the default ceiling and a name that fails by its own data (an alias loop in a healthy zone), so that a question failure is not also a zone failure."),
 "C19": dict(
   level="exploration", design="§3 C19",
   technique="deterministic simulation: full chain + real resolver over a geo-style authoritative zone that records every received OPT and tags answers with audience/scope/serial; policy model as oracle",
   text="Seeded search over ECS policies (incl. invalid ceilings and client networks), scope behaviours of the authority (zero/same/narrower/wider/fixed), client sequences from allowed and disallowed addresses with subnet options of both families, any netmask, host bits set or family mismatch plus other EDNS options, fake-time gaps across the scoped TTL cap, prefetch on/off. Upstream sees no client option except a policy-conformant truncated subnet for allowed clients; no ECS in client replies; a scoped answer reaches only clients inside its effective scope and never unscoped clients; scoped answers respect the cap; no subnet-bearing upstream query without a client query behind it.",
   note="Audience, scope and serial are carried in rdata by the simulated authority. The shared-denial clause for ECS/CD questions is covered by C02's CD clause and only partly here."),
 "C20": dict(
   level="exploration", design="§3 C20",
   technique="deterministic simulation: full chain incl. dns64 + real resolver; faults placed separately on the AAAA leg and the A leg; independent RFC 6052 embed/extract + zone model as oracle",
   text="Seeded search over DNS64 configurations (prefixes of every legal and some illegal lengths, well-known prefix with its excluded ranges, client networks, excluded zones), zones with A-only/AAAA-only/both/excluded-AAAA/alias chains/absent names, signed or not, leg faults (silent, SERVFAIL, REFUSED, corrupted signatures), tiny budgets and RD/CD/DO/AD/eligibility mixes plus ip6.arpa PTR questions for synthesised addresses. Synthesised AAAA must be exactly the RFC 6052 embedding of the final name's usable A records, reversible, correctly owned, TTL-bounded, only when allowed, never over NXDOMAIN / validation failure / cached failure, never with AD.",
   note="RFC 6147 lets a DNS64 treat non-NXDOMAIN failure rcodes as an empty answer, so synthesis over a plain upstream SERVFAIL/REFUSED/timeout is not flagged. The embedding bijection is sampled, not enumerated."),

 "C18": dict(
   level="exploration", design="§3 C18",
   technique="deterministic simulation: full chain over simulated network for matching/replies; BlockList API tasks under a seeded cooperative scheduler with a simulated disk injecting errors and crashes; porcupine linearizability of the API; reference matcher over label lists",
   text="Seeded search over lists (parents/children/wildcards/whitelist/case/escaped dots), a sequential script of API calls and client queries through the whole middleware chain (reply, no upstream packet, no cache effect), and a concurrent script (tasks x schedule x disk fault plan). After every run the persisted local list is compared with the memory states the critical sections left behind (read through the scheduler's lock-release hook), and a fresh BlockList is loaded from the surviving directory. Sampling, not proof.",
   note="Trusts: the verifsync/verifos shims, simdisk's crash model (lose/keep/torn), porcupine, and the reference matcher. The HTTP API layer is bypassed (BlockList methods called directly). The entries '.' and '*.' are not generated."),

 "C17": dict(
   level="exploration", design="§3 C17",
   technique="deterministic simulation: whole default chain + resolver over a simulated network; clients placed on prefix boundaries; naive per-prefix reference; upstream packet counting",
   text="Seeded search over access lists (families, lengths, nesting, host bits, unparsable entries), views and client rate limits, with clients on and next to every prefix boundary (also IPv4-mapped) over UDP and TCP. Denied clients must get no reply and cause no upstream packet; allowed clients must get the zone's (validated) answer for names that need internal sub-queries, or their first matching view's records. Sampling, not proof.",
   note="Queries enter at Server.ServeMsg (decoded path); the wire ingress path is covered by the W-ing checks. 'Parsable' is netip.ParsePrefix. Cache lookups by denied queries are not observable and are inferred from the absence of a reply and of upstream traffic."),

 "C10": dict(
   level="exploration", design="§3 C10",
   technique="deterministic simulation: the real UDP listener/engine/batch I/O over a simulated kernel (recvmmsg/sendmmsg emulated on the caller's mmsghdr arrays), whole chain and resolver over a simulated network; per-operation token in the question's letter case; seeded arrival bursts, kernel faults and yields",
   text="Seeded search over engine shapes, arrival patterns (bursts from clients that share addresses, IDs and names), packets that end without a reply, kernel faults (partial sendmmsg, errno on sendmmsg/recvmmsg at start or mid-run, poisoned destination, receive-buffer overflow, no raw descriptor) and seeded yields at send points. Every datagram the server sends must be attributable to exactly one operation by (destination address:port, ID, exact question bytes), must be exactly one DNS message, and its records must belong to the question (unique A per name). Sampling, not proof.",
   note="Goroutine interleaving is the Go scheduler's at GOMAXPROCS=1 for the seeded arrival pattern and yields (select choice and equal-deadline timer order are seeded through a runtime overlay); it is not chosen at lock granularity. Owned UDP and TCP listeners are simulated; TLS/DoH/DoQ are not."),
 "C11": dict(
   level="exploration", design="§3 C11",
   technique="deterministic simulation: same W-ing world as C10 with upstream zones that are slow, silent, or answer with garbage / the wrong question / TC then a dead TCP connection; reply count and fake-clock latency per operation; drain and quiescence after load",
   text="Seeded search biased to failing upstreams, identical/related queries in flight and worker pools small enough to queue and overflow. Every well-formed query must get exactly one reply no later than the query timeout plus 1.5 s (fake time), packets that must be ignored get none, rejected packets at most one; unanswered queries are allowed only up to the count the kernel queue and the engine's drop counters report as shed; after the load the listener must drain and the server report quiescence. Sampling, not proof.",
   note="Shedding is attributed by count, not per query. The 'small scheduling margin' is taken as 1.5 s. Owned UDP and TCP listeners; for stream clients count and order are judged. Post-load probes check that healthy zones answer again. Goroutine/limiter leak detection is limited to the listener's drain result and Server.Quiesced."),

 "C05": dict(
   level="exploration", design="§3 C05",
   technique="deterministic simulation, twin runs: the same seeded scenario (world, configuration, query packets at the same fake instants) executed once through the owned UDP transport (wire path, inline + replay) and once through Server.ServeMsg (decoded path); per-operation comparison of the decoded replies",
   text="Seeded search over configurations (NSID, cookie secret, blocklist, client rate limit, prefetch, RFC 8198) and packet sequences over a signed hierarchy (answers, aliases, wildcards, NXDOMAIN and names below it, NODATA, empty zones, blocked names, unreachable zones, CHAOS; header bits; EDNS version/size/DO; cookies of 8/24/2 bytes, NSID, keepalive, padding, client subnet, unknown options), with repeats so that later packets are served from what earlier ones cached. Reply i of the wire run must decode to the same message as reply i of the decoded run, including 'no reply'. Sampling, not proof.",
   note="Letter case of names inside RDATA is normalised like owner case (the wire path compresses them against the client's mixed-case question; a consequence of name compression). Zones are signed with Ed25519 so that both runs carry identical signatures. Packets rejected on the header alone and hosts-file state are not generated. The wire run uses a worker pool large enough never to queue."),

 "C06": dict(
   level="exploration", design="§3 C06",
   technique="deterministic simulation: generated query packets (header bits, EDNS shapes, mangled headers) through the real UDP engine (batch and portable readers, inline and replay) and through Server.ServeMsg over UDP-like and TCP-like transports; every reply judged against its own query by the property's rules",
   text="Seeded search over configurations and packet sequences (the C05 generator) plus per-packet mangling (QR set, non-query opcode, QDCOUNT 0/2, ANCOUNT 2, truncated body/header). Rules checked per reply: QR/ID/opcode echo, question echo (exact bytes), no OPT without OPT, no RRSIG/NSEC/NSEC3 without DO (unless RRSIG asked), AD only when negotiated, no reflected client subnet / keepalive over UDP / foreign options, cookie only against a cookie, UDP size limit or minimal TC reply, never answer a response, NOTIMP/FORMERR/BADVERS rejections. Sampling, not proof.",
   note="Owned UDP and TCP listeners are simulated (header-level rejection checked on both); TLS/DoH/DoQ are not and 'ID 0 over DoQ' is not checked. Types NSEC/NSEC3 are not asked explicitly. One COOKIE option per query."),

 "C04": dict(
   level="exploration", design="§3 C04",
   technique="deterministic simulation: authoritative servers stamp the serving second into the data (host addresses, SOA serials) and sign on the spot with a fixed signature lifetime; whole chain and resolver over a simulated network on a fake clock spanning seconds to days",
   text="Seeded search over record/alias/NS/SOA TTLs around the 5 s floor and the 24 h cap, SOA minimum, signature lifetime, prefetch, RFC 8198, upstream latency, and 10-60 queries at gaps from 0.2 s to 30 h over a signed and an unsigned zone (hosts, in-zone and cross-zone aliases, NXDOMAIN and names below, NODATA), entering at Server.ServeMsg or, in a third of the scenarios, as datagrams through the simulated UDP engine so that hits are served by the wire cache ladder and its alias composer. Every reply says how old its data is: a reply older than the smallest applicable lifetime, a TTL above the time remaining, a TTL that grows between hits of one entry, or older data after newer for one key is a violation. Sampling, not proof.",
   note="Ages are judged with 2 s of slack plus the configured upstream latency. The delegation lease is only bounded from above (max(5 s, smallest NS TTL on the chain)); its exact value is C08's. Monotonicity rules are applied to direct questions only. DNS64 composition is C20's."),

 "C03": dict(
   level="exploration", design="§3 C03",
   technique="deterministic simulation: a zone that answers every name with data computed from the question (lower-cased wire name, type, CD bit of the upstream query); confusable question families through both ingress paths (UDP engine wire path, Server.ServeMsg decoded path, canonical and \\DDD-escaped text); cache-key hash optionally narrowed to 3-10 bits so that distinct questions collide; purges",
   text="Seeded search over question sequences whose members differ in one respect (letter case, a dot inside a label vs a label boundary, concatenated labels, octets 0x00/0x20/0xff/'*'/'\\\\', names below vs beside a denied name, type, CD, client subnet), interleaved over the two ingress paths with purges, with full or narrowed cache keys. Every reply must carry the data of its own question: another name's, type's or CD partition's data, or a denial that belongs to another name, is a violation. Sampling, not proof.",
   note="Key collisions are produced by masking the hash result through an import shim (verifxxhash) in internal/cache/key.go and key_wire.go; collision handling itself is the shipped code. Client-subnet scoping is exercised with forwarding on at the default ceilings and a zone that scopes its answers (same/fixed/wider/zero): a scoped answer may only reach a client whose whole forwarded subnet lies inside the scope; policy variations are C19's. Subtree cuts are reached through one recipe (a signed zone that gains a name below a denied one)."),
}

NOT_APPLICABLE = {
 "C14": "pure function of (key, signature, RRset) with no schedule, clock, fault, crash or history in it; deciding it is differential input generation, not simulation (DESIGN.md §4)",
}

NOT_BUILT = ["C01","C02","C03","C04","C05","C06","C07","C08","C09","C10","C11","C12","C13","C15","C17","C18","C19","C20"]

def main():
    checks = []
    for pid in sorted(CHECKS):
        c = CHECKS[pid]
        checks.append({
            "property_id": pid,
            "quick_cmd": "./verifsim check %s --tier quick" % pid,
            "thorough_cmd": "./verifsim check %s --tier thorough" % pid,
            "evidence_file": "/verif/evidence/%s.json" % pid,
            "replay_cmd_template": "./verifsim replay {path}",
            "engine": "verifsim",
            "level_claimed": {"category": c["level"], "text": c["text"], "design_ref": c["design"]},
            "level_note": c["note"],
            "technique": c["technique"],
        })
    na = [{"property_id": k, "reason": v} for k, v in sorted(NOT_APPLICABLE.items())]
    for pid in NOT_BUILT:
        if pid not in CHECKS:
            na.append({"property_id": pid, "reason": "applicable (see DESIGN.md §3) but its simulated check is not built yet; no claim is made"})
    m = {
        "version": 1,
        "setup_cmd": "./verifsim setup",
        "hooks": {
            "guard": "verif",
            "enable": "go1.26.8 test -overlay /verif/build/overlay.json -tags verif (overlay regenerated from /repo's working tree by overlay/gen.py; nothing is committed to /repo)",
            "baseline_off_cmd": "cd /repo && go test -vet=off -count=1 -timeout 25m ./...",
            "source_commits": [],
            "add_only": True,
        },
        "engines": [{
            "name": "verifsim", "path": "/verif/verifsim",
            "serves_properties": sorted(CHECKS),
            "kind_free_text": "deterministic simulation with fault injection: seeded scenarios (explicit JSON), synctest fake clock, in-memory network/disk/kernel stubs, cooperative scheduler, ddmin minimisation, replay files",
        }],
        "checks": checks,
        "not_applicable": sorted(na, key=lambda x: x["property_id"]),
        "notes": "All hooks are injected with go's -overlay from /verif/overlay (build tag verif); /repo is never modified by the machinery. Exit 2 = build/harness trouble, never a verdict.",
    }
    json.dump(m, open(os.path.join(VERIF, "MANIFEST.json"), "w"), indent=1)
    print("MANIFEST.json: %d checks, %d not claimed" % (len(checks), len(na)))

if __name__ == "__main__":
    main()
