#!/bin/bash
# tools_seeded_all.sh : re-run the quick check of every seeded change against the CURRENT /repo HEAD
# (scratch worktree /tmp/wt-rc; patches that no longer apply to HEAD are reported, not forced).
export GOFLAGS=-mod=mod GOPROXY=off GOSUMDB=off GOTOOLCHAIN=local
cd /verif
git -C /repo worktree remove --force /tmp/wt-rc 2>/dev/null
git -C /repo worktree add -q --detach /tmp/wt-rc HEAD || exit 2
out=/verif/seeded/RECHECK.txt
echo "# quick check of every seeded change applied to /repo $(git -C /repo rev-parse --short HEAD)" > $out
for d in seeded/*/; do
  name=$(basename $d)
  [ -f $d/patch.diff ] || continue
  prop=$(python3 -c "import json;print(json.load(open('$d/meta.json'))['property'])")
  git -C /tmp/wt-rc checkout -q -- . ; git -C /tmp/wt-rc clean -fdq
  if ! git -C /tmp/wt-rc apply --3way $PWD/$d/patch.diff >/dev/null 2>&1; then
    git -C /tmp/wt-rc checkout -q -- . ; git -C /tmp/wt-rc reset -q --hard HEAD
    ported=$(ls $PWD/$d/patch.ported-to-*.diff 2>/dev/null | tail -1)
    if [ -z "$ported" ] || ! git -C /tmp/wt-rc apply --3way $ported >/dev/null 2>&1; then
      git -C /tmp/wt-rc checkout -q -- . ; git -C /tmp/wt-rc reset -q --hard HEAD
      echo "$name $prop does-not-apply-to-HEAD" | tee -a $out; continue
    fi
  fi
  git -C /tmp/wt-rc reset -q   # 3-way leaves the index touched
  if ! (cd /tmp/wt-rc && go1.26.8 build ./... >/dev/null 2>&1); then echo "$name $prop does-not-build-on-HEAD" | tee -a $out; continue; fi
  VERIF_REPO=/tmp/wt-rc ./verifsim check $prop > /tmp/rc_$name.log 2>&1; rc=$?
  viol=$(grep "^violation class" /tmp/rc_$name.log | head -1 | cut -c17-90)
  echo "$name $prop exit=$rc $viol" | tee -a $out
done
git -C /repo worktree remove --force /tmp/wt-rc; rm -rf /verif/build-alt-wt-rc
