//go:build verif

// Package verifos stands in for "os" in the sdns files that persist state
// (trust-anchor files, blocklist "local" file). With no simulated disk installed every
// call goes to the real package; with one installed, paths below the disk's root are
// served from memory with explicit durable/volatile layers and fault points.
package verifos

import (
	"io"
	"io/fs"
	"os"
	"strings"
	"sync/atomic"
)

type (
	FileInfo = fs.FileInfo
	FileMode = fs.FileMode
	PathError = fs.PathError
	Signal   = os.Signal
	DirEntry = fs.DirEntry
)

const (
	O_RDONLY = os.O_RDONLY
	O_WRONLY = os.O_WRONLY
	O_RDWR   = os.O_RDWR
	O_APPEND = os.O_APPEND
	O_CREATE = os.O_CREATE
	O_EXCL   = os.O_EXCL
	O_TRUNC  = os.O_TRUNC
	ModePerm = os.ModePerm
)

var (
	ErrNotExist   = os.ErrNotExist
	ErrExist      = os.ErrExist
	ErrPermission = os.ErrPermission
	ErrClosed     = os.ErrClosed
	Stdout        = os.Stdout
	Stderr        = os.Stderr
	Stdin         = os.Stdin
	Args          = os.Args
	Interrupt     = os.Interrupt
)

func IsNotExist(err error) bool   { return os.IsNotExist(err) }
func IsExist(err error) bool      { return os.IsExist(err) }
func IsPermission(err error) bool { return os.IsPermission(err) }
func Getenv(k string) string      { return os.Getenv(k) }
func LookupEnv(k string) (string, bool) { return os.LookupEnv(k) }
func Exit(c int)                  { os.Exit(c) }
func Getpid() int                 { return os.Getpid() }
func Hostname() (string, error)   { return os.Hostname() }
func TempDir() string             { return os.TempDir() }

// SimFile is an open file on the simulated disk.
type SimFile interface {
	io.Reader
	io.Writer
	io.Closer
	Sync() error
	Name() string
	Stat() (FileInfo, error)
}

// Disk is what a simulator implements. Every method is a fault/crash point.
type Disk interface {
	Root() string
	Open(name string) (SimFile, error)
	Create(name string) (SimFile, error)
	CreateTemp(dir, pattern string) (SimFile, error)
	Remove(name string) error
	Rename(oldpath, newpath string) error
	Stat(name string) (FileInfo, error)
	Mkdir(name string, perm FileMode) error
	// List returns the entries below dir for Walk (sorted, relative names).
	List(dir string) ([]string, error)
}

type holder struct{ d Disk }

var sim atomic.Pointer[holder]

func Install(d Disk) {
	if d == nil {
		sim.Store(nil)
		return
	}
	sim.Store(&holder{d})
}

// DiskFor returns the simulated disk when name lies below its root.
func DiskFor(name string) Disk {
	h := sim.Load()
	if h == nil {
		return nil
	}
	root := h.d.Root()
	if name == root || strings.HasPrefix(name, strings.TrimSuffix(root, "/")+"/") {
		return h.d
	}
	return nil
}

// File is either a real *os.File or a simulated one.
type File struct {
	real *os.File
	sim  SimFile
}

func wrap(f *os.File, err error) (*File, error) {
	if err != nil {
		return nil, err
	}
	return &File{real: f}, nil
}

func wrapSim(f SimFile, err error) (*File, error) {
	if err != nil {
		return nil, err
	}
	return &File{sim: f}, nil
}

func (f *File) Read(p []byte) (int, error) {
	if f.sim != nil {
		return f.sim.Read(p)
	}
	return f.real.Read(p)
}
func (f *File) Write(p []byte) (int, error) {
	if f.sim != nil {
		return f.sim.Write(p)
	}
	return f.real.Write(p)
}
func (f *File) WriteString(s string) (int, error) { return f.Write([]byte(s)) }
func (f *File) Close() error {
	if f.sim != nil {
		return f.sim.Close()
	}
	return f.real.Close()
}
func (f *File) Sync() error {
	if f.sim != nil {
		return f.sim.Sync()
	}
	return f.real.Sync()
}
func (f *File) Name() string {
	if f.sim != nil {
		return f.sim.Name()
	}
	return f.real.Name()
}
func (f *File) Stat() (FileInfo, error) {
	if f.sim != nil {
		return f.sim.Stat()
	}
	return f.real.Stat()
}
func (f *File) Seek(off int64, whence int) (int64, error) {
	if f.sim != nil {
		if s, ok := f.sim.(io.Seeker); ok {
			return s.Seek(off, whence)
		}
		return 0, os.ErrInvalid
	}
	return f.real.Seek(off, whence)
}
func (f *File) Chmod(m FileMode) error {
	if f.sim != nil {
		return nil
	}
	return f.real.Chmod(m)
}
func (f *File) Truncate(n int64) error {
	if f.sim != nil {
		return os.ErrInvalid
	}
	return f.real.Truncate(n)
}

func Open(name string) (*File, error) {
	if d := DiskFor(name); d != nil {
		return wrapSim(d.Open(name))
	}
	return wrap(os.Open(name))
}
func Create(name string) (*File, error) {
	if d := DiskFor(name); d != nil {
		return wrapSim(d.Create(name))
	}
	return wrap(os.Create(name))
}
func OpenFile(name string, flag int, perm FileMode) (*File, error) {
	if d := DiskFor(name); d != nil {
		if flag&(O_WRONLY|O_RDWR|O_CREATE) != 0 {
			return wrapSim(d.Create(name))
		}
		return wrapSim(d.Open(name))
	}
	return wrap(os.OpenFile(name, flag, perm))
}
func CreateTemp(dir, pattern string) (*File, error) {
	if d := DiskFor(dir); d != nil {
		return wrapSim(d.CreateTemp(dir, pattern))
	}
	return wrap(os.CreateTemp(dir, pattern))
}
func Remove(name string) error {
	if d := DiskFor(name); d != nil {
		return d.Remove(name)
	}
	return os.Remove(name)
}
func Rename(o, n string) error {
	if d := DiskFor(o); d != nil {
		return d.Rename(o, n)
	}
	return os.Rename(o, n)
}
func Stat(name string) (FileInfo, error) {
	if d := DiskFor(name); d != nil {
		return d.Stat(name)
	}
	return os.Stat(name)
}
func Lstat(name string) (FileInfo, error) { return Stat(name) }
func Mkdir(name string, perm FileMode) error {
	if d := DiskFor(name); d != nil {
		return d.Mkdir(name, perm)
	}
	return os.Mkdir(name, perm)
}
func MkdirAll(name string, perm FileMode) error {
	if d := DiskFor(name); d != nil {
		if _, err := d.Stat(name); err == nil {
			return nil
		}
		return d.Mkdir(name, perm)
	}
	return os.MkdirAll(name, perm)
}
func ReadFile(name string) ([]byte, error) {
	if d := DiskFor(name); d != nil {
		f, err := d.Open(name)
		if err != nil {
			return nil, err
		}
		defer f.Close()
		return io.ReadAll(f)
	}
	return os.ReadFile(name)
}
func WriteFile(name string, data []byte, perm FileMode) error {
	if d := DiskFor(name); d != nil {
		f, err := d.Create(name)
		if err != nil {
			return err
		}
		if _, err := f.Write(data); err != nil {
			f.Close()
			return err
		}
		return f.Close()
	}
	return os.WriteFile(name, data, perm)
}
