//go:build verif

// Package verifnet stands in for "net" in the sdns files that open sockets. With no
// simulated network installed every call goes to the real package. With one installed,
// dials return in-memory connections owned by the simulator (DESIGN.md §2.2).
package verifnet

import (
	"context"
	"net"
	"sync/atomic"
	"syscall"
	"time"
)

type (
	Addr         = net.Addr
	Conn         = net.Conn
	PacketConn   = net.PacketConn
	Listener     = net.Listener
	IP           = net.IP
	IPNet        = net.IPNet
	IPMask       = net.IPMask
	TCPAddr      = net.TCPAddr
	UDPAddr      = net.UDPAddr
	TCPConn      = net.TCPConn
	Error        = net.Error
	OpError      = net.OpError
	ListenConfig = net.ListenConfig
	Interface    = net.Interface
	Buffers      = net.Buffers
	Resolver     = net.Resolver
)

var (
	ErrClosed  = net.ErrClosed
	IPv4zero   = net.IPv4zero
	IPv6zero   = net.IPv6zero
	IPv6loopback = net.IPv6loopback
)

func ParseIP(s string) IP                                { return net.ParseIP(s) }
func ParseCIDR(s string) (IP, *IPNet, error)             { return net.ParseCIDR(s) }
func SplitHostPort(hp string) (string, string, error)    { return net.SplitHostPort(hp) }
func JoinHostPort(h, p string) string                    { return net.JoinHostPort(h, p) }
func IPv4(a, b, c, d byte) IP                            { return net.IPv4(a, b, c, d) }
func CIDRMask(ones, bits int) IPMask                     { return net.CIDRMask(ones, bits) }
func InterfaceAddrs() ([]Addr, error)                    { return net.InterfaceAddrs() }
func ResolveUDPAddr(n, a string) (*UDPAddr, error)       { return net.ResolveUDPAddr(n, a) }
func ResolveTCPAddr(n, a string) (*TCPAddr, error)       { return net.ResolveTCPAddr(n, a) }
func Listen(network, address string) (Listener, error)   { return net.Listen(network, address) }
func ListenPacket(network, address string) (PacketConn, error) {
	return net.ListenPacket(network, address)
}
func Dial(network, address string) (Conn, error) {
	return (&Dialer{}).DialContext(context.Background(), network, address)
}
func DialTimeout(network, address string, d time.Duration) (Conn, error) {
	return (&Dialer{Timeout: d}).DialContext(context.Background(), network, address)
}

// Network is what a simulator implements.
type Network interface {
	// Dial opens a client connection. network is "udp" or "tcp"; local may be nil.
	// deadline is the dial deadline (zero = none).
	Dial(ctx context.Context, network string, local Addr, address string, deadline time.Time) (Conn, error)
}

type holder struct{ n Network }

var sim atomic.Pointer[holder]

// Install routes all shimmed dials to n; Install(nil) restores the real network.
func Install(n Network) {
	if n == nil {
		sim.Store(nil)
		return
	}
	sim.Store(&holder{n})
}

func current() Network {
	if h := sim.Load(); h != nil {
		return h.n
	}
	return nil
}

// Dialer mirrors net.Dialer.
type Dialer struct {
	Timeout       time.Duration
	Deadline      time.Time
	LocalAddr     Addr
	DualStack     bool
	FallbackDelay time.Duration
	KeepAlive     time.Duration
	KeepAliveConfig net.KeepAliveConfig
	Resolver      *net.Resolver
	Cancel        <-chan struct{}
	Control       func(network, address string, c syscall.RawConn) error
	ControlContext func(ctx context.Context, network, address string, c syscall.RawConn) error
}

func (d *Dialer) real() *net.Dialer {
	return &net.Dialer{Timeout: d.Timeout, Deadline: d.Deadline, LocalAddr: d.LocalAddr, FallbackDelay: d.FallbackDelay,
		KeepAlive: d.KeepAlive, KeepAliveConfig: d.KeepAliveConfig, Resolver: d.Resolver, Control: d.Control, ControlContext: d.ControlContext}
}

func (d *Dialer) Dial(network, address string) (Conn, error) {
	return d.DialContext(context.Background(), network, address)
}

func (d *Dialer) DialContext(ctx context.Context, network, address string) (Conn, error) {
	n := current()
	if n == nil {
		return d.real().DialContext(ctx, network, address)
	}
	deadline := d.Deadline
	if d.Timeout > 0 {
		t := time.Now().Add(d.Timeout)
		if deadline.IsZero() || t.Before(deadline) {
			deadline = t
		}
	}
	return n.Dial(ctx, network, d.LocalAddr, address, deadline)
}

// UDPConn is either a real *net.UDPConn or a simulated connected datagram socket.
type UDPConn struct {
	*net.UDPConn
	sim Conn
}

func DialUDP(network string, laddr, raddr *UDPAddr) (*UDPConn, error) {
	n := current()
	if n == nil {
		c, err := net.DialUDP(network, laddr, raddr)
		if err != nil {
			return nil, err
		}
		return &UDPConn{UDPConn: c}, nil
	}
	var local Addr
	if laddr != nil {
		local = laddr
	}
	c, err := n.Dial(context.Background(), "udp", local, raddr.String(), time.Time{})
	if err != nil {
		return nil, err
	}
	return &UDPConn{sim: c}, nil
}

func (c *UDPConn) Read(p []byte) (int, error) {
	if c.sim != nil {
		return c.sim.Read(p)
	}
	return c.UDPConn.Read(p)
}
func (c *UDPConn) Write(p []byte) (int, error) {
	if c.sim != nil {
		return c.sim.Write(p)
	}
	return c.UDPConn.Write(p)
}
func (c *UDPConn) Close() error {
	if c.sim != nil {
		return c.sim.Close()
	}
	return c.UDPConn.Close()
}
func (c *UDPConn) LocalAddr() Addr {
	if c.sim != nil {
		return c.sim.LocalAddr()
	}
	return c.UDPConn.LocalAddr()
}
func (c *UDPConn) RemoteAddr() Addr {
	if c.sim != nil {
		return c.sim.RemoteAddr()
	}
	return c.UDPConn.RemoteAddr()
}
func (c *UDPConn) SetDeadline(t time.Time) error {
	if c.sim != nil {
		return c.sim.SetDeadline(t)
	}
	return c.UDPConn.SetDeadline(t)
}
func (c *UDPConn) SetReadDeadline(t time.Time) error {
	if c.sim != nil {
		return c.sim.SetReadDeadline(t)
	}
	return c.UDPConn.SetReadDeadline(t)
}
func (c *UDPConn) SetWriteDeadline(t time.Time) error {
	if c.sim != nil {
		return c.sim.SetWriteDeadline(t)
	}
	return c.UDPConn.SetWriteDeadline(t)
}

// ReadFrom / WriteTo make the simulated socket a net.PacketConn, which is how
// dnsclient tells datagram from stream transports.
func (c *UDPConn) ReadFrom(p []byte) (int, Addr, error) {
	if c.sim != nil {
		n, err := c.sim.Read(p)
		return n, c.sim.RemoteAddr(), err
	}
	return c.UDPConn.ReadFrom(p)
}
func (c *UDPConn) WriteTo(p []byte, a Addr) (int, error) {
	if c.sim != nil {
		return c.sim.Write(p)
	}
	return c.UDPConn.WriteTo(p, a)
}
