//go:build verif && linux

// Package verifunix stands in for golang.org/x/sys/unix in server/udp_batch_linux.go.
// Everything is the real package except Syscall6: recvmmsg/sendmmsg on a descriptor the
// simulated kernel handed out are served from its datagram queues, reading and writing
// the caller's mmsghdr/iovec/sockaddr arrays exactly where the real kernel would.
package verifunix

import (
	"encoding/binary"
	"net/netip"
	"unsafe"

	"github.com/semihalev/sdns/verifx/verifsrvnet"
	"golang.org/x/sys/unix"
)

type (
	Msghdr = unix.Msghdr
	Iovec  = unix.Iovec
	Errno  = unix.Errno
)

const (
	SYS_RECVMMSG         = unix.SYS_RECVMMSG
	SYS_SENDMMSG         = unix.SYS_SENDMMSG
	SYS_RECVFROM         = unix.SYS_RECVFROM
	MSG_PEEK             = unix.MSG_PEEK
	MSG_DONTWAIT         = unix.MSG_DONTWAIT
	EAGAIN               = unix.EAGAIN
	EBADF                = unix.EBADF
	ENOSYS               = unix.ENOSYS
	EPERM                = unix.EPERM
	EOPNOTSUPP           = unix.EOPNOTSUPP
	MSG_TRUNC            = unix.MSG_TRUNC
	MSG_CTRUNC           = unix.MSG_CTRUNC
	AF_INET              = unix.AF_INET
	AF_INET6             = unix.AF_INET6
	SizeofSockaddrInet4  = unix.SizeofSockaddrInet4
	SizeofSockaddrInet6  = unix.SizeofSockaddrInet6
)

// mmsghdr as the caller lays it out (64-bit targets).
type mmsghdr struct {
	hdr  unix.Msghdr
	dlen uint32
	_    [4]byte
}

func Syscall6(trap, a1, a2, a3, a4, a5, a6 uintptr) (r1, r2 uintptr, err unix.Errno) {
	if a1 < verifsrvnet.FDBase || (trap != unix.SYS_RECVMMSG && trap != unix.SYS_SENDMMSG && trap != unix.SYS_RECVFROM) {
		return unix.Syscall6(trap, a1, a2, a3, a4, a5, a6)
	}
	s := verifsrvnet.Lookup(a1)
	if s == nil {
		return 0, 0, unix.EBADF
	}
	if trap == unix.SYS_RECVFROM {
		// only the non-consuming, non-blocking form is simulated: "is a datagram queued?"
		if a4&unix.MSG_PEEK == 0 || a4&unix.MSG_DONTWAIT == 0 {
			return 0, 0, unix.EINVAL
		}
		n, errno := s.Pending()
		if errno != 0 {
			return 0, 0, unix.Errno(errno)
		}
		if n == 0 {
			return 0, 0, unix.EAGAIN
		}
		return 1, 0, 0
	}
	vlen := int(a3)
	if vlen <= 0 {
		return 0, 0, unix.EINVAL
	}
	hdrs := unsafe.Slice((*mmsghdr)(unsafe.Pointer(a2)), vlen) //nolint:govet // the caller's pinned array, as the kernel sees it
	if trap == unix.SYS_RECVMMSG {
		ds, errno := s.TryRecv(vlen, true)
		if errno != 0 {
			return 0, 0, unix.Errno(errno)
		}
		if len(ds) == 0 {
			return 0, 0, unix.EAGAIN
		}
		for i, d := range ds {
			h := &hdrs[i]
			h.hdr.Flags = 0
			n := 0
			if h.hdr.Iov != nil && h.hdr.Iovlen > 0 && h.hdr.Iov.Base != nil {
				buf := unsafe.Slice(h.hdr.Iov.Base, int(h.hdr.Iov.Len))
				n = copy(buf, d.Data)
			}
			if n < len(d.Data) {
				h.hdr.Flags |= unix.MSG_TRUNC
			}
			h.dlen = uint32(n)
			if h.hdr.Name != nil && h.hdr.Namelen > 0 {
				name := unsafe.Slice(h.hdr.Name, int(h.hdr.Namelen))
				h.hdr.Namelen = uint32(putSockaddr(name, d.From))
			}
			h.hdr.Controllen = 0
		}
		return uintptr(len(ds)), 0, 0
	}
	// sendmmsg
	limit, errno := s.BatchSendLimit(vlen)
	if errno != 0 {
		return 0, 0, unix.Errno(errno)
	}
	sent := 0
	for i := 0; i < vlen && i < limit; i++ {
		h := &hdrs[i]
		var to netip.AddrPort
		if h.hdr.Name != nil {
			to = getSockaddr(unsafe.Slice(h.hdr.Name, int(h.hdr.Namelen)))
		}
		var data []byte
		if h.hdr.Iov != nil && h.hdr.Iov.Base != nil {
			data = append([]byte(nil), unsafe.Slice(h.hdr.Iov.Base, int(h.hdr.Iov.Len))...)
		}
		if e := s.Send(to, data, true); e != 0 {
			if sent == 0 {
				return 0, 0, unix.Errno(e)
			}
			break // like the kernel: report what went out, the error surfaces on the next call
		}
		h.dlen = uint32(len(data))
		sent++
	}
	return uintptr(sent), 0, 0
}

func putSockaddr(b []byte, ap netip.AddrPort) int {
	a := ap.Addr()
	if a.Is4() {
		if len(b) < unix.SizeofSockaddrInet4 {
			return 0
		}
		binary.NativeEndian.PutUint16(b[0:2], unix.AF_INET)
		b[2], b[3] = byte(ap.Port()>>8), byte(ap.Port())
		v := a.As4()
		copy(b[4:8], v[:])
		for i := 8; i < 16; i++ {
			b[i] = 0
		}
		return unix.SizeofSockaddrInet4
	}
	if len(b) < unix.SizeofSockaddrInet6 {
		return 0
	}
	binary.NativeEndian.PutUint16(b[0:2], unix.AF_INET6)
	b[2], b[3] = byte(ap.Port()>>8), byte(ap.Port())
	b[4], b[5], b[6], b[7] = 0, 0, 0, 0
	v := a.As16()
	copy(b[8:24], v[:])
	b[24], b[25], b[26], b[27] = 0, 0, 0, 0
	return unix.SizeofSockaddrInet6
}

func getSockaddr(b []byte) netip.AddrPort {
	if len(b) < 2 {
		return netip.AddrPort{}
	}
	switch binary.NativeEndian.Uint16(b[0:2]) {
	case unix.AF_INET:
		if len(b) < unix.SizeofSockaddrInet4 {
			return netip.AddrPort{}
		}
		var a [4]byte
		copy(a[:], b[4:8])
		return netip.AddrPortFrom(netip.AddrFrom4(a), uint16(b[2])<<8|uint16(b[3]))
	case unix.AF_INET6:
		if len(b) < unix.SizeofSockaddrInet6 {
			return netip.AddrPort{}
		}
		var a [16]byte
		copy(a[:], b[8:24])
		return netip.AddrPortFrom(netip.AddrFrom16(a), uint16(b[2])<<8|uint16(b[3]))
	}
	return netip.AddrPort{}
}
