//go:build verif

// Package verifxxhash stands in for github.com/cespare/xxhash/v2 in the two files that
// compute cache keys (internal/cache/key.go, key_wire.go). It is the real hash with an
// optional mask on the result: with the mask narrowed to a few bits, distinct questions
// collide on the cache key all the time, which is the only practical way to exercise what
// the cache does when they do. The default mask keeps all 64 bits.
package verifxxhash

import (
	"sync/atomic"

	"github.com/cespare/xxhash/v2"
)

var mask atomic.Uint64

func init() { mask.Store(^uint64(0)) }

// SetMask narrows the key space (all ones = shipped behaviour); returns the previous mask.
func SetMask(m uint64) uint64 { return mask.Swap(m) }

func Sum64(b []byte) uint64       { return xxhash.Sum64(b) & mask.Load() }
func Sum64String(s string) uint64 { return xxhash.Sum64String(s) & mask.Load() }

// Digest is xxhash.Digest with the masked sum.
type Digest struct{ d xxhash.Digest }

func New() *Digest                               { x := &Digest{}; x.d.Reset(); return x }
func (x *Digest) Reset()                         { x.d.Reset() }
func (x *Digest) Write(b []byte) (int, error)    { return x.d.Write(b) }
func (x *Digest) WriteString(s string) (int, error) { return x.d.WriteString(s) }
func (x *Digest) Sum64() uint64                  { return x.d.Sum64() & mask.Load() }
