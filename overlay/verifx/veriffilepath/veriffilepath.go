//go:build verif

// Package veriffilepath stands in for "path/filepath": everything is the real package
// except Walk, which must see the simulated disk.
package veriffilepath

import (
	"io/fs"
	"path/filepath"

	"github.com/semihalev/sdns/verifx/verifos"
)

type WalkFunc = filepath.WalkFunc

var SkipDir = filepath.SkipDir
var SkipAll = filepath.SkipAll

const Separator = filepath.Separator

func Join(e ...string) string              { return filepath.Join(e...) }
func Dir(p string) string                  { return filepath.Dir(p) }
func Base(p string) string                 { return filepath.Base(p) }
func Ext(p string) string                  { return filepath.Ext(p) }
func Clean(p string) string                { return filepath.Clean(p) }
func Abs(p string) (string, error)         { return filepath.Abs(p) }
func IsAbs(p string) bool                  { return filepath.IsAbs(p) }
func Rel(b, t string) (string, error)      { return filepath.Rel(b, t) }
func Split(p string) (string, string)      { return filepath.Split(p) }
func Match(p, n string) (bool, error)      { return filepath.Match(p, n) }
func Glob(p string) ([]string, error)      { return filepath.Glob(p) }
func FromSlash(p string) string            { return filepath.FromSlash(p) }
func ToSlash(p string) string              { return filepath.ToSlash(p) }
func WalkDir(root string, fn fs.WalkDirFunc) error { return filepath.WalkDir(root, fn) }

func Walk(root string, fn WalkFunc) error {
	d := verifos.DiskFor(root)
	if d == nil {
		return filepath.Walk(root, fn)
	}
	info, err := d.Stat(root)
	if err != nil {
		return fn(root, nil, err)
	}
	if err := fn(root, info, nil); err != nil {
		if err == SkipDir || err == SkipAll {
			return nil
		}
		return err
	}
	names, err := d.List(root)
	if err != nil {
		return fn(root, info, err)
	}
	for _, n := range names {
		p := filepath.Join(root, n)
		fi, err := d.Stat(p)
		if err != nil {
			if e := fn(p, nil, err); e != nil && e != SkipDir {
				return e
			}
			continue
		}
		if err := fn(p, fi, nil); err != nil {
			if err == SkipDir {
				continue
			}
			if err == SkipAll {
				return nil
			}
			return err
		}
	}
	return nil
}
