//go:build verif

// Package verifsrvnet stands in for "net" in the server's owned UDP transport
// (listener_udp.go, udp_engine.go, udp_batch_linux.go). With no simulated kernel
// installed, ListenPacket opens a real socket and every method goes to it. With one
// installed, a UDPConn is a simulated socket: blocking reads park on the simulator,
// SyscallConn hands out a descriptor number that verifunix.Syscall6 recognises, so the
// recvmmsg/sendmmsg batch path runs unchanged against simulated datagram queues.
package verifsrvnet

import (
	"context"
	"errors"
	"net"
	"net/netip"
	"os"
	"sync"
	"sync/atomic"
	"syscall"
	"time"
)

type (
	Addr       = net.Addr
	UDPAddr    = net.UDPAddr
	TCPAddr    = net.TCPAddr
	IP         = net.IP
	PacketConn = net.PacketConn
	Conn       = net.Conn
	Listener   = net.Listener
	Error      = net.Error
	OpError    = net.OpError
)

var ErrClosed = net.ErrClosed

func ParseIP(s string) IP                             { return net.ParseIP(s) }
func SplitHostPort(hp string) (string, string, error) { return net.SplitHostPort(hp) }
func JoinHostPort(h, p string) string                 { return net.JoinHostPort(h, p) }

// Datagram is one received packet.
type Datagram struct {
	From netip.AddrPort
	Data []byte
}

// Socket is the simulated kernel's side of one bound UDP socket.
type Socket interface {
	// TryRecv returns up to max queued datagrams without blocking. errno is 0 or a raw
	// errno the "system call" fails with (fault injection); an empty result with errno 0
	// means EAGAIN.
	TryRecv(max int, batch bool) (d []Datagram, errno syscall.Errno)
	// Pending reports how many datagrams are queued without consuming any (recvfrom with
	// MSG_PEEK|MSG_DONTWAIT); errno as for TryRecv, or EBADF once closed.
	Pending() (n int, errno syscall.Errno)
	// WaitReadable blocks until a datagram is queued, the read deadline passes
	// (os.ErrDeadlineExceeded) or the socket is closed (net.ErrClosed).
	WaitReadable() error
	// Send transmits one datagram; batch tells whether it left through sendmmsg.
	Send(to netip.AddrPort, b []byte, batch bool) syscall.Errno
	// BatchSendLimit is how many messages the next sendmmsg accepts (fault injection:
	// partial sends); errno != 0 fails the call.
	BatchSendLimit(n int) (limit int, errno syscall.Errno)
	LocalAddr() netip.AddrPort
	SetReadDeadline(t time.Time)
	Close() error
	// RawConnOK reports whether SyscallConn succeeds (false forces the portable path).
	RawConnOK() bool
}

// Kernel binds sockets.
type Kernel interface {
	ListenUDP(address string) (Socket, error)
	// ListenTCP returns a stream listener whose Accept yields simulated connections.
	ListenTCP(address string) (net.Listener, error)
}

type holder struct{ k Kernel }

var sim atomic.Pointer[holder]

func Install(k Kernel) {
	if k == nil {
		sim.Store(nil)
		return
	}
	sim.Store(&holder{k})
}

// descriptor table: simulated descriptors live above this base
const FDBase = 1 << 30

var (
	fdMu   sync.Mutex
	fdTab  = map[uintptr]Socket{}
	fdNext uintptr = FDBase
)

// Lookup returns the simulated socket behind a descriptor number.
func Lookup(fd uintptr) Socket {
	fdMu.Lock()
	defer fdMu.Unlock()
	return fdTab[fd]
}

// ListenConfig mirrors the fields of net.ListenConfig the server sets.
type ListenConfig struct {
	Control   func(network, address string, c syscall.RawConn) error
	KeepAlive time.Duration
}

func (lc *ListenConfig) Listen(ctx context.Context, network, address string) (net.Listener, error) {
	h := sim.Load()
	if h == nil {
		rlc := net.ListenConfig{Control: lc.Control, KeepAlive: lc.KeepAlive}
		return rlc.Listen(ctx, network, address)
	}
	return h.k.ListenTCP(address)
}

func (lc *ListenConfig) ListenPacket(ctx context.Context, network, address string) (PacketConn, error) {
	h := sim.Load()
	if h == nil {
		rlc := net.ListenConfig{Control: lc.Control, KeepAlive: lc.KeepAlive}
		pc, err := rlc.ListenPacket(ctx, network, address)
		if err != nil {
			return nil, err
		}
		if u, ok := pc.(*net.UDPConn); ok {
			return &UDPConn{real: u}, nil
		}
		return pc, nil
	}
	s, err := h.k.ListenUDP(address)
	if err != nil {
		return nil, err
	}
	c := &UDPConn{sock: s}
	fdMu.Lock()
	c.fd = fdNext
	fdNext++
	fdTab[c.fd] = s
	fdMu.Unlock()
	return c, nil
}

// UDPConn is a real *net.UDPConn or a simulated bound socket.
type UDPConn struct {
	real *net.UDPConn
	sock Socket
	fd   uintptr
}

func (c *UDPConn) LocalAddr() Addr {
	if c.sock == nil {
		return c.real.LocalAddr()
	}
	return net.UDPAddrFromAddrPort(c.sock.LocalAddr())
}

func (c *UDPConn) Close() error {
	if c.sock == nil {
		return c.real.Close()
	}
	fdMu.Lock()
	delete(fdTab, c.fd)
	fdMu.Unlock()
	return c.sock.Close()
}

func (c *UDPConn) SetReadDeadline(t time.Time) error {
	if c.sock == nil {
		return c.real.SetReadDeadline(t)
	}
	c.sock.SetReadDeadline(t)
	return nil
}
func (c *UDPConn) SetDeadline(t time.Time) error { return c.SetReadDeadline(t) }
func (c *UDPConn) SetWriteDeadline(t time.Time) error {
	if c.sock == nil {
		return c.real.SetWriteDeadline(t)
	}
	return nil
}

func (c *UDPConn) ReadMsgUDPAddrPort(b, oob []byte) (n, oobn, flags int, addr netip.AddrPort, err error) {
	if c.sock == nil {
		return c.real.ReadMsgUDPAddrPort(b, oob)
	}
	for {
		ds, errno := c.sock.TryRecv(1, false)
		if errno != 0 {
			return 0, 0, 0, netip.AddrPort{}, &net.OpError{Op: "read", Net: "udp", Err: os.NewSyscallError("recvmsg", errno)}
		}
		if len(ds) == 1 {
			n = copy(b, ds[0].Data)
			if n < len(ds[0].Data) {
				flags |= syscall.MSG_TRUNC
			}
			return n, 0, flags, ds[0].From, nil
		}
		if err := c.sock.WaitReadable(); err != nil {
			return 0, 0, 0, netip.AddrPort{}, &net.OpError{Op: "read", Net: "udp", Err: err}
		}
	}
}

func (c *UDPConn) WriteMsgUDPAddrPort(b, oob []byte, addr netip.AddrPort) (n, oobn int, err error) {
	if c.sock == nil {
		return c.real.WriteMsgUDPAddrPort(b, oob, addr)
	}
	if errno := c.sock.Send(addr, b, false); errno != 0 {
		return 0, 0, &net.OpError{Op: "write", Net: "udp", Err: os.NewSyscallError("sendmsg", errno)}
	}
	return len(b), len(oob), nil
}

func (c *UDPConn) ReadFrom(p []byte) (int, Addr, error) {
	n, _, _, ap, err := c.ReadMsgUDPAddrPort(p, nil)
	if err != nil {
		return 0, nil, err
	}
	return n, net.UDPAddrFromAddrPort(ap), nil
}

func (c *UDPConn) WriteTo(p []byte, a Addr) (int, error) {
	ua, ok := a.(*net.UDPAddr)
	if !ok {
		return 0, errors.New("verifsrvnet: not a UDP address")
	}
	n, _, err := c.WriteMsgUDPAddrPort(p, nil, ua.AddrPort())
	return n, err
}

func (c *UDPConn) SyscallConn() (syscall.RawConn, error) {
	if c.sock == nil {
		return c.real.SyscallConn()
	}
	if !c.sock.RawConnOK() {
		return nil, errors.New("verifsrvnet: raw descriptor unavailable")
	}
	return &rawConn{c}, nil
}

type rawConn struct{ c *UDPConn }

func (r *rawConn) Control(f func(fd uintptr)) error { f(r.c.fd); return nil }

// Read mirrors the netpoller contract: call f; when it reports "would block", wait for
// readability and call it again.
func (r *rawConn) Read(f func(fd uintptr) (done bool)) error {
	for {
		if Lookup(r.c.fd) == nil {
			return &net.OpError{Op: "raw-read", Net: "udp", Err: net.ErrClosed}
		}
		if f(r.c.fd) {
			return nil
		}
		if err := r.c.sock.WaitReadable(); err != nil {
			return &net.OpError{Op: "raw-read", Net: "udp", Err: err}
		}
	}
}

func (r *rawConn) Write(f func(fd uintptr) (done bool)) error {
	for i := 0; i < 1000; i++ {
		if Lookup(r.c.fd) == nil {
			return &net.OpError{Op: "raw-write", Net: "udp", Err: net.ErrClosed}
		}
		if f(r.c.fd) {
			return nil
		}
	}
	return errors.New("verifsrvnet: socket never became writable")
}
