//go:build verif

// Package bridge re-exports sdns internal packages to the simulation harness, which
// lives in another module and so cannot import internal/... itself. Nothing here alters
// behaviour; it only names things.
package bridge

import (
	"github.com/miekg/dns"

	"github.com/semihalev/sdns/internal/authority"
	icache "github.com/semihalev/sdns/internal/cache"
	"github.com/semihalev/sdns/internal/wire"
)

type (
	Cache                   = icache.Cache
	SegmentUInt64Map[V any] = icache.SegmentUInt64Map[V]
	SyncUInt64Map[V any]    = icache.SyncUInt64Map[V]
	UInt64Map[V any]        = icache.UInt64Map[V]
)

func NewCache(size int) *Cache { return icache.New(size) }
func NewSegmentUInt64Map[V any](power uint8, capacity int) *SegmentUInt64Map[V] {
	return icache.NewSegmentUInt64Map[V](power, capacity)
}
func NewSyncUInt64Map[V any](power uint) *SyncUInt64Map[V] { return icache.NewSyncUInt64Map[V](power) }
func NewUInt64Map[V any](capacity int) *UInt64Map[V]      { return icache.NewUInt64Map[V](capacity) }

func CacheKey(q dns.Question, cd bool) uint64 { return icache.Key(q, cd) }

func TryPack(msg *dns.Msg, consume func([]byte) error) (bool, error) { return wire.TryPack(msg, consume) }
func PackClone(msg *dns.Msg) ([]byte, error)                         { return wire.PackClone(msg) }

// VerifSetRandN pins authority.Sort's tie-break randomness.
func SetAuthorityRandN(f func(int) int) func(int) int { return authority.VerifSetRandN(f) }
