//go:build verif

// Package verifsync stands in for "sync" and "sync/atomic" in the few sdns files whose
// interleavings the simulator explores at lock granularity. With no scheduler installed
// every type behaves exactly like the real one. With one installed, every lock
// acquisition and atomic operation is a scheduling point of a cooperative scheduler
// that runs exactly one task at a time and picks the next one from the scenario's
// schedule, so an interleaving is a replayable list of integers.
package verifsync

import (
	"sync"
	"sync/atomic"
)

// Re-exports so that an edit to a shimmed file that starts using another identifier of
// the real packages still builds.
type (
	WaitGroup = sync.WaitGroup
	Once      = sync.Once
	Pool      = sync.Pool
	Map       = sync.Map
	Cond      = sync.Cond
	Locker    = sync.Locker
	Bool      = atomic.Bool
	Int32     = atomic.Int32
	Uint32    = atomic.Uint32
	Uint64    = atomic.Uint64
	Value     = atomic.Value
)

func NewCond(l Locker) *Cond { return sync.NewCond(l) }

func OnceFunc(f func()) func() { return sync.OnceFunc(f) }

func AddInt64(p *int64, d int64) int64   { yield("atomic"); return atomic.AddInt64(p, d) }
func LoadInt64(p *int64) int64           { yield("atomic"); return atomic.LoadInt64(p) }
func StoreInt64(p *int64, v int64)       { yield("atomic"); atomic.StoreInt64(p, v) }
func AddUint64(p *uint64, d uint64) uint64 { yield("atomic"); return atomic.AddUint64(p, d) }
func LoadUint64(p *uint64) uint64        { yield("atomic"); return atomic.LoadUint64(p) }
func StoreUint64(p *uint64, v uint64)    { yield("atomic"); atomic.StoreUint64(p, v) }
func AddInt32(p *int32, d int32) int32   { yield("atomic"); return atomic.AddInt32(p, d) }
func LoadInt32(p *int32) int32           { yield("atomic"); return atomic.LoadInt32(p) }
func StoreInt32(p *int32, v int32)       { yield("atomic"); atomic.StoreInt32(p, v) }
func CompareAndSwapInt32(p *int32, o, n int32) bool {
	yield("atomic")
	return atomic.CompareAndSwapInt32(p, o, n)
}
func CompareAndSwapInt64(p *int64, o, n int64) bool {
	yield("atomic")
	return atomic.CompareAndSwapInt64(p, o, n)
}

// active is the installed scheduler (nil = pass-through).
var active atomic.Pointer[Sched]

func yield(kind string) {
	if s := active.Load(); s != nil {
		s.yield(kind)
	}
}

// YieldPoint is a scheduling point for instrumented call sites outside this package (no-op
// without an installed scheduler).
func YieldPoint(kind string) { yield(kind) }

// AfterPackRelease, when set, is called right after internal/wire returned a pooled pack
// state to its pool (only a world that wants other goroutines to run there sets it).
var AfterPackRelease func()

// OnRelease, when set, is called after a task released a shimmed lock exclusively held
// (Mutex.Unlock, RWMutex.Unlock), still inside that task's turn: the harness can read the
// state the critical section left behind before any other task runs.
var OnRelease func(obj any)

// Mutex is sync.Mutex with a scheduling point before acquisition.
type Mutex struct{ mu sync.Mutex }

func (m *Mutex) Lock() {
	s := active.Load()
	if s == nil || !s.inTask() {
		m.mu.Lock()
		return
	}
	s.yield("lock")
	for !m.mu.TryLock() {
		s.block(m)
	}
	s.acquired(m)
}

func (m *Mutex) TryLock() bool {
	yield("trylock")
	ok := m.mu.TryLock()
	if ok {
		if s := active.Load(); s != nil && s.inTask() {
			s.acquired(m)
		}
	}
	return ok
}

func (m *Mutex) Unlock() {
	m.mu.Unlock()
	if s := active.Load(); s != nil && s.inTask() {
		s.released(m)
		if OnRelease != nil {
			OnRelease(m)
		}
	}
}

// RWMutex is sync.RWMutex with scheduling points before acquisitions.
type RWMutex struct{ mu sync.RWMutex }

func (m *RWMutex) Lock() {
	s := active.Load()
	if s == nil || !s.inTask() {
		m.mu.Lock()
		return
	}
	s.yield("lock")
	for !m.mu.TryLock() {
		s.block(m)
	}
	s.acquired(m)
}

func (m *RWMutex) Unlock() {
	m.mu.Unlock()
	if s := active.Load(); s != nil && s.inTask() {
		s.released(m)
		if OnRelease != nil {
			OnRelease(m)
		}
	}
}

func (m *RWMutex) RLock() {
	s := active.Load()
	if s == nil || !s.inTask() {
		m.mu.RLock()
		return
	}
	s.yield("rlock")
	for !m.mu.TryRLock() {
		s.block(m)
	}
	s.acquired(m)
}

func (m *RWMutex) RUnlock() {
	m.mu.RUnlock()
	if s := active.Load(); s != nil && s.inTask() {
		s.released(m)
	}
}

func (m *RWMutex) TryLock() bool  { yield("trylock"); return m.mu.TryLock() }
func (m *RWMutex) TryRLock() bool { yield("trylock"); return m.mu.TryRLock() }
func (m *RWMutex) RLocker() Locker { return m.mu.RLocker() }

// Int64 is atomic.Int64 with a scheduling point before each operation.
type Int64 struct{ v atomic.Int64 }

func (a *Int64) Load() int64           { yield("atomic"); return a.v.Load() }
func (a *Int64) Store(x int64)         { yield("atomic"); a.v.Store(x) }
func (a *Int64) Add(d int64) int64     { yield("atomic"); return a.v.Add(d) }
func (a *Int64) Swap(x int64) int64    { yield("atomic"); return a.v.Swap(x) }
func (a *Int64) CompareAndSwap(o, n int64) bool {
	yield("atomic")
	return a.v.CompareAndSwap(o, n)
}

// Pointer is atomic.Pointer with a scheduling point before each operation.
type Pointer[T any] struct{ v atomic.Pointer[T] }

func (p *Pointer[T]) Load() *T       { yield("atomic"); return p.v.Load() }
func (p *Pointer[T]) Store(x *T)     { yield("atomic"); p.v.Store(x) }
func (p *Pointer[T]) Swap(x *T) *T   { yield("atomic"); return p.v.Swap(x) }
func (p *Pointer[T]) CompareAndSwap(o, n *T) bool {
	yield("atomic")
	return p.v.CompareAndSwap(o, n)
}
