//go:build verif

package verifsync

import "fmt"

// Sched is the cooperative scheduler. Tasks are real goroutines, but exactly one runs at
// a time; at every scheduling point the running task parks and the driver picks the next
// task from the schedule. A schedule is a list of ints: 0 = keep running the current task
// if it can run (else the lowest runnable), k>0 = the ((k-1) mod n)-th runnable task.
// Decisions beyond the end of the list are 0, so a truncated schedule still terminates.
type Sched struct {
	Schedule []int
	MaxSteps int // safety bound on scheduling decisions (0 = 1<<20)

	tasks    []*task
	cur      *task
	last     *task
	step     int
	decision int
	maxHeld  int
	// Observed facts, for oracles.
	Deadlock  bool
	Overrun   bool
	Panics    []string
	Decisions []int // the index actually chosen at each decision (canonical schedule)
	Kinds     map[string]int
	Switches  int
}

type task struct {
	id        int
	fn        func()
	resume    chan struct{}
	parked    chan struct{}
	done      bool
	started   bool
	blockedOn any
	held      int
}

func NewSched(schedule []int) *Sched {
	return &Sched{Schedule: schedule, Kinds: map[string]int{}}
}

// Go registers a task. Tasks start only when Run is called.
func (s *Sched) Go(fn func()) int {
	t := &task{id: len(s.tasks), fn: fn, resume: make(chan struct{}), parked: make(chan struct{})}
	s.tasks = append(s.tasks, t)
	return t.id
}

// Step is the scheduler's logical clock: it advances at every scheduling point, so
// invoke/return stamps taken from it totally order events of different tasks.
func (s *Sched) Step() int { s.step++; return s.step }

// Current returns the id of the running task (-1 outside tasks).
func (s *Sched) Current() int {
	if s.cur == nil {
		return -1
	}
	return s.cur.id
}

// MaxHeld is the largest number of shimmed locks one task held simultaneously.
func (s *Sched) MaxHeld() int { return s.maxHeld }

func (s *Sched) inTask() bool { return s.cur != nil }

// Yield is an explicit scheduling point for harness code running inside a task.
func (s *Sched) Yield(kind string) { s.yield(kind) }

func (s *Sched) yield(kind string) {
	t := s.cur
	if t == nil {
		return
	}
	s.Kinds[kind]++
	s.step++
	t.parked <- struct{}{}
	<-t.resume
}

func (s *Sched) block(obj any) {
	t := s.cur
	t.blockedOn = obj
	s.yield("blocked")
}

func (s *Sched) acquired(obj any) {
	t := s.cur
	t.held++
	if t.held > s.maxHeld {
		s.maxHeld = t.held
	}
}

func (s *Sched) released(obj any) {
	if t := s.cur; t != nil && t.held > 0 {
		t.held--
	}
	for _, o := range s.tasks {
		if o.blockedOn == obj {
			o.blockedOn = nil
		}
	}
}

// Run executes all tasks to completion under the schedule. It returns false on deadlock
// (every unfinished task blocked) or when MaxSteps is exceeded; the leftover goroutines
// are abandoned in that case.
func (s *Sched) Run() bool {
	max := s.MaxSteps
	if max == 0 {
		max = 1 << 20
	}
	active.Store(s)
	defer active.Store(nil)
	for {
		var runnable []*task
		unfinished := 0
		for _, t := range s.tasks {
			if t.done {
				continue
			}
			unfinished++
			if t.blockedOn == nil {
				runnable = append(runnable, t)
			}
		}
		if unfinished == 0 {
			return true
		}
		if len(runnable) == 0 {
			s.Deadlock = true
			return false
		}
		if s.decision >= max {
			s.Overrun = true
			return false
		}
		v := 0
		if s.decision < len(s.Schedule) {
			v = s.Schedule[s.decision]
		}
		s.decision++
		var t *task
		if v <= 0 {
			for _, r := range runnable {
				if r == s.last {
					t = r
				}
			}
			if t == nil {
				t = runnable[0]
			}
		} else {
			t = runnable[(v-1)%len(runnable)]
		}
		s.Decisions = append(s.Decisions, t.id)
		if s.last != nil && s.last != t {
			s.Switches++
		}
		s.last = t
		s.cur = t
		if !t.started {
			t.started = true
			go s.runTask(t)
		}
		t.resume <- struct{}{}
		<-t.parked
		s.cur = nil
	}
}

func (s *Sched) runTask(t *task) {
	<-t.resume
	defer func() {
		if e := recover(); e != nil {
			s.Panics = append(s.Panics, fmt.Sprintf("task %d: %v", t.id, e))
		}
		t.done = true
		t.parked <- struct{}{}
	}()
	t.fn()
}
