#!/usr/bin/env python3
"""Builds build/overlay.json from the current /repo working tree.

Three kinds of entries (DESIGN.md 2.3):
  1. packages added under /repo/verifx/...      (from overlay/verifx)
  2. in-package export files zz_verif_export.go (from overlay/export/<pkgpath>/)
  3. import substitution: a copy of a repo file with only import lines rewritten.
Nothing under /repo is modified.
"""
import json, os, re, sys

VERIF = os.path.dirname(os.path.dirname(os.path.abspath(__file__)))
REPO = os.environ.get("VERIF_REPO", "/repo")
BUILD = os.environ.get("VERIF_BUILD") or os.path.join(VERIF, "build")
MOD = "github.com/semihalev/sdns"

# file -> list of (import path, replacement "alias path")
SUBST = {
    "internal/cache/segment_uint64_map.go": [
        ("sync", 'sync "%s/verifx/verifsync"' % MOD),
        ("sync/atomic", 'atomic "%s/verifx/verifsync"' % MOD),
    ],
}

# file -> list of (literal text, replacement): call sites given a scheduling point. A pattern
# that is no longer in the file is skipped with a note (the hook is then simply unused).
TEXT = {
    "internal/wire/pack.go": [
        ("dns.PackRR(", "verifPackRR("),
        ("packStatePool.Put(state)", "packStatePool.Put(state); verifAfterRelease()"),
    ],
}

def load_subst():
    extra = os.path.join(VERIF, "overlay", "subst.json")
    if os.path.exists(extra):
        for f, subs in json.load(open(extra)).items():
            SUBST[f] = [(a, b.replace("$MOD", MOD)) for a, b in subs]

def rewrite(src, subs, name):
    lines = src.split("\n")
    for imp, repl in subs:
        pat = re.compile(r'^(\s*)(?:import\s+)?(?:[A-Za-z_][A-Za-z0-9_]*\s+)?"%s"\s*$' % re.escape(imp))
        hit = False
        for i, l in enumerate(lines):
            m = pat.match(l)
            if m:
                prefix = "import " if l.lstrip().startswith("import") else ""
                lines[i] = m.group(1) + prefix + repl
                hit = True
                break
        if not hit:
            # The file no longer imports it: nothing to substitute (an edit removed the use).
            sys.stderr.write("overlay: note: %s does not import %s\n" % (name, imp))
    return "\n".join(lines)

def main():
    load_subst()
    os.makedirs(BUILD, exist_ok=True)
    replace = {}
    # 1. added packages
    base = os.path.join(VERIF, "overlay", "verifx")
    for root, _, files in os.walk(base):
        for f in files:
            if f.endswith(".go"):
                rel = os.path.relpath(os.path.join(root, f), base)
                replace[os.path.join(REPO, "verifx", rel)] = os.path.join(root, f)
    # 2. export files
    base = os.path.join(VERIF, "overlay", "export")
    for root, _, files in os.walk(base):
        for f in files:
            if f.endswith(".go"):
                rel = os.path.relpath(os.path.join(root, f), base)
                if not os.path.isdir(os.path.join(REPO, os.path.dirname(rel))):
                    sys.stderr.write("overlay: package dir missing in repo: %s\n" % os.path.dirname(rel))
                    sys.exit(2)
                replace[os.path.join(REPO, rel)] = os.path.join(root, f)
    # 3. import substitution
    for f in TEXT:
        SUBST.setdefault(f, [])
    for f, subs in SUBST.items():
        src_path = os.path.join(REPO, f)
        if not os.path.exists(src_path):
            sys.stderr.write("overlay: file to shim is missing: %s\n" % f)
            sys.exit(2)
        out = os.path.join(BUILD, "shim", f)
        os.makedirs(os.path.dirname(out), exist_ok=True)
        new = rewrite(open(src_path).read(), subs, f)
        for a, b in TEXT.get(f, []):
            if a in new:
                new = new.replace(a, b)
            else:
                sys.stderr.write("overlay: note: %s has no %r\n" % (f, a))
        old = open(out).read() if os.path.exists(out) else None
        if old != new:
            open(out, "w").write(new)
        replace[src_path] = out
    # 4. deterministic map iteration in the simulation binary: fixed hash keys, fixed per-map
    #    seeds and zero iteration offsets in the Go runtime (three literal substitutions in the
    #    pinned toolchain's sources; skipped with a note if the sources look different).
    goroot = os.environ.get("VERIF_GOROOT", "/opt/veriftools/go1.26.8")
    STD = {
        "src/runtime/alg.go": [
            ("key[i] = bootstrapRand()", "key[i] = 0x243f6a8885a308d3 + uint64(i)*0x9e3779b97f4a7c15", 1),
            ("hashkey[i] = uintptr(bootstrapRand())", "hashkey[i] = uintptr(0x243f6a8885a308d3 + uint64(i)*0x9e3779b97f4a7c15)", 1),
        ],
        "src/internal/runtime/maps/map.go": [
            ("m.seed = uintptr(rand())", "m.seed = 0x9e3779b97f4a7c15", 4),
        ],
        "src/internal/runtime/maps/table.go": [
            ("it.entryOffset = rand()", "it.entryOffset = 0", 1),
            ("it.dirOffset = rand()", "it.dirOffset = 0", 1),
        ],
        # the two places where the runtime flips a coin that decides user-visible order:
        # which ready case a select takes, and which of two bubbled timers with the same
        # deadline fires first. Both draw from a scenario-seeded stream (verifRand, below).
        "src/runtime/select.go": [
            ("j := cheaprandn(uint32(norder + 1))", "j := verifSelectJ(uint32(i), uint32(norder+1))", 1),
        ],
        "src/runtime/time.go": [
            ("t.rand = cheaprand()", "t.rand = verifTimerRand(t.when)", 1),
        ],
    }
    RT_EXTRA = '''package runtime

import _ "unsafe"

// verifSeed is set by the simulation harness at the start of every scenario (through
// go:linkname). While it is zero the runtime behaves as shipped.
//
//go:linkname verifSeed
var verifSeed uint64

// The coin is a pure function of (seed, fake time, what is being decided): an unrelated
// extra select or timer somewhere else does not shift any other decision.
func verifMix(a, b, c uint64) uint32 {
	x := a ^ b*0x9e3779b97f4a7c15 ^ c*0xc2b2ae3d27d4eb4f
	x ^= x >> 29
	x *= 0xbf58476d1ce4e5b9
	x ^= x >> 32
	return uint32(x)
}

func verifNow() int64 {
	if b := getg().bubble; b != nil {
		return b.now
	}
	return 0
}

// verifSelectJ places case i of a select among the norder+1 = n positions of the poll order.
func verifSelectJ(i, n uint32) uint32 {
	if verifSeed == 0 {
		return cheaprandn(n)
	}
	return verifMix(verifSeed, uint64(verifNow()), uint64(i)<<32|uint64(n)) % n
}

// verifTimerRand ranks a bubbled timer among those with the same deadline; equal ranks
// fall back to heap (insertion) order.
func verifTimerRand(when int64) uint32 {
	if verifSeed == 0 {
		return cheaprand()
	}
	return verifMix(verifSeed, uint64(when), uint64(verifNow()))
}
'''
    std_repl = {}
    for f, subs in STD.items():
        sp = os.path.join(goroot, f)
        if not os.path.exists(sp):
            std_repl = None
            break
        src = open(sp).read()
        for a, b, n in subs:
            if src.count(a) != n:
                std_repl = None
                break
            src = src.replace(a, b)
        if std_repl is None:
            break
        out = os.path.join(BUILD, "shim", "goroot", f)
        os.makedirs(os.path.dirname(out), exist_ok=True)
        if not os.path.exists(out) or open(out).read() != src:
            open(out, "w").write(src)
        std_repl[sp] = out
    if std_repl is not None:
        out = os.path.join(BUILD, "shim", "goroot", "src/runtime/zz_verif_rand.go")
        if not os.path.exists(out) or open(out).read() != RT_EXTRA:
            open(out, "w").write(RT_EXTRA)
        std_repl[os.path.join(goroot, "src/runtime/zz_verif_rand.go")] = out
    marker = os.path.join(BUILD, "std_overlay_ok")
    if std_repl is None:
        if os.path.exists(marker):
            os.unlink(marker)
    else:
        open(marker, "w").write("1")
    if std_repl is None:
        sys.stderr.write("overlay: note: Go runtime sources differ from the pinned toolchain; map iteration stays randomised\n")
    else:
        replace.update(std_repl)
    path = os.path.join(BUILD, "overlay.json")
    data = json.dumps({"Replace": replace}, indent=1, sort_keys=True)
    if not os.path.exists(path) or open(path).read() != data:
        open(path, "w").write(data)
    print(path)

if __name__ == "__main__":
    main()
