//go:build verif

package blocklist

import "sort"

// VerifEntries returns the in-memory lists without taking the lock: it is called from the
// cooperative scheduler's release hook and after all tasks have finished, when no other
// task can run.
func (b *BlockList) VerifEntries() (exact, wild, white []string) {
	for k := range b.m {
		exact = append(exact, k)
	}
	for k := range b.wild {
		wild = append(wild, k)
	}
	for k := range b.w {
		white = append(white, k)
	}
	sort.Strings(exact)
	sort.Strings(wild)
	sort.Strings(white)
	return
}

// VerifMu identifies the list lock for the scheduler's release hook.
func (b *BlockList) VerifMu() any { return &b.mu }

// VerifVersions returns the snapshot counter and the last version that reached the disk.
func (b *BlockList) VerifVersions() (version, persisted uint64) { return b.version, b.lastPersisted }
