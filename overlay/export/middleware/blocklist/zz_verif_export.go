//go:build verif

package blocklist

import (
	"reflect"
	"sort"
)

// VerifEntries returns the in-memory lists without taking the lock: it is called from the
// cooperative scheduler's release hook and after all tasks have finished, when no other
// task can run.
func (b *BlockList) VerifEntries() (exact, wild, white []string) {
	for k := range b.m {
		exact = append(exact, k)
	}
	for k := range b.wild {
		wild = append(wild, k)
	}
	for k := range b.w {
		white = append(white, k)
	}
	sort.Strings(exact)
	sort.Strings(wild)
	sort.Strings(white)
	return
}

// VerifMu identifies the list lock for the scheduler's release hook.
func (b *BlockList) VerifMu() any { return &b.mu }

// VerifVersions returns the snapshot counter and the last version that reached the disk.
// The fields are read through reflection so that a change of their representation (a plain
// counter becoming an atomic one) does not stop the simulation binary from building.
func (b *BlockList) VerifVersions() (version, persisted uint64) {
	v := reflect.ValueOf(b).Elem()
	return verifUint(v.FieldByName("version")), verifUint(v.FieldByName("lastPersisted"))
}

func verifUint(v reflect.Value) uint64 {
	if !v.IsValid() {
		return 0
	}
	switch v.Kind() {
	case reflect.Uint, reflect.Uint32, reflect.Uint64:
		return v.Uint()
	case reflect.Int, reflect.Int32, reflect.Int64:
		return uint64(v.Int())
	case reflect.Struct: // sync/atomic.Uint64 and friends keep the value in a field named v
		return verifUint(v.FieldByName("v"))
	}
	return 0
}
