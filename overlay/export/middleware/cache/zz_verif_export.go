//go:build verif

package cache

// VerifResetSharedLimiters drops the process-wide shared rate-limiter pools, whose token
// buckets remember (fake) time across scenarios.
func VerifResetSharedLimiters() {
	poolsMu.Lock()
	rateLimiterPools = make(map[int]*sharedRateLimiterPool)
	poolsMu.Unlock()
}
