//go:build verif

package cache

// VerifResetSharedLimiters drops the process-wide shared rate-limiter pools, whose token
// buckets remember (fake) time across scenarios.
func VerifResetSharedLimiters() {
	poolsMu.Lock()
	rateLimiterPools = make(map[int]*sharedRateLimiterPool)
	poolsMu.Unlock()
}

// VerifWireCounters reads the byte-serving path's outcome counters (process-wide, monotonic).
func VerifWireCounters() map[string]int64 {
	return map[string]int64{
		"served":         wireFastServed.Value(),
		"fallback":       wireFastFallback.Value(),
		"skip_entry":     wireSkipEntry.Value(),
		"skip_writer":    wireSkipWriter.Value(),
		"skip_dnssec":    wireSkipDNSSEC.Value(),
		"skip_size":      wireSkipSize.Value(),
		"skip_build":     wireSkipBuild.Value(),
		"skip_chase":     wireSkipChase.Value(),
		"chase_served":   wireChaseServed.Value(),
		"cut_served":     wireCutServed.Value(),
		"failure_served": wireFailureServed.Value(),
	}
}
