//go:build verif

package resolver

import (
	"bytes"
	"encoding/gob"

	"github.com/miekg/dns"
)

// VerifRootKeys returns a copy of the live trust-anchor set (read-only accessor).
func (r *Resolver) VerifRootKeys() []dns.RR {
	r.RLock()
	defer r.RUnlock()
	out := make([]dns.RR, len(r.rootKeys))
	copy(out, r.rootKeys)
	return out
}

// VerifResolver exposes the handler's resolver (read-only accessor).
func (h *DNSHandler) VerifResolver() *Resolver { return h.resolver }

// VerifSemaphores reports occupancy of the resolver's bounded semaphores.
func (r *Resolver) VerifSemaphores() map[string]int {
	m := map[string]int{
		"maxConcurrent":   len(r.maxConcurrent),
		"resolutionSlots": len(r.resolutionSlots),
		"probeSlots":      len(r.probeSlots),
	}
	if r.v6LookupSlots != nil {
		m["v6LookupSlots"] = len(r.v6LookupSlots)
	}
	return m
}

// VerifTA is a decoded trust-anchor state entry (read-only view for oracles).
type VerifTA struct {
	FP        string
	Tag       uint16
	Flags     uint16
	State     string
	FirstSeen int64
}

// VerifDecodeState decodes the bytes of a trust-anchor.db file.
func VerifDecodeState(b []byte) ([]VerifTA, error) {
	m := make(TrustAnchors)
	if err := gob.NewDecoder(bytes.NewReader(b)).Decode(&m); err != nil {
		return nil, err
	}
	var out []VerifTA
	for tag, ta := range m {
		if ta == nil || ta.DNSKey == nil {
			continue
		}
		out = append(out, VerifTA{FP: dnskeyMaterialFP(ta.DNSKey), Tag: tag, Flags: ta.DNSKey.Flags, State: ta.State.String(), FirstSeen: ta.FirstSeen.UnixNano()})
	}
	return out, nil
}

// VerifDecodeTombstones decodes the bytes of a trust-anchor-tombstones.db file.
func VerifDecodeTombstones(b []byte) ([]string, error) {
	m := make(Tombstones)
	if err := gob.NewDecoder(bytes.NewReader(b)).Decode(&m); err != nil {
		return nil, err
	}
	var out []string
	for fp := range m {
		out = append(out, fp)
	}
	return out, nil
}

// VerifMaterialFP is the key-material fingerprint used by the tombstone store.
func VerifMaterialFP(k *dns.DNSKEY) string { return dnskeyMaterialFP(k) }

const (
	VerifStateFile     = stateFile
	VerifTombstoneFile = tombstoneFile
)
