//go:build verif

package middleware

// VerifFirewallExhaustions returns how many finished request trees crossed a recursion
// firewall budget in enforce mode so far (any dimension; a tree that crossed two counts twice).
func VerifFirewallExhaustions() int64 {
	var n int64
	for _, d := range []string{"outbound_queries", "internal_queries", "dnskey_candidates", "rrset_signature_checks",
		"signature_checks", "ds_digests", "nsec3_hashes", "concurrent_crypto"} {
		n += recursionFirewallExhaustions.WithLabelValues(d, "enforce").Value()
	}
	return n
}
