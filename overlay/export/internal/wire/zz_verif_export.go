//go:build verif

package wire

import (
	"github.com/miekg/dns"

	"github.com/semihalev/sdns/verifx/verifsync"
)

// verifPackRR stands where pack.go calls dns.PackRR (textual substitution in the overlay
// copy, overlay/gen.py): a scheduling point in front of every record the pooled packer
// writes, so that a cooperative scheduler can run other tasks while a pack is half done.
// Without an installed scheduler it is the library call and nothing else.
func verifPackRR(rr dns.RR, msg []byte, off int, compression map[string]int, compress bool) (int, error) {
	verifsync.YieldPoint("packrr")
	return dns.PackRR(rr, msg, off, compression, compress)
}

// verifAfterRelease runs right after the pooled pack state went back to its pool (textual
// substitution after packStatePool.Put): the harness may let other goroutines run there.
func verifAfterRelease() {
	if f := verifsync.AfterPackRelease; f != nil {
		f()
	}
}
