//go:build verif

package authority

// VerifSetRandN replaces the ranking's only source of randomness (the package already
// documents randN as replaceable for tests) and returns the previous one.
func VerifSetRandN(f func(int) int) func(int) int {
	old := randN
	randN = f
	return old
}
