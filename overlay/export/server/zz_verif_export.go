//go:build verif

package server

// VerifUDPListener builds the owned UDP listener with an explicit resource plan (socket
// fan-out, worker pool, ready-queue depth, spare slabs) instead of the machine-derived one.
func VerifUDPListener(s *Server, addr string, workers, queue, sockets int, spare int64) Listener {
	plan := resourcePlan{udpSockets: sockets, udpWorkers: workers, udpQueue: queue, udpSpareSlabs: spare}
	return newUDPListener(addr, s, s.shutdownTimeout(), workers, queue, plan)
}

// VerifUDPCounters reads the UDP ingress counters (process-wide, monotonic).
func VerifUDPCounters() map[string]int64 {
	return map[string]int64{
		"drop_full":       udpDropFull.Value(),
		"drop_trunc":      udpDropTrunc.Value(),
		"drop_malformed":  udpDropMalformed.Value(),
		"drop_ignored":    udpDropIgnored.Value(),
		"drop_error":      udpDropError.Value(),
		"drop_panic":      udpDropPanic.Value(),
		"tx_error":        udpTXError.Value(),
		"overflow_served": udpOverflowServed.Value(),
		"inline_served":   udpInlineServed.Value(),
		"inline_handoff":  udpInlineHandoff.Value(),
	}
}

// VerifUDPSlabCap reports the admission cap of a bound UDP listener (0 if not bound).
func VerifUDPSlabCap(l Listener) int64 {
	if u, ok := l.(*udpListener); ok && u.engine != nil {
		return u.engine.slabCap
	}
	return 0
}

// VerifTCPListener builds the owned TCP listener with an explicit resource plan.
func VerifTCPListener(s *Server, addr string, maxConns, smallJobs, largeJobs int) Listener {
	plan := resourcePlan{tcpConns: maxConns, tcpSmallJobs: smallJobs, tcpLargeJobs: largeJobs}
	return newTCPListener(addr, s, s.shutdownTimeout(), maxConns, plan)
}

// VerifUDPState reports the engine's lease and in-flight counts (0,0 if not bound).
func VerifUDPState(l Listener) (leased, inFlight int64) {
	if u, ok := l.(*udpListener); ok && u.engine != nil {
		return u.engine.leased.Load(), u.engine.inFlight.Load()
	}
	return 0, 0
}
