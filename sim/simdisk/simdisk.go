// Package simdisk is the in-memory disk of the simulator (DESIGN.md §2.7). Each file has
// durable and volatile content, each directory durable and volatile entries. Every
// operation is numbered; the fault plan can fail or crash at any operation index.
package simdisk

import (
	"fmt"
	"io"
	"io/fs"
	"os"
	"path/filepath"
	"runtime"
	"sort"
	"strings"
	"sync"
	"syscall"
	"time"

	"github.com/semihalev/sdns/verifx/verifos"
)

type inode struct {
	data    []byte // volatile (current) content
	durable []byte // content as of the last successful Sync
	synced  bool
	isDir   bool
}

// Fault is one planned fault: at operation index Op (0-based, counting every disk call)
// apply Kind. Kinds: eio enospc eacces short syncfail renamefail crash.
type Fault struct {
	Op   int    `json:"op"`
	Kind string `json:"kind"`
	// Persist decides, for a crash, what happens to volatile state: "lose" (only
	// durable state survives), "keep" (everything reached disk), "torn" (unsynced file
	// content keeps a prefix; unsynced directory operations are kept).
	Persist string `json:"persist,omitempty"`
}

// OpRec is one entry of the operation log.
type OpRec struct {
	At    time.Duration // fake time since the disk was created
	Idx   int
	Op    string
	Path  string
	Err   string
	Fault string
}

// Crashed is set when a crash fault fired; the calling goroutine has been ended with
// runtime.Goexit and the disk refuses further operations until Restart.
type Disk struct {
	mu       sync.Mutex
	root     string
	cur      map[string]*inode // volatile namespace: path -> inode
	dur      map[string]*inode // durable namespace
	ops      int
	Log      []OpRec
	Plan     map[int]Fault
	Fired    map[string]int
	Crashed  bool
	crashHow string
	tmpSeq   int
	// ReadOnlyDir makes every namespace-changing operation fail with EACCES.
	ReadOnlyDir bool
	// Unreadable makes Open of matching base names fail with EIO.
	Unreadable map[string]bool
	// FlipOnRead corrupts one stored byte of matching base names when read.
	FlipOnRead map[string]bool
	// Renames records every completed rename target with the content it installed
	// ("observed file-replacement sequence").
	Renames []Replaced
	// Process identity: disk calls come from the goroutine that runs the refresh. When
	// the harness ends an incarnation (restart), that goroutine is marked dead and ends
	// at its next disk call, like a killed process.
	owner uint64
	dead  map[uint64]bool
	// NoOwner disables the process-identity tracking (several goroutines share the disk
	// and the harness itself keeps using it after a restart).
	NoOwner bool
	born  time.Time
}

type Replaced struct {
	Path    string
	Content []byte
	OpIdx   int
}

func New(root string) *Disk {
	d := &Disk{root: root, cur: map[string]*inode{}, dur: map[string]*inode{}, Plan: map[int]Fault{}, Fired: map[string]int{},
		Unreadable: map[string]bool{}, FlipOnRead: map[string]bool{}, born: time.Now()}
	dir := &inode{isDir: true, synced: true}
	d.cur[root] = dir
	d.dur[root] = dir
	return d
}

func (d *Disk) Root() string { return d.root }

// Ops returns the number of operations performed so far.
func (d *Disk) Ops() int { d.mu.Lock(); defer d.mu.Unlock(); return d.ops }

type crashSignal struct{}

// step numbers an operation and applies a planned fault. It returns a non-nil error
// for error faults; for a crash it ends the calling goroutine.
func (d *Disk) step(op, path string) (idx int, kind string, err error) {
	if d.Crashed {
		runtime.Goexit() // a dead process issues no more I/O (deferred unlocks run)
	}
	if !d.NoOwner {
		if gid := goid(); d.dead[gid] {
			runtime.Goexit()
		} else if d.owner == 0 {
			d.owner = gid
		}
	}
	idx = d.ops
	d.ops++
	rec := OpRec{At: time.Since(d.born), Idx: idx, Op: op, Path: strings.TrimPrefix(path, d.root)}
	if f, ok := d.Plan[idx]; ok {
		rec.Fault = f.Kind
		d.Fired[f.Kind]++
		switch f.Kind {
		case "crash":
			d.Log = append(d.Log, rec)
			d.Crashed = true
			d.crashHow = f.Persist
			runtime.Goexit()
		case "eio":
			err = &fs.PathError{Op: op, Path: path, Err: syscall.EIO}
		case "enospc":
			err = &fs.PathError{Op: op, Path: path, Err: syscall.ENOSPC}
		case "eacces":
			err = &fs.PathError{Op: op, Path: path, Err: syscall.EACCES}
		default:
			kind = f.Kind // short, syncfail, renamefail: interpreted by the op
		}
		if err != nil {
			rec.Err = err.Error()
		}
	}
	d.Log = append(d.Log, rec)
	return idx, kind, err
}

func (d *Disk) setErr(idx int, err error) {
	if err != nil && idx < len(d.Log) {
		d.Log[idx].Err = err.Error()
	}
}

func notExist(op, path string) error { return &fs.PathError{Op: op, Path: path, Err: syscall.ENOENT} }

type fileInfo struct {
	name string
	size int64
	dir  bool
}

func (f fileInfo) Name() string       { return f.name }
func (f fileInfo) Size() int64        { return f.size }
func (f fileInfo) Mode() fs.FileMode  { if f.dir { return fs.ModeDir | 0o755 }; return 0o644 }
func (f fileInfo) ModTime() time.Time { return time.Time{} }
func (f fileInfo) IsDir() bool        { return f.dir }
func (f fileInfo) Sys() any           { return nil }

type file struct {
	d      *Disk
	name   string
	ino    *inode
	off    int
	write  bool
	closed bool
	isDir  bool
	flip   bool
}

func (f *file) Name() string { return f.name }

func (f *file) Stat() (fs.FileInfo, error) {
	return fileInfo{name: filepath.Base(f.name), size: int64(len(f.ino.data)), dir: f.isDir}, nil
}

func (f *file) Read(p []byte) (int, error) {
	f.d.mu.Lock()
	defer f.d.mu.Unlock()
	if _, _, err := f.d.step("read", f.name); err != nil {
		return 0, err
	}
	if f.off >= len(f.ino.data) {
		return 0, io.EOF
	}
	n := copy(p, f.ino.data[f.off:])
	if f.flip && f.off == 0 && n > 0 {
		p[n/2] ^= 0x5a
	}
	f.off += n
	return n, nil
}

func (f *file) Write(p []byte) (int, error) {
	f.d.mu.Lock()
	defer f.d.mu.Unlock()
	idx, kind, err := f.d.step("write", f.name)
	if err != nil {
		return 0, err
	}
	if kind == "short" && len(p) > 1 {
		n := len(p) / 2
		f.ino.data = append(f.ino.data, p[:n]...)
		f.ino.synced = false
		err := &fs.PathError{Op: "write", Path: f.name, Err: syscall.ENOSPC}
		f.d.setErr(idx, err)
		return n, err
	}
	f.ino.data = append(f.ino.data, p...)
	f.ino.synced = false
	return len(p), nil
}

func (f *file) Sync() error {
	f.d.mu.Lock()
	defer f.d.mu.Unlock()
	idx, kind, err := f.d.step("sync", f.name)
	if err != nil {
		return err
	}
	if kind == "syncfail" {
		err := &fs.PathError{Op: "sync", Path: f.name, Err: syscall.EIO}
		f.d.setErr(idx, err)
		return err
	}
	if f.isDir {
		// directory sync: entries of this directory become durable
		f.d.syncDir(f.name)
		return nil
	}
	f.ino.durable = append([]byte(nil), f.ino.data...)
	f.ino.synced = true
	return nil
}

func (f *file) Close() error {
	f.d.mu.Lock()
	defer f.d.mu.Unlock()
	if _, _, err := f.d.step("close", f.name); err != nil {
		return err
	}
	f.closed = true
	return nil
}

func (d *Disk) syncDir(dir string) {
	prefix := strings.TrimSuffix(dir, "/") + "/"
	for p := range d.dur {
		if strings.HasPrefix(p, prefix) && !strings.Contains(p[len(prefix):], "/") {
			if _, ok := d.cur[p]; !ok {
				delete(d.dur, p)
			}
		}
	}
	for p, ino := range d.cur {
		if strings.HasPrefix(p, prefix) && !strings.Contains(p[len(prefix):], "/") {
			d.dur[p] = ino
		}
	}
}

func (d *Disk) Open(name string) (verifos.SimFile, error) {
	d.mu.Lock()
	defer d.mu.Unlock()
	idx, _, err := d.step("open", name)
	if err != nil {
		return nil, err
	}
	ino, ok := d.cur[name]
	if !ok {
		err := notExist("open", name)
		d.setErr(idx, err)
		return nil, err
	}
	if d.Unreadable[filepath.Base(name)] {
		err := &fs.PathError{Op: "open", Path: name, Err: syscall.EIO}
		d.setErr(idx, err)
		d.Fired["unreadable"]++
		return nil, err
	}
	fl := &file{d: d, name: name, ino: ino, isDir: ino.isDir}
	if d.FlipOnRead[filepath.Base(name)] && len(ino.data) > 0 {
		fl.flip = true
		d.Fired["flip"]++
	}
	return fl, nil
}

func (d *Disk) Create(name string) (verifos.SimFile, error) {
	d.mu.Lock()
	defer d.mu.Unlock()
	idx, _, err := d.step("create", name)
	if err != nil {
		return nil, err
	}
	if d.ReadOnlyDir {
		err := &fs.PathError{Op: "create", Path: name, Err: syscall.EACCES}
		d.setErr(idx, err)
		return nil, err
	}
	if _, ok := d.cur[filepath.Dir(name)]; !ok {
		err := notExist("create", name)
		d.setErr(idx, err)
		return nil, err
	}
	ino := &inode{}
	d.cur[name] = ino
	return &file{d: d, name: name, ino: ino, write: true}, nil
}

func (d *Disk) CreateTemp(dir, pattern string) (verifos.SimFile, error) {
	d.mu.Lock()
	d.tmpSeq++
	seq := d.tmpSeq
	d.mu.Unlock()
	name := pattern
	if i := strings.LastIndex(pattern, "*"); i >= 0 {
		name = pattern[:i] + fmt.Sprintf("%06d", seq) + pattern[i+1:]
	} else {
		name = pattern + fmt.Sprintf("%06d", seq)
	}
	return d.Create(filepath.Join(dir, name))
}

func (d *Disk) Remove(name string) error {
	d.mu.Lock()
	defer d.mu.Unlock()
	idx, _, err := d.step("remove", name)
	if err != nil {
		return err
	}
	if _, ok := d.cur[name]; !ok {
		err := notExist("remove", name)
		d.setErr(idx, err)
		return err
	}
	if d.ReadOnlyDir {
		err := &fs.PathError{Op: "remove", Path: name, Err: syscall.EACCES}
		d.setErr(idx, err)
		return err
	}
	delete(d.cur, name)
	return nil
}

func (d *Disk) Rename(o, n string) error {
	d.mu.Lock()
	defer d.mu.Unlock()
	idx, kind, err := d.step("rename", o+" -> "+strings.TrimPrefix(n, d.root))
	if err != nil {
		return err
	}
	if kind == "renamefail" || d.ReadOnlyDir {
		err := &os.LinkError{Op: "rename", Old: o, New: n, Err: syscall.EACCES}
		d.setErr(idx, err)
		return err
	}
	ino, ok := d.cur[o]
	if !ok {
		err := &os.LinkError{Op: "rename", Old: o, New: n, Err: syscall.ENOENT}
		d.setErr(idx, err)
		return err
	}
	delete(d.cur, o)
	d.cur[n] = ino
	d.Renames = append(d.Renames, Replaced{Path: n, Content: append([]byte(nil), ino.data...), OpIdx: idx})
	return nil
}

func (d *Disk) Stat(name string) (fs.FileInfo, error) {
	d.mu.Lock()
	defer d.mu.Unlock()
	idx, _, err := d.step("stat", name)
	if err != nil {
		return nil, err
	}
	ino, ok := d.cur[name]
	if !ok {
		err := notExist("stat", name)
		d.setErr(idx, err)
		return nil, err
	}
	return fileInfo{name: filepath.Base(name), size: int64(len(ino.data)), dir: ino.isDir}, nil
}

func (d *Disk) Mkdir(name string, perm fs.FileMode) error {
	d.mu.Lock()
	defer d.mu.Unlock()
	idx, _, err := d.step("mkdir", name)
	if err != nil {
		return err
	}
	if _, ok := d.cur[name]; ok {
		err := &fs.PathError{Op: "mkdir", Path: name, Err: syscall.EEXIST}
		d.setErr(idx, err)
		return err
	}
	d.cur[name] = &inode{isDir: true}
	return nil
}

func (d *Disk) List(dir string) ([]string, error) {
	d.mu.Lock()
	defer d.mu.Unlock()
	if _, _, err := d.step("list", dir); err != nil {
		return nil, err
	}
	prefix := strings.TrimSuffix(dir, "/") + "/"
	var out []string
	for p := range d.cur {
		if strings.HasPrefix(p, prefix) && !strings.Contains(p[len(prefix):], "/") {
			out = append(out, p[len(prefix):])
		}
	}
	sort.Strings(out)
	return out, nil
}

// ---------------------------------------------------------------- harness side

// MkdirDurable creates a directory that already exists durably (set-up, not an op).
func (d *Disk) MkdirDurable(name string) {
	ino := &inode{isDir: true, synced: true}
	d.cur[name] = ino
	d.dur[name] = ino
}

// PutDurable installs a file durably (set-up, not an op).
func (d *Disk) PutDurable(name string, data []byte) {
	ino := &inode{data: append([]byte(nil), data...), durable: append([]byte(nil), data...), synced: true}
	d.cur[name] = ino
	d.dur[name] = ino
}

// ReadCurrent returns the current (volatile view) content of a file.
func (d *Disk) ReadCurrent(name string) ([]byte, bool) {
	d.mu.Lock()
	defer d.mu.Unlock()
	ino, ok := d.cur[name]
	if !ok {
		return nil, false
	}
	return append([]byte(nil), ino.data...), true
}

// ReadAsSeen returns the bytes a reader gets for the file right now, including the
// FlipOnRead corruption (same rule as file.Read: one byte of the first chunk flipped).
func (d *Disk) ReadAsSeen(name string) ([]byte, bool) {
	b, ok := d.ReadCurrent(name)
	if !ok {
		return nil, false
	}
	if d.FlipOnRead[filepath.Base(name)] && len(b) > 0 {
		n := len(b)
		if n > 4096 {
			n = 4096 // gob's decoder reads through a 4096-byte bufio buffer
		}
		b[n/2] ^= 0x5a
	}
	return b, true
}

// Names returns the current namespace (relative paths, sorted).
func (d *Disk) Names() []string {
	d.mu.Lock()
	defer d.mu.Unlock()
	var out []string
	for p := range d.cur {
		if p != d.root {
			out = append(out, strings.TrimPrefix(p, d.root))
		}
	}
	sort.Strings(out)
	return out
}

// Restart produces the disk state a new process incarnation sees after a crash (or a
// clean restart when the disk did not crash: everything the OS held is assumed flushed
// only if how == "keep").
//   lose: durable namespace with durable content only.
//   keep: everything volatile reached the disk.
//   torn: volatile namespace kept; unsynced file content is cut to half of what was
//         written beyond the durable content.
func (d *Disk) Restart(how string) {
	d.mu.Lock()
	defer d.mu.Unlock()
	if how == "" {
		how = d.crashHow
	}
	if how == "" {
		how = "lose"
	}
	switch how {
	case "keep":
		for _, ino := range d.cur {
			ino.durable = append([]byte(nil), ino.data...)
			ino.synced = true
		}
		d.dur = map[string]*inode{}
		for p, ino := range d.cur {
			d.dur[p] = ino
		}
	case "torn":
		for _, ino := range d.cur {
			if !ino.synced && !ino.isDir {
				keep := len(ino.durable) + (len(ino.data)-len(ino.durable))/2
				if keep < 0 || keep > len(ino.data) {
					keep = len(ino.data) / 2
				}
				ino.data = append([]byte(nil), ino.data[:keep]...)
			}
			ino.durable = append([]byte(nil), ino.data...)
			ino.synced = true
		}
		d.dur = map[string]*inode{}
		for p, ino := range d.cur {
			d.dur[p] = ino
		}
	default: // lose
		nc := map[string]*inode{}
		for p, ino := range d.dur {
			ino.data = append([]byte(nil), ino.durable...)
			ino.synced = true
			nc[p] = ino
		}
		d.cur = nc
	}
	d.Crashed = false
	d.crashHow = ""
	if d.dead == nil {
		d.dead = map[uint64]bool{}
	}
	if d.owner != 0 {
		d.dead[d.owner] = true
	}
	d.owner = 0
}

// KillOwner ends the incarnation that has been using the disk: its goroutine exits at
// its next disk call. The next goroutine to touch the disk becomes the new owner.
func (d *Disk) KillOwner() {
	d.mu.Lock()
	defer d.mu.Unlock()
	if d.dead == nil {
		d.dead = map[uint64]bool{}
	}
	if d.owner != 0 {
		d.dead[d.owner] = true
	}
	d.owner = 0
}

func goid() uint64 {
	var buf [64]byte
	n := runtime.Stack(buf[:], false)
	// "goroutine 123 ["
	var id uint64
	for _, c := range buf[len("goroutine "):n] {
		if c < '0' || c > '9' {
			break
		}
		id = id*10 + uint64(c-'0')
	}
	return id
}

// SetPlan replaces the fault plan; operation indexes are relative to the current count
// when rel is true.
func (d *Disk) SetPlan(faults []Fault, rel bool) {
	d.mu.Lock()
	defer d.mu.Unlock()
	d.Plan = map[int]Fault{}
	for _, f := range faults {
		op := f.Op
		if rel {
			op += d.ops
		}
		d.Plan[op] = f
	}
}
