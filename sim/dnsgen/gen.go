// Package dnsgen generates DNS names, records and messages for the simulated workloads.
// Everything is drawn from the scenario's RNG; nothing here reads clocks or global state.
package dnsgen

import (
	"fmt"
	"net"
	"strings"

	"github.com/miekg/dns"

	"verifsim/kit"
)

var plainLabels = []string{"a", "b", "www", "mail", "ns1", "ns2", "example", "test", "Example", "WWW", "x-y", "_tcp", "_dns", "0", "*"}

// Label returns one label in presentation form (possibly with escapes).
func Label(r *kit.RNG) string {
	switch r.Intn(12) {
	case 0:
		return `a\.b` // escaped dot inside a label
	case 1:
		return `\000`
	case 2:
		return `x\032y`
	case 3:
		return `\255\001`
	case 4:
		return strings.Repeat("l", r.Range(50, 63))
	case 5:
		return fmt.Sprintf("n%d", r.Intn(1000))
	default:
		return kit.Pick(r, plainLabels)
	}
}

// Name returns a fully qualified presentation name, at most 255 octets in wire form.
func Name(r *kit.RNG, suffixes []string) string {
	suffix := "."
	if len(suffixes) > 0 && r.Chance(0.8) {
		suffix = kit.Pick(r, suffixes)
	}
	n := r.Intn(4)
	if r.Chance(0.05) {
		n = r.Range(4, 12)
	}
	name := suffix
	for i := 0; i < n; i++ {
		cand := Label(r) + "." + strings.TrimPrefix(name, ".")
		if name == "." {
			cand = Label(r) + "."
		}
		if wireLen(cand) > 255 {
			break
		}
		name = cand
	}
	if _, ok := dns.IsDomainName(name); !ok {
		return "fallback.example."
	}
	return name
}

func wireLen(name string) int {
	b := make([]byte, 300)
	off, err := dns.PackDomainName(name, b, 0, nil, false)
	if err != nil {
		return 1000
	}
	return off
}

// LongName returns a name of exactly (or close to) 255 wire octets.
func LongName(r *kit.RNG) string {
	name := ""
	for i := 0; i < 3; i++ {
		name += strings.Repeat(string(rune('a'+r.Intn(26))), 63) + "."
	}
	name += strings.Repeat("z", 61) + "."
	if wireLen(name) > 255 {
		return "long.example."
	}
	return name
}

func ip4(r *kit.RNG) string { return fmt.Sprintf("192.0.2.%d", r.Intn(256)) }
func ip6(r *kit.RNG) string { return fmt.Sprintf("2001:db8::%x", r.Intn(65536)) }

var rrTemplates = []func(r *kit.RNG, owner string, ttl uint32, names []string) string{
	func(r *kit.RNG, o string, t uint32, n []string) string { return fmt.Sprintf("%s %d IN A %s", o, t, ip4(r)) },
	func(r *kit.RNG, o string, t uint32, n []string) string { return fmt.Sprintf("%s %d IN AAAA %s", o, t, ip6(r)) },
	func(r *kit.RNG, o string, t uint32, n []string) string { return fmt.Sprintf("%s %d IN NS %s", o, t, Name(r, n)) },
	func(r *kit.RNG, o string, t uint32, n []string) string { return fmt.Sprintf("%s %d IN CNAME %s", o, t, Name(r, n)) },
	func(r *kit.RNG, o string, t uint32, n []string) string { return fmt.Sprintf("%s %d IN DNAME %s", o, t, Name(r, n)) },
	func(r *kit.RNG, o string, t uint32, n []string) string { return fmt.Sprintf("%s %d IN PTR %s", o, t, Name(r, n)) },
	func(r *kit.RNG, o string, t uint32, n []string) string {
		return fmt.Sprintf("%s %d IN MX %d %s", o, t, r.Intn(100), Name(r, n))
	},
	func(r *kit.RNG, o string, t uint32, n []string) string {
		return fmt.Sprintf("%s %d IN SOA %s %s %d 7200 3600 1209600 %d", o, t, Name(r, n), Name(r, n), r.Intn(1<<30), r.Intn(86400))
	},
	func(r *kit.RNG, o string, t uint32, n []string) string {
		return fmt.Sprintf("%s %d IN TXT \"%s\" \"%s\"", o, t, strings.Repeat("t", r.Intn(200)), "v=spf1 -all")
	},
	func(r *kit.RNG, o string, t uint32, n []string) string {
		return fmt.Sprintf("%s %d IN SRV %d %d %d %s", o, t, r.Intn(10), r.Intn(10), r.Intn(65536), Name(r, n))
	},
	func(r *kit.RNG, o string, t uint32, n []string) string {
		return fmt.Sprintf("%s %d IN DS %d 13 2 %064x", o, t, r.Intn(65536), r.Uint64())
	},
	func(r *kit.RNG, o string, t uint32, n []string) string {
		return fmt.Sprintf("%s %d IN DNSKEY 257 3 13 mdsswUyr3DPW132mOi8V9xESWE8jTo0dxCjjnopKl+GqJxpVXckHAeF+KkxLbxILfDLUT0rAK9iUzy1L53eKGQ==", o, t)
	},
	func(r *kit.RNG, o string, t uint32, n []string) string {
		return fmt.Sprintf("%s %d IN RRSIG A 13 %d %d 20300101000000 20200101000000 %d %s oJB1W6WNGv+ldvQ3WDG0MQkg5IEhjRip8WTrPYGv07h108dUKGMeDPKijVCHX3DDKdfb+v6oB9wfuh3DTJXUAfI/M0zmO/zz8bW0Rznl8O3tGNazPwQKkRN20XPXV6nwwfoXmJQbsLNrLfkGJ5D6fwFm8nN+6pBzeDQfsS3Ap3o=", o, t, r.Range(1, 5), t, r.Intn(65536), Name(r, n))
	},
	func(r *kit.RNG, o string, t uint32, n []string) string {
		return fmt.Sprintf("%s %d IN NSEC %s A NS SOA RRSIG NSEC DNSKEY TYPE%d", o, t, Name(r, n), r.Range(256, 65000))
	},
	func(r *kit.RNG, o string, t uint32, n []string) string {
		return fmt.Sprintf("%s %d IN NSEC3 1 %d %d aabbccdd 2t7b4g4vsa5smi47k61mv5bv1a22bojr A RRSIG", o, t, r.Intn(2), r.Intn(20))
	},
	func(r *kit.RNG, o string, t uint32, n []string) string {
		return fmt.Sprintf("%s %d IN CAA 0 issue \"ca%d.example.net\"", o, t, r.Intn(10))
	},
	func(r *kit.RNG, o string, t uint32, n []string) string {
		return fmt.Sprintf("%s %d IN TLSA 3 1 1 %064x", o, t, r.Uint64())
	},
	func(r *kit.RNG, o string, t uint32, n []string) string {
		return fmt.Sprintf("%s %d IN SVCB %d %s alpn=\"h2,h3\" port=%d ipv4hint=%s", o, t, r.Range(1, 3), Name(r, n), r.Intn(65536), ip4(r))
	},
	func(r *kit.RNG, o string, t uint32, n []string) string {
		return fmt.Sprintf("%s %d IN HTTPS 1 . alpn=h2 ipv6hint=%s ech=AEX+DQA= no-default-alpn mandatory=alpn key%d=\"x\"", o, t, ip6(r), r.Range(100, 60000))
	},
	func(r *kit.RNG, o string, t uint32, n []string) string {
		return fmt.Sprintf("%s %d IN NAPTR 100 10 \"S\" \"SIP+D2U\" \"\" %s", o, t, Name(r, n))
	},
	func(r *kit.RNG, o string, t uint32, n []string) string {
		return fmt.Sprintf("%s %d IN HINFO \"cpu%d\" \"os\"", o, t, r.Intn(9))
	},
	func(r *kit.RNG, o string, t uint32, n []string) string {
		return fmt.Sprintf("%s %d IN SSHFP 4 2 %064x", o, t, r.Uint64())
	},
	func(r *kit.RNG, o string, t uint32, n []string) string {
		return fmt.Sprintf("%s %d IN URI 10 1 \"https://example.net/%d\"", o, t, r.Intn(100))
	},
	func(r *kit.RNG, o string, t uint32, n []string) string {
		return fmt.Sprintf("%s %d CH TXT \"chaos\"", o, t)
	},
	func(r *kit.RNG, o string, t uint32, n []string) string {
		return fmt.Sprintf("%s %d IN TYPE%d \\# 4 0a000001", o, t, r.Range(65280, 65500))
	},
}

// RR returns a random library record.
func RR(r *kit.RNG, names []string) dns.RR {
	for tries := 0; tries < 5; tries++ {
		owner := Name(r, names)
		ttl := uint32(kit.Pick(r, []int{0, 1, 5, 60, 300, 3600, 86400, 1 << 31, 1<<32 - 1}))
		s := kit.Pick(r, rrTemplates)(r, owner, ttl, names)
		rr, err := dns.NewRR(s)
		if err == nil && rr != nil {
			return rr
		}
	}
	rr, _ := dns.NewRR("fallback.example. 60 IN A 192.0.2.1")
	return rr
}

// OPT returns an OPT pseudo-record with a random mix of options.
func OPT(r *kit.RNG) *dns.OPT {
	o := &dns.OPT{Hdr: dns.RR_Header{Name: ".", Rrtype: dns.TypeOPT}}
	o.SetUDPSize(uint16(kit.Pick(r, []int{0, 512, 1232, 4096, 65535})))
	if r.Bool() {
		o.SetDo()
	}
	if r.Chance(0.1) {
		o.SetVersion(uint8(r.Intn(3)))
	}
	n := r.Intn(4)
	for i := 0; i < n; i++ {
		o.Option = append(o.Option, Option(r))
	}
	return o
}

// Option returns one EDNS0 option of a random kind.
func Option(r *kit.RNG) dns.EDNS0 {
	switch r.Intn(12) {
	case 0:
		return &dns.EDNS0_NSID{Code: dns.EDNS0NSID, Nsid: fmt.Sprintf("%x", r.Intn(1<<20))}
	case 1:
		if r.Bool() {
			return &dns.EDNS0_SUBNET{Code: dns.EDNS0SUBNET, Family: 1, SourceNetmask: uint8(r.Intn(33)), SourceScope: uint8(r.Intn(33)), Address: net.ParseIP(ip4(r)).To4()}
		}
		return &dns.EDNS0_SUBNET{Code: dns.EDNS0SUBNET, Family: 2, SourceNetmask: uint8(r.Intn(129)), SourceScope: uint8(r.Intn(129)), Address: net.ParseIP(ip6(r))}
	case 2:
		c := fmt.Sprintf("%016x", r.Uint64())
		if r.Bool() {
			c += fmt.Sprintf("%016x", r.Uint64())
		}
		return &dns.EDNS0_COOKIE{Code: dns.EDNS0COOKIE, Cookie: c}
	case 3:
		return &dns.EDNS0_TCP_KEEPALIVE{Code: dns.EDNS0TCPKEEPALIVE, Timeout: uint16(r.Intn(6000))}
	case 4:
		return &dns.EDNS0_PADDING{Padding: make([]byte, r.Intn(64))}
	case 5:
		return &dns.EDNS0_EDE{InfoCode: uint16(r.Intn(30)), ExtraText: kit.Pick(r, []string{"", "x", "some text"})}
	case 6:
		return &dns.EDNS0_LOCAL{Code: uint16(r.Range(65001, 65534)), Data: []byte{1, 2, 3}}
	case 7:
		return &dns.EDNS0_UL{Code: dns.EDNS0UL, Lease: uint32(r.Intn(1 << 20))}
	case 8:
		return &dns.EDNS0_EXPIRE{Code: dns.EDNS0EXPIRE, Expire: uint32(r.Intn(1 << 20)), Empty: r.Bool()}
	case 9:
		return &dns.EDNS0_DAU{Code: dns.EDNS0DAU, AlgCode: []uint8{8, 13}}
	case 10:
		return &dns.EDNS0_LLQ{Code: dns.EDNS0LLQ, Version: 1, Opcode: 1, Id: r.Uint64(), LeaseLife: 10}
	default:
		return &dns.EDNS0_ESU{Code: dns.EDNS0ESU, Uri: "sip:x@example.net"}
	}
}

// Msg returns a random message built from library records.
func Msg(r *kit.RNG) *dns.Msg {
	m := new(dns.Msg)
	m.Id = uint16(r.Intn(65536))
	m.Response = r.Chance(0.8)
	m.Opcode = kit.Pick(r, []int{0, 0, 0, 0, 1, 2, 4, 5, 15})
	m.Authoritative = r.Bool()
	m.Truncated = r.Chance(0.1)
	m.RecursionDesired = r.Bool()
	m.RecursionAvailable = r.Bool()
	m.Zero = r.Chance(0.1)
	m.AuthenticatedData = r.Bool()
	m.CheckingDisabled = r.Bool()
	m.Rcode = kit.Pick(r, []int{0, 0, 0, 2, 3, 5, 9, 15})
	m.Compress = r.Chance(0.8)
	suffixes := []string{"example.", "Example.", "test.", "sub.example.", "."}
	nq := kit.Pick(r, []int{1, 1, 1, 1, 0, 2, 3})
	for i := 0; i < nq; i++ {
		name := Name(r, suffixes)
		if r.Chance(0.05) {
			name = LongName(r)
		}
		m.Question = append(m.Question, dns.Question{Name: name, Qtype: uint16(kit.Pick(r, []int{1, 2, 5, 6, 15, 16, 28, 33, 43, 46, 48, 255, 65, 64, 41, 0, 65535})), Qclass: uint16(kit.Pick(r, []int{1, 1, 1, 3, 255, 0}))})
	}
	names := append([]string{}, suffixes...)
	for _, q := range m.Question {
		names = append(names, q.Name)
	}
	fill := func(max int) []dns.RR {
		var out []dns.RR
		n := r.Intn(max + 1)
		for i := 0; i < n; i++ {
			out = append(out, RR(r, names))
		}
		return out
	}
	big := 4
	if r.Chance(0.15) {
		big = 40 // around / over the 4096-byte pool buffer
	}
	m.Answer = fill(big)
	m.Ns = fill(big / 2)
	m.Extra = fill(big / 2)
	hasOPT := r.Chance(0.6)
	if hasOPT {
		m.Extra = append(m.Extra, OPT(r))
		if r.Chance(0.1) { // multiple OPTs
			m.Extra = append(m.Extra, OPT(r))
		}
		if r.Chance(0.05) { // misplaced OPT
			m.Answer = append(m.Answer, OPT(r))
		}
		if r.Chance(0.1) && len(m.Extra) > 1 { // OPT not last
			m.Extra[0], m.Extra[len(m.Extra)-1] = m.Extra[len(m.Extra)-1], m.Extra[0]
		}
		if r.Chance(0.3) {
			m.Rcode = kit.Pick(r, []int{16, 17, 23, 255, 3841, 4095})
		}
	} else if r.Chance(0.05) {
		m.Rcode = kit.Pick(r, []int{16, 4095, 4096, -1})
	}
	return m
}
