package world

import (
	"fmt"
	"strings"

	"github.com/miekg/dns"

	"verifsim/authsim"
	"verifsim/kit"
)

// GenOpt steers the hierarchy generator.
type GenOpt struct {
	AllSigned   bool // every zone signed with a secure delegation
	NoDNSSEC    bool // nothing signed
	MaxZones    int
	Algs        []uint8
	OutOfBailiwickNS bool // allow NS hosts named in other zones (glueless)
	SharedServers    bool // allow parent and child on one server address
	Simple      bool // few records per zone
}

var sldLabels = []string{"example", "victim", "shop", "corp", "a", "b"}
var tldLabels = []string{"com", "org", "test"}

// GenHierarchy produces a zone tree: root, 1–3 TLDs, SLDs and optional sub-zones.
func GenHierarchy(r *kit.RNG, o GenOpt) []ZoneSpec {
	if o.MaxZones == 0 {
		o.MaxZones = 9
	}
	if len(o.Algs) == 0 {
		o.Algs = []uint8{dns.ECDSAP256SHA256, dns.ED25519, dns.ECDSAP256SHA256, dns.ED25519, dns.RSASHA256, dns.RSASHA512, dns.ECDSAP384SHA384}
	}
	addrN := 0
	nextAddr := func() string {
		addrN++
		nets := []string{"192.0.2.%d", "198.51.100.%d", "203.0.113.%d"}
		return fmt.Sprintf(nets[addrN%3], 10+addrN)
	}
	keyN := 0
	signOpts := func(z *ZoneSpec, parentSigned bool) {
		if o.NoDNSSEC {
			return
		}
		if o.AllSigned || r.Chance(0.8) {
			z.Signed = true
			z.Alg = kit.Pick(r, o.Algs)
			keyN++
			z.KeyIdx = keyN
			z.CSK = r.Chance(0.3)
			if r.Chance(0.5) {
				z.NSEC3 = true
				z.Iter = uint16(kit.Pick(r, []int{0, 0, 1, 5, 12}))
				z.Salt = kit.Pick(r, []string{"", "ab", "deadbeef"})
				z.OptOut = r.Chance(0.35)
			}
			z.Secure = parentSigned && (o.AllSigned || r.Chance(0.85))
		}
	}
	var zones []ZoneSpec
	root := ZoneSpec{Name: ".", NSNames: []string{"a.root-servers.net."}, Addrs: []string{"198.41.0.4"}, NSTTL: 518400}
	if !o.NoDNSSEC {
		root.Signed = true
		root.Alg = kit.Pick(r, o.Algs)
		root.KeyIdx = 0
		root.CSK = r.Chance(0.2)
		// (the root is NSEC-signed, as the real one is)
	}
	zones = append(zones, root)
	ntld := r.Range(1, 3)
	var slds []string
	for i := 0; i < ntld && len(zones) < o.MaxZones; i++ {
		t := ZoneSpec{Name: tldLabels[i] + ".", NSTTL: uint32(kit.Pick(r, []int{3600, 86400, 172800})), DSTTL: uint32(kit.Pick(r, []int{3600, 86400}))}
		a := nextAddr()
		t.NSNames = []string{"ns." + t.Name}
		t.Addrs = []string{a}
		t.Records = append(t.Records, fmt.Sprintf("ns.%s 3600 IN A %s", t.Name, a))
		signOpts(&t, root.Signed)
		if !o.Simple {
			t.Records = append(t.Records, fmt.Sprintf("info.%s 600 IN TXT \"tld %s\"", t.Name, t.Name))
		}
		zones = append(zones, t)
		nsld := r.Range(1, 3)
		for j := 0; j < nsld && len(zones) < o.MaxZones; j++ {
			label := sldLabels[(i*3+j)%len(sldLabels)]
			name := label + "." + t.Name
			slds = append(slds, name)
			z := ZoneSpec{Name: name, NSTTL: uint32(kit.Pick(r, []int{300, 3600, 86400})), DSTTL: uint32(kit.Pick(r, []int{300, 3600, 86400})),
				SOAMin: uint32(kit.Pick(r, []int{30, 300, 3600}))}
			nns := r.Range(1, 2)
			for k := 0; k < nns; k++ {
				a := nextAddr()
				if o.SharedServers && k == 0 && r.Chance(0.15) {
					a = t.Addrs[0] // parent and child served by one server
				}
				n := fmt.Sprintf("ns%d.%s", k+1, name)
				z.NSNames = append(z.NSNames, n)
				z.Addrs = append(z.Addrs, a)
				z.Records = append(z.Records, fmt.Sprintf("%s 3600 IN A %s", n, a))
			}
			signOpts(&z, t.Signed)
			z.Records = append(z.Records, genRecords(r, name, o.Simple)...)
			zones = append(zones, z)
			if r.Chance(0.35) && len(zones) < o.MaxZones {
				sn := "sub." + name
				s := ZoneSpec{Name: sn, NSTTL: uint32(kit.Pick(r, []int{60, 3600})), DSTTL: uint32(kit.Pick(r, []int{60, 3600}))}
				a := nextAddr()
				if o.SharedServers && r.Chance(0.2) {
					a = z.Addrs[0]
				}
				s.NSNames = []string{"ns1." + sn}
				s.Addrs = []string{a}
				s.Records = append(s.Records, fmt.Sprintf("ns1.%s 3600 IN A %s", sn, a))
				signOpts(&s, z.Signed)
				s.Records = append(s.Records, genRecords(r, sn, true)...)
				zones = append(zones, s)
			}
		}
	}
	// cross-zone aliases
	if len(slds) >= 2 && !o.Simple {
		for i := range zones {
			z := &zones[i]
			if dns.CountLabel(z.Name) == 2 && r.Chance(0.5) {
				other := kit.Pick(r, slds)
				if other != z.Name {
					z.Records = append(z.Records, fmt.Sprintf("ext.%s 300 IN CNAME www.%s", z.Name, other))
				}
			}
		}
	}
	return zones
}

func genRecords(r *kit.RNG, zone string, simple bool) []string {
	ttl := func() int { return kit.Pick(r, []int{5, 60, 300, 3600}) }
	out := []string{
		fmt.Sprintf("www.%s %d IN A 192.0.2.%d", zone, ttl(), r.Range(1, 250)),
		fmt.Sprintf("%s %d IN A 192.0.2.%d", zone, ttl(), r.Range(1, 250)),
	}
	if r.Chance(0.6) {
		out = append(out, fmt.Sprintf("www.%s %d IN AAAA 2001:db8::%x", zone, ttl(), r.Range(1, 65000)))
	}
	if simple {
		return out
	}
	if r.Chance(0.6) {
		out = append(out, fmt.Sprintf("*.w.%s %d IN A 192.0.2.%d", zone, ttl(), r.Range(1, 250)))
		if r.Chance(0.5) {
			// an existing name beside the wildcard, holding a type the wildcard lacks
			out = append(out, fmt.Sprintf("host.w.%s %d IN TXT \"beside the wildcard\"", zone, ttl()))
		}
	}
	if r.Chance(0.3) {
		out = append(out, fmt.Sprintf("*.%s %d IN TXT \"wild %s\"", zone, ttl(), zone))
	}
	if r.Chance(0.25) {
		out = append(out, fmt.Sprintf("*.%s %d IN A 192.0.2.%d", zone, ttl(), r.Range(1, 250)))
	}
	if r.Chance(0.6) {
		out = append(out, fmt.Sprintf("alias.%s %d IN CNAME www.%s", zone, ttl(), zone))
	}
	if r.Chance(0.3) {
		out = append(out, fmt.Sprintf("chain.%s %d IN CNAME alias.%s", zone, ttl(), zone))
	}
	if r.Chance(0.5) {
		out = append(out, fmt.Sprintf("x.y.z.%s %d IN TXT \"deep\"", zone, ttl())) // y.z and z are empty non-terminals
	}
	if r.Chance(0.3) {
		out = append(out, fmt.Sprintf("dn.%s %d IN DNAME w.%s", zone, ttl(), zone))
	}
	if r.Chance(0.4) {
		out = append(out, fmt.Sprintf("mail.%s %d IN MX 10 www.%s", zone, ttl(), zone))
	}
	if r.Chance(0.2) {
		out = append(out, fmt.Sprintf(`a\.b.%s %d IN TXT "escaped dot"`, zone, ttl()), fmt.Sprintf(`\000.%s %d IN TXT "nul"`, zone, ttl()))
	}
	if r.Chance(0.3) {
		out = append(out, fmt.Sprintf("dangling.%s %d IN CNAME nowhere.%s", zone, ttl(), zone))
	}
	return out
}

// Question is one candidate client question.
type Question struct {
	Name  string `json:"name"`
	Qtype uint16 `json:"qtype"`
}

// InterestingQuestions lists questions that exercise the structure of the world: every
// owner and type, wildcard matches, empty non-terminals, names below cuts, nonexistent
// names at each depth, alias sources.
func InterestingQuestions(w *authsim.World) []Question {
	var out []Question
	seen := map[string]bool{}
	add := func(name string, t uint16) {
		name = dns.CanonicalName(name)
		if _, ok := dns.IsDomainName(name); !ok {
			return
		}
		k := fmt.Sprintf("%s/%d", name, t)
		if !seen[k] {
			seen[k] = true
			out = append(out, Question{name, t})
		}
	}
	var names []string
	for n := range w.Zones {
		names = append(names, n)
	}
	sortStrings(names)
	for _, zn := range names {
		z := w.Zones[zn]
		add(zn, dns.TypeSOA)
		add(zn, dns.TypeNS)
		add(zn, dns.TypeA)
		if zn != "." {
			add(zn, dns.TypeDS)
			add(zn, dns.TypeDNSKEY)
		}
		add("nx."+strings.TrimPrefix(zn, "."), dns.TypeA)
		add("deep.nx."+strings.TrimPrefix(zn, "."), dns.TypeAAAA)
		var owners []string
		for o := range z.Nodes {
			owners = append(owners, o)
		}
		sortStrings(owners)
		for _, o := range owners {
			if strings.HasPrefix(o, "*.") {
				add("match"+o[1:], dns.TypeA)
				add("match"+o[1:], dns.TypeTXT)
				add("m1.m2"+o[1:], dns.TypeA)
				continue
			}
			for t := range z.Nodes[o] {
				if t == dns.TypeDNSKEY || t == dns.TypeNSEC3PARAM || t == dns.TypeSOA {
					continue
				}
				if t == dns.TypeCNAME {
					add(o, dns.TypeA)
					add(o, dns.TypeCNAME)
					continue
				}
				if t == dns.TypeDNAME {
					add("below."+o, dns.TypeA)
					add("match.below."+o, dns.TypeA)
					add(o, dns.TypeDNAME)
					continue
				}
				add(o, t)
			}
			add(o, dns.TypeMX) // often absent: NODATA
			// parents of deep owners are empty non-terminals
			if dns.CountLabel(o) > dns.CountLabel(zn)+1 {
				i, _ := dns.NextLabel(o, 0)
				add(o[i:], dns.TypeA)
			}
		}
	}
	return out
}

func sortStrings(s []string) {
	for i := 1; i < len(s); i++ {
		for j := i; j > 0 && s[j] < s[j-1]; j-- {
			s[j], s[j-1] = s[j-1], s[j]
		}
	}
}
