package world

import (
	"context"
	"net/netip"
	"time"

	"github.com/semihalev/sdns/server"
	"github.com/semihalev/sdns/verifx/verifsrvnet"

	"verifsim/kit"
	"verifsim/simsock"
)

// IngSpec configures the owned UDP transport of a W-ing world.
type IngSpec struct {
	Workers   int   `json:"workers,omitempty"`
	Queue     int   `json:"queue,omitempty"`
	Sockets   int   `json:"sockets,omitempty"`
	Spare     int64 `json:"spare,omitempty"`
	RcvBuf    int   `json:"rcvbuf,omitempty"`
	NoRawConn bool  `json:"no_rawconn,omitempty"` // portable reader/sender instead of recvmmsg/sendmmsg
	TCP       bool  `json:"tcp,omitempty"`        // also start the owned TCP listener
	TCPConns  int   `json:"tcp_conns,omitempty"`
	TCPSmall  int   `json:"tcp_small,omitempty"`
	TCPLarge  int   `json:"tcp_large,omitempty"`
}

// Ing is W-res plus the real UDP listener/engine over a simulated kernel.
type Ing struct {
	*Res
	K      *simsock.Kernel
	L      server.Listener
	TL     server.Listener // TCP listener (nil unless IngSpec.TCP)
	Local  netip.AddrPort
	cancel context.CancelFunc
}

// NewIng builds W-res and starts the UDP listener. Must run inside a bubble.
func NewIng(spec *Spec, ing IngSpec, seed uint64, tr *kit.Trace) (*Ing, error) {
	r := NewRes(spec, seed, tr)
	k := simsock.NewKernel()
	k.RcvBuf = ing.RcvBuf
	k.NoRawConn = ing.NoRawConn
	verifsrvnet.Install(k)
	if ing.Workers <= 0 {
		ing.Workers = 4
	}
	if ing.Queue <= 0 {
		ing.Queue = 8
	}
	if ing.Sockets <= 0 {
		ing.Sockets = 1
	}
	local := netip.MustParseAddrPort("10.0.0.53:53")
	l := server.VerifUDPListener(r.Srv, local.String(), ing.Workers, ing.Queue, ing.Sockets, ing.Spare)
	ctx, cancel := context.WithCancel(context.Background())
	g := &Ing{Res: r, K: k, L: l, Local: local, cancel: cancel}
	if err := l.Bind(ctx); err != nil {
		g.Close()
		return nil, err
	}
	go func() { _ = l.Serve(ctx) }()
	if ing.TCP {
		if ing.TCPConns <= 0 {
			ing.TCPConns = 64
		}
		tl := server.VerifTCPListener(r.Srv, local.String(), ing.TCPConns, ing.TCPSmall, ing.TCPLarge)
		if err := tl.Bind(ctx); err != nil {
			g.Close()
			return nil, err
		}
		g.TL = tl
		go func() { _ = tl.Serve(ctx) }()
	}
	kit.Settle()
	return g, nil
}

// Send delivers one datagram from a client to socket sock.
func (g *Ing) Send(sock int, from netip.AddrPort, raw []byte) bool {
	return g.K.Deliver(sock, from, raw)
}

// Shutdown drains and stops the listeners (the listener-scope barrier).
func (g *Ing) Shutdown() error {
	ctx, cancel := context.WithTimeout(context.Background(), 30*time.Second)
	defer cancel()
	err := g.L.Shutdown(ctx)
	if g.TL != nil {
		if e := g.TL.Shutdown(ctx); err == nil {
			err = e
		}
	}
	return err
}

// DialTCP opens a client connection to the TCP listener.
func (g *Ing) DialTCP(from netip.AddrPort, window int) *simsock.StreamConn {
	return g.K.TCP.Dial(from, window)
}

func (g *Ing) Close() {
	g.cancel()
	verifsrvnet.Install(nil)
	g.Res.Close()
}
