// Package world builds the simulated deployments ("worlds") the properties run in:
// the complete default sdns middleware chain with the real resolver over simnet +
// authsim (W-res), with the decoded-message entry Server.ServeMsg as the client side.
// Everything here must be called from inside a kit.Bubble.
package world

import (
	"context"
	"fmt"
	"net"
	"net/netip"
	"os"
	"sync"
	"time"

	"github.com/miekg/dns"
	"github.com/semihalev/sdns/config"
	"github.com/semihalev/sdns/middleware"
	mcache "github.com/semihalev/sdns/middleware/cache"
	"github.com/semihalev/sdns/middleware/defaults"
	"github.com/semihalev/sdns/server"
	"github.com/semihalev/sdns/verifx/bridge"
	"github.com/semihalev/sdns/verifx/verifnet"
	"github.com/semihalev/sdns/verifx/verifos"
	"github.com/semihalev/zlog/v2"

	"verifsim/authsim"
	"verifsim/kit"
	"verifsim/simdisk"
	"verifsim/simnet"
)

// ZoneSpec is the explicit (JSON) description of one zone of a generated hierarchy.
type ZoneSpec struct {
	Name    string   `json:"name"`
	Signed  bool     `json:"signed,omitempty"`
	Alg     uint8    `json:"alg,omitempty"`
	KeyIdx  int      `json:"key_idx,omitempty"`
	CSK     bool     `json:"csk,omitempty"`
	NSEC3   bool     `json:"nsec3,omitempty"`
	Iter    uint16   `json:"iter,omitempty"`
	Salt    string   `json:"salt,omitempty"`
	OptOut  bool     `json:"optout,omitempty"`
	Secure  bool     `json:"secure,omitempty"` // parent publishes DS
	NSNames []string `json:"ns"`
	Addrs   []string `json:"addrs"` // one address per NS name
	NSTTL   uint32   `json:"ns_ttl,omitempty"`
	DSTTL   uint32   `json:"ds_ttl,omitempty"`
	SOAMin  uint32   `json:"soa_min,omitempty"`
	NoGlue  bool     `json:"no_glue,omitempty"`
	Records []string `json:"records,omitempty"`
	// SigFromH / SigToH: RRSIG validity window in hours relative to the epoch (0,0 = default).
	SigFromH int `json:"sig_from_h,omitempty"`
	SigToH   int `json:"sig_to_h,omitempty"`
}

// CfgSpec are the sdns configuration knobs a scenario randomises.
type CfgSpec struct {
	DNSSECOff     bool     `json:"dnssec_off,omitempty"`
	NoAnchor      bool     `json:"no_anchor,omitempty"`
	CacheSize     int      `json:"cache_size,omitempty"`
	Prefetch      uint32   `json:"prefetch,omitempty"`
	Expire        uint32   `json:"expire,omitempty"`
	QnameMin      int      `json:"qname_min,omitempty"`
	TimeoutMs     int      `json:"timeout_ms,omitempty"`
	QueryTimeoutS int      `json:"query_timeout_s,omitempty"`
	RFC8198Off    bool     `json:"rfc8198_off,omitempty"`
	RFC9520Off    bool     `json:"rfc9520_off,omitempty"`
	Firewall      string   `json:"firewall,omitempty"` // off shadow enforce
	MaxOutbound   uint32   `json:"max_outbound,omitempty"`
	MaxInternal   uint32   `json:"max_internal,omitempty"`
	FailMinS      int      `json:"fail_min_s,omitempty"`
	FailMaxS      int      `json:"fail_max_s,omitempty"`
	FailSize      int      `json:"fail_size,omitempty"`
	MaxConcurrent int      `json:"max_concurrent,omitempty"`
	AccessList    []string `json:"access_list,omitempty"`
	RateLimit     int      `json:"rate_limit,omitempty"`
	ClientRate    int      `json:"client_rate,omitempty"`
	IPv6          bool     `json:"ipv6,omitempty"`
	ECS           *config.ECSConfig   `json:"ecs,omitempty"`
	DNS64         *config.DNS64Config `json:"dns64,omitempty"`
	Blocklist     []string `json:"blocklist,omitempty"`
	Whitelist     []string `json:"whitelist,omitempty"`
	EmptyZones    []string `json:"empty_zones,omitempty"`
	Views         []config.ViewConfig `json:"views,omitempty"`
	NSID          string   `json:"nsid,omitempty"`
	CookieSecret  string   `json:"cookie_secret,omitempty"`
}

type Spec struct {
	Zones []ZoneSpec `json:"zones"`
	Cfg   CfgSpec    `json:"cfg"`
}

// Res is a running W-res world.
type Res struct {
	World *authsim.World
	Net   *simnet.Net
	Disk  *simdisk.Disk
	Srv   *server.Server
	Cfg   *config.Config
	Start time.Time
	Trace *kit.Trace
	// Hook lets a property wrap the honest authoritative answer (tampering, adversary
	// behaviours). It returns the datagrams to send; nil = honest reply.
	Hook func(addr netip.Addr, q *simnet.Query, honest *authsim.Answer) []simnet.Reply
	// PreServe runs before the authoritative answer is built: a property can change zone
	// content as a function of (fake) time, e.g. stamp the serving instant into the data.
	PreServe func(addr netip.Addr, q *simnet.Query)
	oldRand func(int) int
}

const simDir = "/simdisk/sdns"

// BuildWorld turns zone specs into an authsim world.
func BuildWorld(zs []ZoneSpec) *authsim.World {
	w := authsim.NewWorld(kit.Epoch)
	byName := map[string]*authsim.Zone{}
	for _, s := range zs {
		var hosts []authsim.NSHost
		for i, n := range s.NSNames {
			h := authsim.NSHost{Name: dns.CanonicalName(n)}
			if i < len(s.Addrs) && s.Addrs[i] != "" {
				h.Addrs = []netip.Addr{netip.MustParseAddr(s.Addrs[i])}
			}
			hosts = append(hosts, h)
		}
		z := w.AddZone(s.Name, hosts)
		if s.NSTTL != 0 {
			z.NSTTL = s.NSTTL
		}
		if s.SOAMin != 0 {
			z.SOAMin = s.SOAMin
		}
		if s.SigFromH != 0 || s.SigToH != 0 {
			z.SigFrom = kit.Epoch.Add(time.Duration(s.SigFromH) * time.Hour)
			z.SigTo = kit.Epoch.Add(time.Duration(s.SigToH) * time.Hour)
		}
		if s.Signed {
			z.Sign(s.Alg, s.KeyIdx, s.CSK)
			if s.NSEC3 {
				z.UseNSEC3(s.Iter, s.Salt, s.OptOut)
			}
		} else {
			z.Add() // rebuild apex with final TTLs
		}
		z.Add(s.Records...)
		byName[z.Name] = z
	}
	// delegations: each non-root zone is delegated from its closest enclosing zone
	for _, s := range zs {
		name := dns.CanonicalName(s.Name)
		if name == "." {
			continue
		}
		var parent *authsim.Zone
		for pn, pz := range byName {
			if pn != name && dns.IsSubDomain(pn, name) && (parent == nil || dns.CountLabel(pn) > dns.CountLabel(parent.Name)) {
				parent = pz
			}
		}
		if parent == nil {
			continue
		}
		child := byName[name]
		d := parent.Delegate(name, child.NS, s.Secure && child.Signed)
		if s.NSTTL != 0 {
			d.NSTTL = s.NSTTL
		}
		if s.DSTTL != 0 {
			d.DSTTL = s.DSTTL
		}
		d.NoGlue = s.NoGlue
	}
	return w
}

func boolp(b bool) *bool { return &b }

// NewRes builds and starts the world. Must run inside a bubble.
func NewRes(spec *Spec, seed uint64, tr *kit.Trace) *Res {
	r := &Res{Trace: tr, Start: time.Now()}
	r.World = BuildWorld(spec.Zones)
	r.Net = simnet.New(seed, tr)
	r.Disk = simdisk.New(simDir)
	verifnet.Install(r.Net)
	verifos.Install(r.Disk)
	// authoritative servers
	for addr := range r.World.Hosts {
		a := addr
		r.Net.AddServer(a.String(), simnet.ServerFunc(func(q *simnet.Query) []simnet.Reply { return r.serve(a, q) }))
	}
	c := &config.Config{
		DNSSEC:       "on",
		Directory:    simDir,
		BlockListDir: simDir + "/blacklists",
		Bind:         "127.0.0.1:0",
		Maxdepth:     30,
		CacheSize:    spec.Cfg.CacheSize,
		Prefetch:     spec.Cfg.Prefetch,
		Expire:       spec.Cfg.Expire,
		QnameMinLevel: spec.Cfg.QnameMin,
		AccessList:   []string{"0.0.0.0/0", "::0/0"},
		RateLimit:    spec.Cfg.RateLimit,
		ClientRateLimit: spec.Cfg.ClientRate,
		IPv6Access:   spec.Cfg.IPv6,
		Nullroute:    "0.0.0.0",
		Nullroutev6:  "::0",
		Blocklist:    spec.Cfg.Blocklist,
		Whitelist:    spec.Cfg.Whitelist,
		EmptyZones:   spec.Cfg.EmptyZones,
		Views:        spec.Cfg.Views,
		NSID:         spec.Cfg.NSID,
		CookieSecret: spec.Cfg.CookieSecret,
		MaxConcurrentQueries: spec.Cfg.MaxConcurrent,
	}
	if c.CacheSize == 0 {
		c.CacheSize = 4096
	}
	if c.Expire == 0 {
		c.Expire = 600
	}
	if spec.Cfg.DNSSECOff {
		c.DNSSEC = "off"
	}
	if len(spec.Cfg.AccessList) > 0 {
		c.AccessList = spec.Cfg.AccessList
	}
	c.Timeout.Duration = 2 * time.Second
	if spec.Cfg.TimeoutMs > 0 {
		c.Timeout.Duration = time.Duration(spec.Cfg.TimeoutMs) * time.Millisecond
	}
	c.QueryTimeout.Duration = 10 * time.Second
	if spec.Cfg.QueryTimeoutS > 0 {
		c.QueryTimeout.Duration = time.Duration(spec.Cfg.QueryTimeoutS) * time.Second
	}
	if spec.Cfg.RFC8198Off {
		c.RFC8198 = boolp(false)
	}
	if spec.Cfg.RFC9520Off {
		c.RFC9520 = boolp(false)
	}
	if spec.Cfg.Firewall != "" {
		c.RecursionFirewall.Mode = config.RecursionFirewallMode(spec.Cfg.Firewall)
	}
	c.RecursionFirewall.MaxOutboundQueries = spec.Cfg.MaxOutbound
	c.RecursionFirewall.MaxInternalQueries = spec.Cfg.MaxInternal
	if spec.Cfg.FailMinS > 0 {
		c.RecursionFirewall.FailureCacheMinTTL.Duration = time.Duration(spec.Cfg.FailMinS) * time.Second
	}
	if spec.Cfg.FailMaxS > 0 {
		c.RecursionFirewall.FailureCacheMaxTTL.Duration = time.Duration(spec.Cfg.FailMaxS) * time.Second
	}
	c.RecursionFirewall.FailureCacheSize = spec.Cfg.FailSize
	if spec.Cfg.ECS != nil {
		c.ECS = *spec.Cfg.ECS
	}
	if spec.Cfg.DNS64 != nil {
		c.DNS64 = *spec.Cfg.DNS64
	}
	if root := r.World.Zones["."]; root != nil {
		for _, h := range root.NS {
			for _, a := range h.Addrs {
				if a.Is4() {
					c.RootServers = append(c.RootServers, netip.AddrPortFrom(a, 53).String())
				} else {
					c.Root6Servers = append(c.Root6Servers, netip.AddrPortFrom(a, 53).String())
				}
			}
		}
		if root.Signed && !spec.Cfg.NoAnchor {
			c.RootKeys = []string{root.KSK.DNSKEY.String()}
		}
	}
	r.Cfg = c
	// process-global state: same behaviour as the N-th scenario of a batch as alone
	middleware.Reset()
	mcache.VerifResetSharedLimiters()
	idr := kit.NewRNG(kit.Hash64(seed, "dnsid"))
	var idmu sync.Mutex
	dns.Id = func() uint16 { idmu.Lock(); defer idmu.Unlock(); return uint16(idr.Uint64()) }
	rr := kit.NewRNG(kit.Hash64(seed, "randn"))
	var rmu sync.Mutex
	r.oldRand = bridge.SetAuthorityRandN(func(n int) int { rmu.Lock(); defer rmu.Unlock(); return rr.Intn(n) })
	if os.Getenv("VERIF_SDNS_LOG") != "" {
		// triage aid: sdns's own debug log on stdout (never set by a registered command)
		l := zlog.NewStructured()
		l.SetLevel(zlog.LevelDebug)
		l.SetWriter(zlog.StdoutTerminal())
		zlog.SetDefault(l)
	}
	defaults.Register()
	// The resolver starts a goroutine that polls middleware.Ready() every 50 ms before it sends
	// the priming query; whether its first look comes before or after Setup publishes the
	// pipeline is a real-scheduler race (0 s or 50 ms). A constructor registered last builds
	// nothing and waits for every goroutine started so far to block: the poller has then seen
	// "not ready" in every run, and priming starts at 50 ms.
	middleware.Register("zz-verif-gate", func(*config.Config) middleware.Handler { kit.Settle(); return nil })
	middleware.Setup(c)
	r.Srv = server.New(c)
	return r
}

// Close uninstalls the simulated devices.
func (r *Res) Close() {
	verifnet.Install(nil)
	verifos.Install(nil)
	if r.oldRand != nil {
		bridge.SetAuthorityRandN(r.oldRand)
	}
}

func (r *Res) Now() time.Duration { return time.Since(r.Start) }

func (r *Res) serve(addr netip.Addr, q *simnet.Query) []simnet.Reply {
	if q.Msg == nil {
		return nil
	}
	if r.PreServe != nil {
		r.PreServe(addr, q)
	}
	honest := r.World.Respond(addr, q.Msg)
	if r.Hook != nil {
		if out := r.Hook(addr, q, honest); out != nil {
			return out
		}
	}
	return PackReply(honest.Msg, q)
}

// PackReply packs a response for the transport of q (UDP size limit → TC).
func PackReply(m *dns.Msg, q *simnet.Query) []simnet.Reply {
	b, err := m.Pack()
	if err != nil {
		return nil
	}
	if q.Proto == "udp" {
		limit := 512
		if o := q.Msg.IsEdns0(); o != nil && int(o.UDPSize()) > limit {
			limit = int(o.UDPSize())
		}
		if len(b) > limit {
			t := m.Copy()
			t.Truncated = true
			t.Answer, t.Ns = nil, nil
			var opt []dns.RR
			if o := m.IsEdns0(); o != nil {
				opt = []dns.RR{o}
			}
			t.Extra = opt
			b, _ = t.Pack()
		}
	}
	return []simnet.Reply{{Raw: b}}
}

// Client is a recording transport for Server.ServeMsg.
type Client struct {
	Local, Remote net.Addr
	ProtoName     string
	mu            sync.Mutex
	Replies       []*dns.Msg
	Raw           [][]byte
	At            []time.Duration
	start         time.Time
}

func (c *Client) LocalAddr() net.Addr  { return c.Local }
func (c *Client) RemoteAddr() net.Addr { return c.Remote }
func (c *Client) Proto() string        { return c.ProtoName }
func (c *Client) Close() error         { return nil }
func (c *Client) WriteMsg(m *dns.Msg) error {
	b, err := m.Pack()
	if err != nil {
		return err
	}
	_, err = c.Write(b)
	return err
}
func (c *Client) Write(b []byte) (int, error) {
	m := new(dns.Msg)
	if err := m.Unpack(b); err != nil {
		return 0, fmt.Errorf("client: reply does not parse: %w", err)
	}
	c.mu.Lock()
	c.Replies = append(c.Replies, m)
	c.Raw = append(c.Raw, append([]byte(nil), b...))
	c.At = append(c.At, time.Since(c.start))
	c.mu.Unlock()
	return len(b), nil
}

// NewClient returns a recording transport for client over proto ("udp"/"tcp").
func (r *Res) NewClient(client netip.AddrPort, proto string) *Client {
	c := &Client{start: time.Now(), ProtoName: proto}
	if proto == "tcp" {
		c.Local = &net.TCPAddr{IP: net.IPv4(10, 0, 0, 53), Port: 53}
		c.Remote = net.TCPAddrFromAddrPort(client)
	} else {
		c.Local = &net.UDPAddr{IP: net.IPv4(10, 0, 0, 53), Port: 53}
		c.Remote = net.UDPAddrFromAddrPort(client)
	}
	return c
}

// Ask sends one decoded query as client addr over proto ("udp"/"tcp") and waits for the
// server to finish with it. It returns every reply written (exactly one is expected).
func (r *Res) Ask(client netip.AddrPort, proto string, q *dns.Msg) *Client {
	c := &Client{start: time.Now()}
	if proto == "tcp" {
		c.Local = &net.TCPAddr{IP: net.IPv4(10, 0, 0, 53), Port: 53}
		c.Remote = net.TCPAddrFromAddrPort(client)
	} else {
		c.Local = &net.UDPAddr{IP: net.IPv4(10, 0, 0, 53), Port: 53}
		c.Remote = net.UDPAddrFromAddrPort(client)
	}
	r.Srv.ServeMsg(context.Background(), c, q)
	return c
}
