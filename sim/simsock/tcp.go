package simsock

import (
	"io"
	"net"
	"net/netip"
	"os"
	"sync"
	"time"
)

// Simulated TCP: a listener whose Accept yields buffered duplex byte streams. Everything
// blocks on channels and timers, so inside a synctest bubble it runs on the fake clock.

type TCPListener struct {
	k      *Kernel
	addr   netip.AddrPort
	mu     sync.Mutex
	queue  []*StreamConn
	closed bool
	wake   chan struct{}
}

func (k *Kernel) ListenTCP(address string) (net.Listener, error) {
	ap, err := netip.ParseAddrPort(address)
	if err != nil {
		return nil, &net.OpError{Op: "listen", Net: "tcp", Err: err}
	}
	l := &TCPListener{k: k, addr: ap, wake: make(chan struct{}, 1)}
	k.mu.Lock()
	k.TCP = l
	k.mu.Unlock()
	return l, nil
}

func (l *TCPListener) Accept() (net.Conn, error) {
	for {
		l.mu.Lock()
		if l.closed {
			l.mu.Unlock()
			return nil, &net.OpError{Op: "accept", Net: "tcp", Err: net.ErrClosed}
		}
		if len(l.queue) > 0 {
			c := l.queue[0]
			l.queue = l.queue[1:]
			l.mu.Unlock()
			return c, nil
		}
		l.mu.Unlock()
		<-l.wake
	}
}

func (l *TCPListener) Close() error {
	l.mu.Lock()
	l.closed = true
	l.mu.Unlock()
	select {
	case l.wake <- struct{}{}:
	default:
	}
	return nil
}

func (l *TCPListener) Addr() net.Addr { return net.TCPAddrFromAddrPort(l.addr) }

// Dial opens a connection from a client; it returns the client's end. window bounds how
// many bytes may sit unread in each direction (0 = 64 KiB): a client that does not read
// makes the server's writes block.
func (l *TCPListener) Dial(from netip.AddrPort, window int) *StreamConn {
	if window <= 0 {
		window = 64 << 10
	}
	a2b := &half{wake: make(chan struct{}, 1), space: make(chan struct{}, 1), window: window}
	b2a := &half{wake: make(chan struct{}, 1), space: make(chan struct{}, 1), window: window}
	client := &StreamConn{rd: b2a, wr: a2b, local: net.TCPAddrFromAddrPort(from), remote: net.TCPAddrFromAddrPort(l.addr)}
	server := &StreamConn{rd: a2b, wr: b2a, local: net.TCPAddrFromAddrPort(l.addr), remote: net.TCPAddrFromAddrPort(from)}
	l.mu.Lock()
	if l.closed {
		l.mu.Unlock()
		client.Close()
		return client
	}
	l.queue = append(l.queue, server)
	l.mu.Unlock()
	select {
	case l.wake <- struct{}{}:
	default:
	}
	return client
}

type half struct {
	mu     sync.Mutex
	buf    []byte
	closed bool // writer closed: reader sees EOF after draining
	reset  bool // connection torn down: both sides fail
	wake   chan struct{}
	space  chan struct{}
	window int
}

func (h *half) signal(c chan struct{}) {
	select {
	case c <- struct{}{}:
	default:
	}
}

// StreamConn is one end of a simulated TCP connection.
type StreamConn struct {
	rd, wr        *half
	local, remote net.Addr
	mu            sync.Mutex
	rdl, wdl      time.Time
	closed        bool
}

func wait(c chan struct{}, deadline time.Time) error {
	if deadline.IsZero() {
		<-c
		return nil
	}
	d := time.Until(deadline)
	if d <= 0 {
		return os.ErrDeadlineExceeded
	}
	t := time.NewTimer(d)
	defer t.Stop()
	select {
	case <-c:
		return nil
	case <-t.C:
		return os.ErrDeadlineExceeded
	}
}

func (c *StreamConn) Read(p []byte) (int, error) {
	for {
		c.mu.Lock()
		dl, closed := c.rdl, c.closed
		c.mu.Unlock()
		if closed {
			return 0, &net.OpError{Op: "read", Net: "tcp", Err: net.ErrClosed}
		}
		// like the runtime poller (prepareRead): an expired deadline fails the call before any
		// I/O is attempted, even when data is waiting
		if !dl.IsZero() && !time.Now().Before(dl) {
			return 0, &net.OpError{Op: "read", Net: "tcp", Err: os.ErrDeadlineExceeded}
		}
		h := c.rd
		h.mu.Lock()
		if h.reset {
			h.mu.Unlock()
			return 0, &net.OpError{Op: "read", Net: "tcp", Err: os.NewSyscallError("read", errConnReset)}
		}
		if len(h.buf) > 0 {
			n := copy(p, h.buf)
			h.buf = h.buf[n:]
			h.mu.Unlock()
			h.signal(h.space)
			return n, nil
		}
		if h.closed {
			h.mu.Unlock()
			return 0, io.EOF
		}
		h.mu.Unlock()
		if !dl.IsZero() && !time.Now().Before(dl) {
			return 0, &net.OpError{Op: "read", Net: "tcp", Err: os.ErrDeadlineExceeded}
		}
		if err := wait(h.wake, dl); err != nil {
			return 0, &net.OpError{Op: "read", Net: "tcp", Err: err}
		}
	}
}

func (c *StreamConn) Write(p []byte) (int, error) {
	written := 0
	for written < len(p) {
		c.mu.Lock()
		dl, closed := c.wdl, c.closed
		c.mu.Unlock()
		if closed {
			return written, &net.OpError{Op: "write", Net: "tcp", Err: net.ErrClosed}
		}
		// like the runtime poller (prepareWrite): an expired deadline fails the call before any
		// byte is written, even when the peer has room
		if !dl.IsZero() && !time.Now().Before(dl) {
			return written, &net.OpError{Op: "write", Net: "tcp", Err: os.ErrDeadlineExceeded}
		}
		h := c.wr
		h.mu.Lock()
		if h.reset || h.closed {
			h.mu.Unlock()
			return written, &net.OpError{Op: "write", Net: "tcp", Err: os.NewSyscallError("write", errPipe)}
		}
		room := h.window - len(h.buf)
		if room > 0 {
			n := len(p) - written
			if n > room {
				n = room
			}
			h.buf = append(h.buf, p[written:written+n]...)
			written += n
			h.mu.Unlock()
			h.signal(h.wake)
			continue
		}
		h.mu.Unlock()
		if !dl.IsZero() && !time.Now().Before(dl) {
			return written, &net.OpError{Op: "write", Net: "tcp", Err: os.ErrDeadlineExceeded}
		}
		if err := wait(h.space, dl); err != nil {
			return written, &net.OpError{Op: "write", Net: "tcp", Err: err}
		}
	}
	return written, nil
}

// Close ends this end: the peer reads EOF after draining, and its writes fail.
func (c *StreamConn) Close() error {
	c.mu.Lock()
	if c.closed {
		c.mu.Unlock()
		return nil
	}
	c.closed = true
	c.mu.Unlock()
	c.wr.mu.Lock()
	c.wr.closed = true
	c.wr.mu.Unlock()
	c.wr.signal(c.wr.wake)
	c.rd.mu.Lock()
	c.rd.closed = true
	c.rd.buf = nil
	c.rd.mu.Unlock()
	c.rd.signal(c.rd.space)
	c.rd.signal(c.rd.wake)
	return nil
}

// Reset tears the connection down abruptly (RST): pending data is lost.
func (c *StreamConn) Reset() {
	for _, h := range []*half{c.rd, c.wr} {
		h.mu.Lock()
		h.reset = true
		h.buf = nil
		h.mu.Unlock()
		h.signal(h.wake)
		h.signal(h.space)
	}
	c.mu.Lock()
	c.closed = true
	c.mu.Unlock()
}

func (c *StreamConn) LocalAddr() net.Addr  { return c.local }
func (c *StreamConn) RemoteAddr() net.Addr { return c.remote }
func (c *StreamConn) SetDeadline(t time.Time) error {
	c.mu.Lock()
	c.rdl, c.wdl = t, t
	c.mu.Unlock()
	c.rd.signal(c.rd.wake)
	c.wr.signal(c.wr.space)
	return nil
}
func (c *StreamConn) SetReadDeadline(t time.Time) error {
	c.mu.Lock()
	c.rdl = t
	c.mu.Unlock()
	c.rd.signal(c.rd.wake)
	return nil
}
func (c *StreamConn) SetWriteDeadline(t time.Time) error {
	c.mu.Lock()
	c.wdl = t
	c.mu.Unlock()
	c.wr.signal(c.wr.space)
	return nil
}
