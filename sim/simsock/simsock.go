// Package simsock is the simulated kernel behind the server's owned UDP transport: bound
// sockets with bounded receive queues, blocking reads that park inside the synctest
// bubble, and a log of everything the server sent. Faults: receive-queue overflow
// (kernel drop), recvmmsg/sendmmsg failing with a chosen errno, partial sendmmsg, a
// poisoned destination, no raw descriptor (portable path).
package simsock

import (
	"net"
	"net/netip"
	"os"
	"sync"
	"syscall"
	"time"

	"github.com/semihalev/sdns/verifx/verifsrvnet"
)

// Sent is one datagram the server transmitted.
type Sent struct {
	At    time.Duration
	Sock  int
	To    netip.AddrPort
	Data  []byte
	Batch bool // left through sendmmsg
}

var (
	errConnReset = syscall.ECONNRESET
	errPipe      = syscall.EPIPE
)

type Kernel struct {
	mu    sync.Mutex
	start time.Time
	Socks []*Sock
	TCP   *TCPListener
	Out   []Sent
	// Config
	RcvBuf       int  // datagrams a socket queues before the kernel drops (0 = 256)
	NoRawConn    bool // SyscallConn fails: portable reader/sender
	RecvmmsgErr  syscall.Errno
	RecvmmsgErrFrom time.Duration // the errno starts at this time since NewKernel (0 = from the start)
	SendmmsgErr  syscall.Errno
	PartialSend  int                      // >0: a sendmmsg accepts at most this many messages
	PoisonDest   map[netip.AddrPort]bool  // sends to these fail with EPERM
	OnSend       func(s Sent)
	// Counters
	KernelDrops  int
	Peeks     int // non-consuming looks at a receive queue (recvfrom MSG_PEEK)
	BatchRecv    int
	SingleRecv   int
	BatchSends   int
	DirectSends  int
	MaxBatch     int
}

func NewKernel() *Kernel { return &Kernel{start: time.Now(), PoisonDest: map[netip.AddrPort]bool{}} }

func (k *Kernel) ListenUDP(address string) (verifsrvnet.Socket, error) {
	k.mu.Lock()
	defer k.mu.Unlock()
	ap, err := netip.ParseAddrPort(address)
	if err != nil {
		return nil, &net.OpError{Op: "listen", Net: "udp", Err: err}
	}
	if ap.Port() == 0 {
		ap = netip.AddrPortFrom(ap.Addr(), 5300)
	}
	s := &Sock{k: k, idx: len(k.Socks), local: ap, wake: make(chan struct{}, 1)}
	k.Socks = append(k.Socks, s)
	return s, nil
}

// Deliver queues a datagram on socket idx (the harness plays the kernel's reuseport hash).
func (k *Kernel) Deliver(idx int, from netip.AddrPort, data []byte) bool {
	k.mu.Lock()
	if idx >= len(k.Socks) {
		k.mu.Unlock()
		return false
	}
	s := k.Socks[idx]
	limit := k.RcvBuf
	if limit == 0 {
		limit = 256
	}
	if s.closed || len(s.q) >= limit {
		k.KernelDrops++
		k.mu.Unlock()
		return false
	}
	s.q = append(s.q, verifsrvnet.Datagram{From: from, Data: append([]byte(nil), data...)})
	k.mu.Unlock()
	select {
	case s.wake <- struct{}{}:
	default:
	}
	return true
}

type Sock struct {
	k        *Kernel
	idx      int
	local    netip.AddrPort
	q        []verifsrvnet.Datagram
	deadline time.Time
	closed   bool
	wake     chan struct{}
}

func (s *Sock) LocalAddr() netip.AddrPort { return s.local }
func (s *Sock) RawConnOK() bool           { return !s.k.NoRawConn }

func (s *Sock) TryRecv(max int, batch bool) ([]verifsrvnet.Datagram, syscall.Errno) {
	s.k.mu.Lock()
	defer s.k.mu.Unlock()
	if s.closed {
		return nil, syscall.EBADF
	}
	if batch && s.k.RecvmmsgErr != 0 && time.Since(s.k.start) >= s.k.RecvmmsgErrFrom {
		return nil, s.k.RecvmmsgErr
	}
	n := len(s.q)
	if n > max {
		n = max
	}
	if n == 0 {
		return nil, 0
	}
	out := append([]verifsrvnet.Datagram(nil), s.q[:n]...)
	s.q = append(s.q[:0], s.q[n:]...)
	if batch {
		s.k.BatchRecv++
		if n > s.k.MaxBatch {
			s.k.MaxBatch = n
		}
	} else {
		s.k.SingleRecv++
	}
	return out, 0
}

// Pending is the non-consuming look at the receive queue.
func (s *Sock) Pending() (int, syscall.Errno) {
	s.k.mu.Lock()
	defer s.k.mu.Unlock()
	if s.closed {
		return 0, syscall.EBADF
	}
	s.k.Peeks++
	return len(s.q), 0
}

func (s *Sock) WaitReadable() error {
	for {
		s.k.mu.Lock()
		if s.closed {
			s.k.mu.Unlock()
			return net.ErrClosed
		}
		if len(s.q) > 0 {
			s.k.mu.Unlock()
			return nil
		}
		dl := s.deadline
		s.k.mu.Unlock()
		if !dl.IsZero() {
			d := time.Until(dl)
			if d <= 0 {
				return os.ErrDeadlineExceeded
			}
			t := time.NewTimer(d)
			select {
			case <-s.wake:
				t.Stop()
			case <-t.C:
			}
			continue
		}
		<-s.wake
	}
}

func (s *Sock) Send(to netip.AddrPort, b []byte, batch bool) syscall.Errno {
	s.k.mu.Lock()
	if s.closed {
		s.k.mu.Unlock()
		return syscall.EBADF
	}
	if s.k.PoisonDest[to] {
		s.k.mu.Unlock()
		return syscall.EPERM
	}
	rec := Sent{At: time.Since(s.k.start), Sock: s.idx, To: to, Data: append([]byte(nil), b...), Batch: batch}
	s.k.Out = append(s.k.Out, rec)
	if batch {
		s.k.BatchSends++
	} else {
		s.k.DirectSends++
	}
	cb := s.k.OnSend
	s.k.mu.Unlock()
	if cb != nil {
		cb(rec)
	}
	return 0
}

func (s *Sock) BatchSendLimit(n int) (int, syscall.Errno) {
	s.k.mu.Lock()
	defer s.k.mu.Unlock()
	if s.k.SendmmsgErr != 0 {
		return 0, s.k.SendmmsgErr
	}
	if s.k.PartialSend > 0 && s.k.PartialSend < n {
		return s.k.PartialSend, 0
	}
	return n, 0
}

func (s *Sock) SetReadDeadline(t time.Time) {
	s.k.mu.Lock()
	s.deadline = t
	s.k.mu.Unlock()
	select {
	case s.wake <- struct{}{}:
	default:
	}
}

func (s *Sock) Close() error {
	s.k.mu.Lock()
	s.closed = true
	s.k.mu.Unlock()
	select {
	case s.wake <- struct{}{}:
	default:
	}
	return nil
}
