module verifsim

go 1.26.0

require (
	github.com/anishathalye/porcupine v1.3.0
	github.com/miekg/dns v1.1.72
	github.com/semihalev/sdns v0.0.0
	github.com/semihalev/zlog/v2 v2.0.8
)

require (
	github.com/BurntSushi/toml v1.6.0 // indirect
	github.com/beorn7/perks v1.0.1 // indirect
	github.com/cespare/xxhash/v2 v2.3.0 // indirect
	github.com/munnerz/goautoneg v0.0.0-20191010083416-a7dc8b61c822 // indirect
	github.com/prometheus/client_golang v1.24.1 // indirect
	github.com/prometheus/client_model v0.6.2 // indirect
	github.com/prometheus/common v0.70.1 // indirect
	github.com/prometheus/procfs v0.21.1 // indirect
	golang.org/x/net v0.57.0 // indirect
	golang.org/x/sync v0.22.0 // indirect
	golang.org/x/sys v0.47.0 // indirect
	google.golang.org/protobuf v1.36.12-0.20260120151049-f2248ac996af // indirect
)

replace github.com/semihalev/sdns => /repo
