module verifsim

go 1.26.0

require (
	github.com/anishathalye/porcupine v1.3.0
	github.com/miekg/dns v1.1.72
	github.com/semihalev/sdns v0.0.0
	github.com/semihalev/zlog/v2 v2.0.8
)

require (
	github.com/BurntSushi/toml v1.6.0 // indirect
	github.com/beorn7/perks v1.0.1 // indirect
	github.com/cespare/xxhash/v2 v2.3.0 // indirect
	github.com/davecgh/go-spew v1.1.2-0.20180830191138-d8f796af33cc // indirect
	github.com/emicklei/go-restful/v3 v3.13.0 // indirect
	github.com/fsnotify/fsnotify v1.10.1 // indirect
	github.com/fxamacker/cbor/v2 v2.9.1 // indirect
	github.com/go-logr/logr v1.4.3 // indirect
	github.com/go-openapi/jsonpointer v0.23.1 // indirect
	github.com/go-openapi/jsonreference v0.21.5 // indirect
	github.com/go-openapi/swag v0.26.0 // indirect
	github.com/go-openapi/swag/cmdutils v0.26.0 // indirect
	github.com/go-openapi/swag/conv v0.26.0 // indirect
	github.com/go-openapi/swag/fileutils v0.26.0 // indirect
	github.com/go-openapi/swag/jsonname v0.26.0 // indirect
	github.com/go-openapi/swag/jsonutils v0.26.0 // indirect
	github.com/go-openapi/swag/loading v0.26.0 // indirect
	github.com/go-openapi/swag/mangling v0.26.0 // indirect
	github.com/go-openapi/swag/netutils v0.26.0 // indirect
	github.com/go-openapi/swag/stringutils v0.26.0 // indirect
	github.com/go-openapi/swag/typeutils v0.26.0 // indirect
	github.com/go-openapi/swag/yamlutils v0.26.0 // indirect
	github.com/google/gnostic-models v0.7.1 // indirect
	github.com/google/uuid v1.6.0 // indirect
	github.com/json-iterator/go v1.1.12 // indirect
	github.com/modern-go/concurrent v0.0.0-20180306012644-bacd9c7ef1dd // indirect
	github.com/modern-go/reflect2 v1.0.3-0.20250322232337-35a7c28c31ee // indirect
	github.com/munnerz/goautoneg v0.0.0-20191010083416-a7dc8b61c822 // indirect
	github.com/pmezard/go-difflib v1.0.1-0.20181226105442-5d4384ee4fb2 // indirect
	github.com/prometheus/client_golang v1.24.1 // indirect
	github.com/prometheus/client_model v0.6.2 // indirect
	github.com/prometheus/common v0.70.1 // indirect
	github.com/prometheus/procfs v0.21.1 // indirect
	github.com/quic-go/qpack v0.6.0 // indirect
	github.com/quic-go/quic-go v0.61.0 // indirect
	github.com/spf13/pflag v1.0.10 // indirect
	github.com/x448/float16 v0.8.4 // indirect
	go.yaml.in/yaml/v2 v2.4.4 // indirect
	go.yaml.in/yaml/v3 v3.0.4 // indirect
	golang.org/x/crypto v0.54.0 // indirect
	golang.org/x/net v0.57.0 // indirect
	golang.org/x/oauth2 v0.36.0 // indirect
	golang.org/x/sync v0.22.0 // indirect
	golang.org/x/sys v0.47.0 // indirect
	golang.org/x/term v0.45.0 // indirect
	golang.org/x/text v0.40.0 // indirect
	golang.org/x/time v0.15.0 // indirect
	google.golang.org/protobuf v1.36.12-0.20260120151049-f2248ac996af // indirect
	gopkg.in/evanphx/json-patch.v4 v4.13.0 // indirect
	gopkg.in/inf.v0 v0.9.1 // indirect
	k8s.io/api v0.36.3 // indirect
	k8s.io/apimachinery v0.36.3 // indirect
	k8s.io/client-go v0.36.3 // indirect
	k8s.io/klog/v2 v2.140.0 // indirect
	k8s.io/kube-openapi v0.0.0-20260414162039-ec9c827d403f // indirect
	k8s.io/utils v0.0.0-20260319190234-28399d86e0b5 // indirect
	sigs.k8s.io/json v0.0.0-20250730193827-2d320260d730 // indirect
	sigs.k8s.io/randfill v1.0.0 // indirect
	sigs.k8s.io/structured-merge-diff/v6 v6.4.0 // indirect
	sigs.k8s.io/yaml v1.6.0 // indirect
)

replace github.com/semihalev/sdns => /repo
