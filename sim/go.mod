module verifsim

go 1.26.0

require (
	github.com/anishathalye/porcupine v1.3.0
	github.com/miekg/dns v1.1.72
	github.com/semihalev/sdns v0.0.0
)

require (
	github.com/cespare/xxhash/v2 v2.3.0 // indirect
	golang.org/x/net v0.57.0 // indirect
	golang.org/x/sys v0.47.0 // indirect
)

replace github.com/semihalev/sdns => /repo
