package props

import (
	"os"
	"strings"
	"testing"

	"verifsim/kit"
)

// TestFaultFree runs C01 scenarios with all tampering removed and reports SERVFAILs:
// with zero faults the reply must equal ground truth (DESIGN §6.2).
func TestFaultFree(t *testing.T) {
	if os.Getenv("VERIF_FF") == "" {
		t.Skip()
	}
	kit.T = t
	p := kit.Lookup("C01")
	n := 0
	for i := 0; i < 300; i++ {
		sc := p.Gen(kit.NewRNG(kit.ScenarioSeed(7, "C01", i)), "quick").(*C01Scenario)
		sc.Tampers = nil
		if sc.World.Cfg.NoAnchor {
			continue
		}
		tr := &kit.Trace{Keep: true}
		res := p.Run(sc, tr)
		tr.Hash()
		if res.Viol != nil {
			t.Logf("scenario %d: VIOLATION %v", i, res.Viol)
		}
		for _, l := range tr.Lines {
			if strings.Contains(l, "-> SERVFAIL") {
				n++
				if n < 25 {
					t.Logf("scenario %d: %s", i, l)
				}
			}
		}
	}
	t.Logf("fault-free SERVFAILs: %d", n)
}

func TestDumpScenario(t *testing.T) {
	id := os.Getenv("VERIF_DUMP")
	if id == "" {
		t.Skip()
	}
	kit.T = t
	p := kit.Lookup(id)
	i := kit.EnvInt("VERIF_DUMP_I", 0)
	sc := p.Gen(kit.NewRNG(kit.ScenarioSeed(uint64(kit.EnvInt("VERIF_DUMP_SEED", 7)), id, i)), "quick")
	if c, ok := sc.(*C01Scenario); ok && os.Getenv("VERIF_DUMP_NOTAMPER") != "" {
		c.Tampers = nil
	}
	kit.WriteReplay(p, sc, os.Getenv("VERIF_DUMP_OUT"))
}

// TestRepeat runs scenario VERIF_DUMP_I of property VERIF_REPEAT several times in this
// process and prints the first trace line that differs between runs.
func TestRepeat(t *testing.T) {
	id := os.Getenv("VERIF_REPEAT")
	if id == "" {
		t.Skip()
	}
	kit.T = t
	p := kit.Lookup(id)
	if p.Warmup {
		kit.Run(p, p.WarmupScenario(), &kit.Trace{})
	}
	for i := kit.EnvInt("VERIF_DUMP_I", 0); i < kit.EnvInt("VERIF_DUMP_I", 0)+kit.EnvInt("VERIF_REPEAT_N", 10); i++ {
		var ref []string
		for rep := 0; rep < 4; rep++ {
			sc := p.Gen(kit.NewRNG(kit.ScenarioSeed(1, id, i)), "quick")
			tr := &kit.Trace{Keep: true}
			kit.Run(p, sc, tr)
			tr.Hash()
			if ref == nil {
				ref = tr.Lines
				continue
			}
			for k := 0; k < len(ref) || k < len(tr.Lines); k++ {
				a, b := "<none>", "<none>"
				if k < len(ref) {
					a = ref[k]
				}
				if k < len(tr.Lines) {
					b = tr.Lines[k]
				}
				if a != b {
					t.Logf("scenario %d rep %d line %d:\n  A: %s\n  B: %s", i, rep, k, a, b)
					break
				}
			}
		}
	}
}
