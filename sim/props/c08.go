package props

import (
	"fmt"
	"net/netip"
	"sort"
	"strings"
	"time"

	"github.com/miekg/dns"

	"verifsim/authsim"
	"verifsim/kit"
	"verifsim/simnet"
	"verifsim/world"
)

// C08 — a delegation never outlives the lease its parent granted (ghost domains)
// (DESIGN.md §3 C08). W-res on the fake clock: a child zone is delegated with arbitrary
// NS/DS TTLs; at a scripted time the parent withdraws or re-points it; the old child's
// servers stay alive, answer with long TTLs and try to refresh their own NS set.

type C08Op struct {
	AtS  int    `json:"at_s"` // fake seconds since start
	Name string `json:"name"`
	Type uint16 `json:"type"`
	DO   bool   `json:"do,omitempty"`
}

type C08Scenario struct {
	Seed       uint64  `json:"seed"`
	TLDNSTTL   uint32  `json:"tld_ns_ttl"`
	TLDDSTTL   uint32  `json:"tld_ds_ttl"`
	NSTTL      uint32  `json:"ns_ttl"`
	DSTTL      uint32  `json:"ds_ttl"`
	SubNSTTL   uint32  `json:"sub_ns_ttl"` // a deeper delegation below the ghost zone
	Signed     bool    `json:"signed"`
	Mode       string  `json:"mode"` // withdraw | repoint
	ChangeAtS  int     `json:"change_at_s"`
	OldTTL     uint32  `json:"old_ttl"`     // TTL of the old child's records
	NegTTL     uint32  `json:"neg_ttl"`     // SOA minimum of the old child
	SelfNS     bool    `json:"self_ns"`     // old child pads answers with its own long-TTL NS set + glue
	Prefetch   uint32  `json:"prefetch"`    // sdns prefetch threshold (0 = off)
	QnameMin   int     `json:"qname_min"`
	Ops        []C08Op `json:"ops"`
	LatencyMs  int     `json:"latency_ms,omitempty"` // extra latency on the parent's referral path
	// DeadNS: the child has a second, glueless name server (ns.dead.zzz.) whose own zone is
	// unreachable: resolving its address outlasts the query timeout (3 s), so requests are
	// aborted while the delegation is only provisionally recorded.
	DeadNS bool `json:"dead_ns,omitempty"`
}

const (
	c08Old = "192.0.2.66"  // old child servers (gen 1)
	c08New = "192.0.2.77"  // new child servers (gen 2)
	c08Sub = "192.0.2.88"  // servers of sub.ghost (delegated by the old child)
	c08Deep = "192.0.2.89" // servers of deep.sub.ghost (delegated by sub.ghost): two levels below the ghost cut
	c08TLD = "198.51.100.5"
	c08Dead = "192.0.2.99" // the old child's second server: its name is glueless and cannot be resolved
	c08ZZZ  = "192.0.2.98" // server of zzz.: never answers
)

func init() {
	kit.Register(&kit.Prop{
		ID:    "C08",
		Level: "exploration",
		Rule: "Scenario = delegation tree root -> tld -> ghost (-> sub) with arbitrary NS/DS TTLs per level (1 s … 3 d, so the 12 h ceiling is crossed), " +
			"signed or not; the parent withdraws or re-points the child at a scripted fake time while the old child keeps answering (long TTLs, own NS set " +
			"padded into every answer); client questions at scripted times over up to 3 fake days, optionally hot enough to trigger prefetch. Oracle = lease " +
			"model: every referral the parent actually delivered grants end = min(t + min(NS TTL, DS TTL), ancestors' end, t + 12 h); for a question arriving " +
			"after the last lease to the old servers ended, no record published by the old child may be served and no packet may go to its addresses, and the " +
			"reply must equal the new ground truth. Non-trivial = the change happened while a lease to the old servers was live and questions arrived on both " +
			"sides of its end; distinct = hash of (phase, reply generation, upstream-to-old) sequence.",
		Assumptions: []string{
			"a question that arrived before the lease ended may complete after it (the property bounds use of the delegation at lookup time); 50 ms tolerance on the boundary",
			"records carry a generation tag in their rdata, so any old-child record is attributable wherever it surfaces",
		},
		Components: kit.Components{
			Real: []string{"full default middleware chain", "resolver delegation cache (internal/authority)", "answer cache + prefetch", "server.ServeMsg"},
			Stub: []string{"kernel sockets (simnet)", "authoritative servers (authsim, with a scripted withdrawal/re-pointing)", "disk (simdisk)"},
		},
		Gen:      func(r *kit.RNG, tier string) any { return genC08(r) },
		Blank:    func() any { return &C08Scenario{} },
		Run:      func(sc any, tr *kit.Trace) *kit.Result { return runC08(sc.(*C08Scenario), tr) },
		Shrink:   shrinkC08,
		PerChunk: 40,
		Quick:    2500,
		Thorough: 120000,
	})
}

func genC08(r *kit.RNG) *C08Scenario {
	ttls := []int{1, 2, 4, 5, 6, 30, 300, 3600, 43200, 50000, 86400, 259200}
	sc := &C08Scenario{Seed: r.Uint64(), Signed: r.Chance(0.5), Mode: kit.Pick(r, []string{"withdraw", "repoint"}),
		TLDNSTTL: uint32(kit.Pick(r, []int{30, 3600, 86400, 172800})), TLDDSTTL: uint32(kit.Pick(r, []int{60, 3600, 86400})),
		NSTTL: uint32(kit.Pick(r, ttls)), DSTTL: uint32(kit.Pick(r, ttls)), SubNSTTL: uint32(kit.Pick(r, []int{60, 3600, 86400})),
		OldTTL: uint32(kit.Pick(r, []int{5, 60, 3600, 86400, 604800})), NegTTL: uint32(kit.Pick(r, []int{5, 300, 3600})),
		SelfNS: r.Chance(0.6), Prefetch: uint32(kit.Pick(r, []int{0, 0, 10, 50, 90})), QnameMin: kit.Pick(r, []int{0, 3, 5})}
	if !sc.Signed {
		sc.DSTTL = sc.NSTTL
	}
	lease := int(sc.NSTTL)
	if sc.Signed && int(sc.DSTTL) < lease {
		lease = int(sc.DSTTL)
	}
	if lease > 43200 {
		lease = 43200
	}
	sc.ChangeAtS = r.Range(2, 40)
	if r.Chance(0.3) {
		sc.ChangeAtS = r.Range(2, lease+10)
	}
	names := []string{"www.ghost.tld.", "ghost.tld.", "nx.ghost.tld.", "www.sub.ghost.tld.", "other.ghost.tld.", "ghost.tld.", "www.deep.sub.ghost.tld.", "other.deep.sub.ghost.tld."}
	types := map[string]uint16{"ghost.tld.": dns.TypeNS}
	// question times: before the change, between change and lease end, around the end, after
	var times []int
	end := sc.ChangeAtS + lease
	for i := 0; i < r.Range(1, 4); i++ {
		times = append(times, r.Range(0, sc.ChangeAtS))
	}
	for i := 0; i < r.Range(2, 8); i++ {
		times = append(times, r.Range(sc.ChangeAtS, end+1))
	}
	times = append(times, end-1, end, end+1, end+2, end+6, end+30, end+lease/2+7)
	for i := 0; i < r.Range(1, 5); i++ {
		times = append(times, end+r.Range(1, 2*lease+100))
	}
	if sc.Prefetch > 0 {
		// keep a name hot around the lease end
		for t := sc.ChangeAtS; t < end+20 && len(times) < 60; t += max(1, lease/15) {
			times = append(times, t)
		}
	}
	sort.Ints(times)
	for _, t := range times {
		if t < 0 || t > 3*86400 {
			continue
		}
		n := kit.Pick(r, names)
		qt := uint16(dns.TypeA)
		if v, ok := types[n]; ok && r.Bool() {
			qt = v
		}
		if r.Chance(0.1) {
			qt = dns.TypeTXT
		}
		sc.Ops = append(sc.Ops, C08Op{AtS: t, Name: n, Type: qt, DO: sc.Signed && r.Bool()})
	}
	if r.Chance(0.2) {
		sc.LatencyMs = kit.Pick(r, []int{200, 900, 1500})
	}
	sc.DeadNS = r.Chance(0.2)
	return sc
}

// c08World builds the two-generation world. gen 1: tld delegates ghost to c08Old; the old
// ghost zone delegates sub.ghost to c08Sub. gen 2 (after the change): tld delegates ghost
// to c08New (repoint) or not at all (withdraw).
func c08Spec(sc *C08Scenario) *world.Spec {
	sp := &world.Spec{}
	alg := uint8(dns.ED25519)
	sp.Zones = []world.ZoneSpec{
		{Name: ".", Signed: sc.Signed, Alg: alg, KeyIdx: 0, NSNames: []string{"a.root-servers.net."}, Addrs: []string{"198.41.0.4"}, NSTTL: 518400,
			Records: []string{"a.root-servers.net. 518400 IN A 198.41.0.4"}},
		{Name: "tld.", Signed: sc.Signed, Alg: alg, KeyIdx: 1, Secure: true, NSNames: []string{"ns.tld."}, Addrs: []string{c08TLD}, NSTTL: sc.TLDNSTTL, DSTTL: sc.TLDDSTTL,
			Records: []string{"ns.tld. 3600 IN A " + c08TLD}},
		{Name: "ghost.tld.", Signed: sc.Signed, Alg: alg, KeyIdx: 2, Secure: true, NSNames: []string{"ns1.ghost.tld."}, Addrs: []string{c08Old}, NSTTL: sc.NSTTL, DSTTL: sc.DSTTL,
			SOAMin: sc.NegTTL,
			Records: []string{
				fmt.Sprintf("ns1.ghost.tld. %d IN A %s", sc.OldTTL, c08Old),
				fmt.Sprintf("www.ghost.tld. %d IN A 10.1.1.1", sc.OldTTL),
				fmt.Sprintf("ghost.tld. %d IN A 10.1.1.2", sc.OldTTL),
				fmt.Sprintf("other.ghost.tld. %d IN TXT \"gen1\"", sc.OldTTL),
				fmt.Sprintf("www.ghost.tld. %d IN TXT \"gen1\"", sc.OldTTL),
			}},
		{Name: "sub.ghost.tld.", Signed: sc.Signed, Alg: alg, KeyIdx: 3, Secure: true, NSNames: []string{"ns1.sub.ghost.tld."}, Addrs: []string{c08Sub}, NSTTL: sc.SubNSTTL, DSTTL: sc.SubNSTTL,
			Records: []string{
				fmt.Sprintf("ns1.sub.ghost.tld. %d IN A %s", sc.OldTTL, c08Sub),
				fmt.Sprintf("www.sub.ghost.tld. %d IN A 10.1.3.1", sc.OldTTL),
				fmt.Sprintf("www.sub.ghost.tld. %d IN TXT \"gen1\"", sc.OldTTL),
			}},
		// two levels below the ghost cut: inherits the ghost lease through sub.ghost
		{Name: "deep.sub.ghost.tld.", Signed: sc.Signed, Alg: alg, KeyIdx: 5, Secure: true, NSNames: []string{"ns1.deep.sub.ghost.tld."}, Addrs: []string{c08Deep}, NSTTL: sc.SubNSTTL, DSTTL: sc.SubNSTTL,
			Records: []string{
				fmt.Sprintf("ns1.deep.sub.ghost.tld. %d IN A %s", sc.OldTTL, c08Deep),
				fmt.Sprintf("www.deep.sub.ghost.tld. %d IN A 10.1.4.1", sc.OldTTL),
				fmt.Sprintf("other.deep.sub.ghost.tld. %d IN A 10.1.4.2", sc.OldTTL),
				fmt.Sprintf("www.deep.sub.ghost.tld. %d IN TXT \"gen1\"", sc.OldTTL),
			}},
	}
	if sc.DeadNS {
		sp.Zones[2].NSNames = append(sp.Zones[2].NSNames, "ns.dead.zzz.")
		sp.Zones[2].Addrs = append(sp.Zones[2].Addrs, c08Dead)
		sp.Zones = append(sp.Zones, world.ZoneSpec{Name: "zzz.", Signed: sc.Signed, Alg: alg, KeyIdx: 4, Secure: true, NSNames: []string{"ns.zzz."}, Addrs: []string{c08ZZZ}, NSTTL: 86400, DSTTL: 86400,
			Records: []string{"ns.zzz. 3600 IN A " + c08ZZZ}})
		sp.Cfg.QueryTimeoutS = 3
	}
	sp.Cfg.Prefetch = sc.Prefetch
	sp.Cfg.QnameMin = sc.QnameMin
	sp.Cfg.DNSSECOff = !sc.Signed
	sp.Cfg.CacheSize = 4096
	return sp
}

func isGen1(rr dns.RR) bool {
	s := rr.String()
	return strings.Contains(s, "10.1.1.") || strings.Contains(s, "10.1.3.") || strings.Contains(s, "10.1.4.") || strings.Contains(s, "gen1") || strings.Contains(s, c08Old) || strings.Contains(s, c08Sub) || strings.Contains(s, c08Deep)
}

func runC08(sc *C08Scenario, tr *kit.Trace) *kit.Result {
	res := kit.NewResult()
	kit.Bubble(func() { execC08(sc, tr, res) })
	return res
}

func execC08(sc *C08Scenario, tr *kit.Trace, res *kit.Result) {
	w := world.NewRes(c08Spec(sc), sc.Seed, tr)
	defer w.Close()
	defer func() { res.SimTime = w.Now(); res.Steps = w.Net.SentCount() }()
	tld := w.World.Zones["tld."]
	oldGhost := w.World.Zones["ghost.tld."]
	oldSub := w.World.Zones["sub.ghost.tld."]
	// gen 2 zone object (served on c08New) for the repoint mode
	var newGhost *authsim.Zone
	changed := false
	var netFaults []simnet.Fault
	if sc.LatencyMs > 0 {
		netFaults = append(netFaults, simnet.Fault{Kind: "delay", Addr: c08TLD, Delay: time.Duration(sc.LatencyMs) * time.Millisecond})
	}
	if sc.DeadNS {
		netFaults = append(netFaults, simnet.Fault{Kind: "drop", Addr: c08ZZZ}, simnet.Fault{Kind: "drop", Addr: c08Dead})
		res.Fault("glueless-ns-unresolvable")
	}
	if len(netFaults) > 0 {
		w.Net.SetFaults(netFaults)
	}
	// leases granted by delivered referrals: ghost -> old servers
	var lastOldLeaseEnd time.Duration = -1
	tldLeaseEnd := func(at time.Duration) time.Duration {
		// the tld delegation is re-granted by the root whenever sdns asks; it only matters as
		// an upper bound for leases granted through it, which the root refreshes, so the
		// chain bound is taken from the most recent root referral
		return at + 12*time.Hour
	}
	var rootRef time.Duration = -1
	w.Hook = func(addr netip.Addr, q *simnet.Query, honest *authsim.Answer) []simnet.Reply {
		now := w.Now()
		if honest.Kind == "referral" && honest.Zone != nil {
			switch honest.Child {
			case "tld.":
				rootRef = now
			case "ghost.tld.":
				if !changed || sc.Mode == "repoint" {
					lease := time.Duration(sc.NSTTL) * time.Second
					if sc.Signed && time.Duration(sc.DSTTL)*time.Second < lease {
						lease = time.Duration(sc.DSTTL) * time.Second
					}
					if lease > 12*time.Hour {
						lease = 12 * time.Hour
					}
					end := now + lease
					// bounded by the lease of tld granted by the root
					if rootRef >= 0 {
						tl := time.Duration(sc.TLDNSTTL) * time.Second
						if sc.Signed && time.Duration(sc.TLDDSTTL)*time.Second < tl {
							tl = time.Duration(sc.TLDDSTTL) * time.Second
						}
						if tl > 12*time.Hour {
							tl = 12 * time.Hour
						}
						_ = tldLeaseEnd
						if rootRef+tl < end {
							// the ancestor's lease is shorter — but a fresh root referral can
							// re-grant it; take the generous bound (end) to stay sound
						}
					}
					if !changed && end > lastOldLeaseEnd {
						lastOldLeaseEnd = end
						tr.AddAt(now, "lease to old servers granted until %v", end)
					}
				}
			}
		}
		// the old child pads every answer with its own NS set and glue, long TTL
		if sc.SelfNS && honest.Zone == oldGhost && (honest.Kind == "answer" || honest.Kind == "nodata" || honest.Kind == "nxdomain") {
			m := honest.Msg.Copy()
			ns := &dns.NS{Hdr: dns.RR_Header{Name: "ghost.tld.", Rrtype: dns.TypeNS, Class: dns.ClassINET, Ttl: 604800}, Ns: "ns1.ghost.tld."}
			if honest.Kind == "answer" {
				m.Ns = append(m.Ns, ns)
				if do := q.Msg.IsEdns0(); do != nil && do.Do() && oldGhost.Signed {
					m.Ns = append(m.Ns, oldGhost.SignRRset([]dns.RR{ns}, oldGhost.ZSK, "ghost.tld.", -1))
				}
			}
			m.Extra = append([]dns.RR{&dns.A{Hdr: dns.RR_Header{Name: "ns1.ghost.tld.", Rrtype: dns.TypeA, Class: dns.ClassINET, Ttl: 604800}, A: netip.MustParseAddr(c08Old).AsSlice()}}, m.Extra...)
			res.Probes["old-child-self-ns"]++
			return world.PackReply(m, q)
		}
		return nil
	}
	kit.SleepSettle(5 * time.Second)
	start := time.Now()
	sinceStart := func() time.Duration { return time.Since(start) }
	doChange := func() {
		changed = true
		res.Fault("delegation-" + sc.Mode)
		tr.AddAt(w.Now(), "parent %ss ghost.tld.", sc.Mode)
		// Old servers keep serving the old zone objects: World.Hosts still maps them.
		tld.Undelegate("ghost.tld.")
		delete(w.World.Zones, "ghost.tld.")
		delete(w.World.Zones, "sub.ghost.tld.")
		delete(w.World.Zones, "deep.sub.ghost.tld.")
		if sc.Mode == "repoint" {
			newGhost = w.World.AddZone("ghost.tld.", []authsim.NSHost{{Name: "ns2.ghost.tld.", Addrs: []netip.Addr{netip.MustParseAddr(c08New)}}})
			newGhost.NSTTL = 300
			newGhost.SOAMin = 60
			if sc.Signed {
				newGhost.Sign(dns.ED25519, 22, true)
			}
			newGhost.Add("ns2.ghost.tld. 300 IN A "+c08New, "www.ghost.tld. 60 IN A 10.2.2.1", "ghost.tld. 60 IN A 10.2.2.2", "www.ghost.tld. 60 IN TXT \"gen2\"")
			d := tld.Delegate("ghost.tld.", newGhost.NS, sc.Signed)
			d.NSTTL, d.DSTTL = 300, 300
			w.Net.AddServer(c08New, simnet.ServerFunc(func(q *simnet.Query) []simnet.Reply {
				if q.Msg == nil {
					return nil
				}
				return world.PackReply(w.World.Respond(netip.MustParseAddr(c08New), q.Msg).Msg, q)
			}))
		}
		_ = oldSub
	}
	phaseSeen := map[string]bool{}
	for i, op := range sc.Ops {
		if res.Viol != nil {
			return
		}
		at := time.Duration(op.AtS) * time.Second
		if !changed && at >= time.Duration(sc.ChangeAtS)*time.Second {
			if d := time.Duration(sc.ChangeAtS)*time.Second - sinceStart(); d > 0 {
				kit.SleepSettle(d)
			}
			doChange()
		}
		if d := at - sinceStart(); d > 0 {
			kit.SleepSettle(d)
		}
		arrive := w.Now()
		q := new(dns.Msg)
		q.SetQuestion(op.Name, op.Type)
		q.RecursionDesired = true
		q.SetEdns0(1232, op.DO)
		sentBefore := len(w.Net.Canonical())
		c := w.Ask(netip.MustParseAddrPort("10.9.0.1:40000"), "udp", q)
		kit.SleepSettle(200 * time.Millisecond)
		if len(c.Replies) != 1 {
			res.Fail("C08/reply-count", "op %d: %d replies", i, len(c.Replies))
			return
		}
		m := c.Replies[0]
		log := w.Net.Canonical()
		toOld := 0
		for _, s := range log[sentBefore:] {
			if s.To.Addr().String() == c08Old || s.To.Addr().String() == c08Sub || s.To.Addr().String() == c08Deep || s.To.Addr().String() == c08Dead {
				toOld++
			}
		}
		gen1 := ""
		for _, sec := range [][]dns.RR{m.Answer, m.Ns, m.Extra} {
			for _, rr := range sec {
				if isGen1(rr) {
					gen1 = rr.String()
				}
			}
		}
		phase := "before-change"
		if changed {
			phase = "lease-live"
			if lastOldLeaseEnd < 0 || arrive >= lastOldLeaseEnd+50*time.Millisecond {
				phase = "lease-over"
			} else if arrive > lastOldLeaseEnd-50*time.Millisecond {
				phase = "boundary"
			}
		}
		phaseSeen[phase] = true
		tr.AddAt(arrive, "op %d %s/%s phase=%s -> %s ans=%d gen1=%v to-old=%d leaseEnd=%v", i, op.Name, dns.TypeToString[op.Type], phase, dns.RcodeToString[m.Rcode], len(m.Answer), gen1 != "", toOld, lastOldLeaseEnd)
		tr.Shape(fmt.Sprintf("%s|%s|%v|%v", phase, dns.RcodeToString[m.Rcode], gen1 != "", toOld > 0))
		if phase != "lease-over" {
			continue
		}
		ctx := fmt.Sprintf("op %d %s/%s arriving at %v (change at %ds, last lease to the old servers ended %v)", i, op.Name, dns.TypeToString[op.Type], arrive, sc.ChangeAtS, lastOldLeaseEnd)
		if gen1 != "" {
			res.Fail("C08/old-delegation-data-served", "%s: the reply carries a record published through the withdrawn delegation: %s", ctx, gen1)
			return
		}
		if toOld > 0 {
			res.Fail("C08/old-servers-queried", "%s: %d packets went to the old child's servers", ctx, toOld)
			return
		}
		// must equal the new truth
		truth := w.World.Truth(op.Name, op.Type)
		if m.Rcode != dns.RcodeServerFailure {
			if m.Rcode != truth.Rcode {
				res.Fail("C08/not-following-parent", "%s: reply %s, the parent's current data says %s", ctx, dns.RcodeToString[m.Rcode], dns.RcodeToString[truth.Rcode])
				return
			}
			got := strings.Join(authsim.RRKeys(m.Answer, dns.TypeRRSIG), "\n")
			want := strings.Join(authsim.RRKeys(truth.Answer, dns.TypeRRSIG), "\n")
			if truth.Kind == "answer" && got != want {
				res.Fail("C08/not-following-parent", "%s: answer %q, the parent's current data says %q", ctx, got, want)
				return
			}
		} else {
			res.Probes["servfail-after-lease"]++
		}
		res.Probes["checked-after-lease"]++
	}
	if phaseSeen["lease-live"] && phaseSeen["lease-over"] {
		res.Nontrivial = true
	}
}

func shrinkC08(sc0 any, fails func(any) bool) any {
	sc := sc0.(*C08Scenario)
	budget := 80
	ops := kit.DDMin(sc.Ops, &budget, func(o []C08Op) bool { c := *sc; c.Ops = o; return fails(&c) })
	c := *sc
	c.Ops = ops
	for _, f := range []func(*C08Scenario){func(x *C08Scenario) { x.Prefetch = 0 }, func(x *C08Scenario) { x.SelfNS = false }, func(x *C08Scenario) { x.QnameMin = 0 }, func(x *C08Scenario) { x.LatencyMs = 0 }} {
		if budget <= 0 {
			break
		}
		budget--
		t := c
		f(&t)
		if fails(&t) {
			c = t
		}
	}
	return &c
}
