package props

import (
	"os"
	"fmt"
	"net/netip"
	"sort"
	"strings"
	"time"

	"github.com/miekg/dns"
	"github.com/semihalev/sdns/config"
	"github.com/semihalev/sdns/middleware"
	"github.com/semihalev/sdns/middleware/resolver"
	"github.com/semihalev/sdns/verifx/verifnet"
	"github.com/semihalev/sdns/verifx/verifos"

	"verifsim/authsim"
	"verifsim/kit"
	"verifsim/simdisk"
	"verifsim/simnet"
)

// C09 — root trust anchors change only as RFC 5011 permits, across crashes and faults
// (DESIGN.md §3 C09). World W-ta: the real Resolver (its own run() goroutine primes and
// calls AutoTA at start and every 12 h of fake time) against a scripted, signing root on
// the simulated network, with its two state files on the simulated disk.

type C09Key struct {
	Alg uint8 `json:"alg"`
	Idx int   `json:"idx"`
}

// C09Pub is the root's DNSKEY publication from AtMin on.
type C09Pub struct {
	AtMin   int    `json:"at_min"`
	Keys    []int  `json:"keys,omitempty"`    // published, REVOKE clear
	Revoked []int  `json:"revoked,omitempty"` // published with REVOKE set
	Signers []int  `json:"signers,omitempty"` // keys whose RRSIG covers the set (in published form)
	Forge   string `json:"forge,omitempty"`   // "" | badsig | nosig
}

type C09Restart struct {
	AtMin         int    `json:"at_min"`
	Config        []int  `json:"config,omitempty"`
	ConfigRevoked []int  `json:"config_revoked,omitempty"` // listed in config with the REVOKE bit
	Persist       string `json:"persist,omitempty"`        // what a non-crash restart flushes: keep|lose|torn
}

type C09DiskEvent struct {
	AtMin int    `json:"at_min"`
	Kind  string `json:"kind"` // ro-on ro-off tomb-unreadable-on tomb-unreadable-off tomb-corrupt-on tomb-corrupt-off
}

type C09Scenario struct {
	Keys       []C09Key        `json:"keys"`
	Days       int             `json:"days"`
	Config     []int           `json:"config"`
	Pubs       []C09Pub        `json:"pubs"`
	Restarts   []C09Restart    `json:"restarts,omitempty"`
	DiskEvents []C09DiskEvent  `json:"disk_events,omitempty"`
	Faults     []simdisk.Fault `json:"faults,omitempty"`
	// CrashConfig is the configuration of the incarnation started after a crash fault.
	CrashConfig []int `json:"crash_config,omitempty"`
	// Enumerate > 0: run fault-free first, then re-run once per derived fault point
	// (every operation of up to Enumerate state-changing refreshes x fault kinds).
	Enumerate int `json:"enumerate,omitempty"`
	// EnumAll: try every fault kind at every operation (thorough); otherwise one kind
	// per operation, rotated by operation index.
	EnumAll bool `json:"enum_all,omitempty"`
}

const c09Step = 6 * time.Hour

const (
	c09Dir      = "/simdisk/ta"
	c09RootAddr = "198.41.0.4"
)

func init() {
	kit.Register(&kit.Prop{
		ID:    "C09",
		Level: "fault_enumeration",
		Rule: "Scenario = root DNSKEY publication history (add, co-sign, remove, re-add, revoke with/without valid self-signature, forged or " +
			"partially signed sets, sets signed only by a pending or revoked key, colliding key tags) over 20–200 fake days around the 30 d / 90 d " +
			"hold-downs + restarts with configurations that may still list revoked keys + disk events. Each history runs fault-free against an " +
			"independent RFC 5011 state machine (exact equality of the live trust set after every refresh); then every disk operation of its " +
			"state-changing refreshes is failed (EIO, ENOSPC, short write, failing sync, failing rename) and crashed (volatile state lost / kept / " +
			"torn) once each, re-running the history. Non-trivial = a run in which a fault fired or a key changed RFC 5011 state; distinct = hash " +
			"of the sequence of (refresh outcome class, model transition, fault) events.",
		Assumptions: []string{
			"a crash ends the goroutine that performs the refresh (runtime.Goexit); the next incarnation is a new Resolver over the surviving disk state",
			"'accepted revocation' is read as: a durable record of it exists (tombstone or Revoked marker survives a restart) or it was published in the live set",
			"hold-down boundaries are compared with a 2-minute tolerance band in which either outcome is accepted",
		},
		Components: kit.Components{
			Real: []string{"resolver.NewResolver + run() + checkPriming + AutoTA", "atomicGobWrite / syncDir", "dnssec.VerifyRRSIG*", "dnsclient.Conn", "Resolver.Resolve / exchange"},
			Stub: []string{"kernel sockets (simnet)", "kernel file system (simdisk)", "root server (scripted signer)", "middleware chain (empty pipeline: only Ready())"},
		},
		Gen:      func(r *kit.RNG, tier string) any { return genC09(r, tier, -1) },
		GenAt: func(i int, r *kit.RNG, tier string) any {
			if i%8 < c09Templates {
				return genC09(r, tier, i%8)
			}
			return genC09(r, tier, -1)
		},
		Blank:    func() any { return &C09Scenario{} },
		Run:      func(sc any, tr *kit.Trace) *kit.Result { return runC09(sc.(*C09Scenario), tr) },
		Shrink:   shrinkC09,
		PerChunk: 2,
		Quick:    32,
		Thorough: 4000,
	})
}

// ---------------------------------------------------------------- generator

// genC09: forced selects one of the hand-written templates (0..c09Templates-1); -1 leaves the
// choice to the coins. Within a run the first c09Templates of every 8 scenarios are the
// templates in turn (GenAt), so that every batch, also the quick one, contains each of them.
const c09Templates = 5

func genC09(r *kit.RNG, tier string, forced int) *C09Scenario {
	sc := &C09Scenario{}
	pick := func(k int, p float64) bool {
		if forced >= 0 {
			return forced == k
		}
		return r.Chance(p)
	}
	if pick(0, 0.08) {
		// Template: roll from an anchor whose key tag wraps when REVOKE is set to a new
		// key, then revoke the old one (self-signed and co-signed by the new key).
		sc.Keys = []C09Key{{Alg: dns.ED25519, Idx: kit.Pick(r, []int{5735, 5988, 6629})}, {Alg: dns.ED25519, Idx: 100 + r.Intn(40)}}
		sc.Days = 60
		sc.Config = []int{0}
		revAt := (31+r.Intn(10))*1440 + r.Intn(1440)
		sc.Pubs = []C09Pub{{AtMin: 0, Keys: []int{0, 1}, Signers: []int{0}},
			{AtMin: revAt, Keys: []int{1}, Revoked: []int{0}, Signers: []int{0, 1}}}
		sc.CrashConfig = []int{0}
		sc.Enumerate = 1
		return sc
	}
	if pick(1, 0.07) {
		// Template: a key is announced, then no refresh is accepted for about the length of
		// the add hold-down (signatures broken), and the first accepted refresh after that no
		// longer carries the key — "present in every accepted refresh" fails at the last one.
		sc.Keys = []C09Key{{Alg: dns.ED25519, Idx: 100 + r.Intn(40)}, {Alg: dns.ED25519, Idx: 200 + r.Intn(40)}}
		sc.Days = 80
		sc.Config = []int{0}
		t1 := r.Range(1, 5) * 1440
		dark := t1 + kit.Pick(r, []int{720, 1440})
		back := t1 + kit.Pick(r, []int{29, 30, 31, 33, 40})*1440 + r.Intn(1440)
		sc.Pubs = []C09Pub{{AtMin: 0, Keys: []int{0}, Signers: []int{0}},
			{AtMin: t1, Keys: []int{0, 1}, Signers: []int{0}},
			{AtMin: dark, Keys: []int{0, 1}, Signers: []int{0}, Forge: kit.Pick(r, []string{"badsig", "nosig"})},
			{AtMin: back, Keys: []int{0}, Signers: []int{0}}}
		if r.Chance(0.5) {
			sc.Pubs = append(sc.Pubs, C09Pub{AtMin: back + kit.Pick(r, []int{1440, 5 * 1440}), Keys: []int{0, 1}, Signers: []int{0}})
		}
		sc.CrashConfig = []int{0}
		sc.Enumerate = 1
		return sc
	}
	if pick(2, 0.07) {
		// Template: a key that has been a trust anchor for more than 90 days is left out of
		// one or more validly signed refreshes and comes back. The remove hold-down (90 days)
		// counts from when it went missing: it stays trusted all along.
		sc.Keys = []C09Key{{Alg: dns.ED25519, Idx: 100 + r.Intn(40)}, {Alg: dns.ED25519, Idx: 200 + r.Intn(40)}}
		sc.Days = 150
		sc.Config = []int{0}
		gone := r.Range(93, 125)*1440 + r.Intn(1440)
		back := gone + kit.Pick(r, []int{720, 1440, 5 * 1440, 20 * 1440})
		sc.Pubs = []C09Pub{{AtMin: 0, Keys: []int{0, 1}, Signers: []int{0}},
			{AtMin: gone, Keys: []int{0}, Signers: []int{0}},
			{AtMin: back, Keys: []int{0, 1}, Signers: []int{0}}}
		sc.CrashConfig = []int{0}
		sc.Enumerate = 1
		return sc
	}
	if pick(3, 0.07) {
		// Template: a revocation is accepted while one of the writes that record it fails
		// (every operation x every error kind is tried), the root then stops publishing the
		// key, and the process restarts — before its next refresh could repeat the failed
		// write — with a configuration that still lists the key. Whatever record the failing
		// refresh managed to leave must keep the key out. (Refreshes run every 12 h from the
		// start; the times below only aim at that grid, nothing is asserted about it.)
		sc.Keys = []C09Key{{Alg: dns.ED25519, Idx: 100 + r.Intn(40)}, {Alg: dns.ED25519, Idx: 200 + r.Intn(40)}}
		sc.Days = 60
		sc.Config = []int{0}
		grid := r.Range(62, 74) * 720
		sc.Pubs = []C09Pub{{AtMin: 0, Keys: []int{0, 1}, Signers: []int{0}},
			{AtMin: grid - r.Range(1, 600), Keys: []int{1}, Revoked: []int{0}, Signers: []int{0, 1}},
			{AtMin: grid + r.Range(30, 350), Keys: []int{1}, Signers: []int{1}}}
		sc.Restarts = []C09Restart{{AtMin: grid + r.Range(365, 700), Config: kit.Pick(r, [][]int{{0}, {0, 1}}), Persist: "keep"}}
		sc.CrashConfig = []int{0}
		sc.Enumerate = 1
		sc.EnumAll = true
		return sc
	}
	if pick(4, 0.07) {
		// Template: a revocation is accepted and recorded; later the revocation store cannot be
		// opened (or does not decode) for some days, and during those days the process restarts
		// with a configuration that still lists the revoked key. Without its store the
		// resolver cannot know which configured keys were revoked: nothing may be trusted.
		sc.Keys = []C09Key{{Alg: dns.ED25519, Idx: 100 + r.Intn(40)}, {Alg: dns.ED25519, Idx: 200 + r.Intn(40)}}
		sc.Days = 60
		sc.Config = []int{0}
		revAt := (31+r.Intn(8))*1440 + r.Intn(1440)
		sc.Pubs = []C09Pub{{AtMin: 0, Keys: []int{0, 1}, Signers: []int{0}},
			{AtMin: revAt, Keys: []int{1}, Revoked: []int{0}, Signers: []int{0, 1}},
			{AtMin: revAt + r.Range(1, 3)*1440, Keys: []int{1}, Signers: []int{1}}}
		from := revAt + r.Range(3, 5)*1440
		kind := kit.Pick(r, []string{"tomb-unreadable", "tomb-unreadable", "tomb-corrupt"})
		sc.DiskEvents = []C09DiskEvent{{AtMin: from, Kind: kind + "-on"}, {AtMin: from + r.Range(3, 6)*1440, Kind: kind + "-off"}}
		sc.Restarts = []C09Restart{{AtMin: from + r.Range(100, 2000), Config: kit.Pick(r, [][]int{{0}, {0, 1}}), Persist: "keep"}}
		sc.CrashConfig = []int{0}
		return sc
	}
	algs := []uint8{dns.ED25519, dns.ED25519, dns.ECDSAP256SHA256, dns.RSASHA256}
	nkeys := r.Range(3, 7)
	for i := 0; i < nkeys; i++ {
		sc.Keys = append(sc.Keys, C09Key{Alg: kit.Pick(r, algs), Idx: 100 + r.Intn(40)})
	}
	if r.Chance(0.25) {
		// two keys with colliding key tags (Ed25519 search is deterministic)
		a, b := authsim.CollidingPair(".", 0)
		if a != nil {
			sc.Keys[1] = C09Key{Alg: dns.ED25519, Idx: a.Idx}
			sc.Keys[2] = C09Key{Alg: dns.ED25519, Idx: b.Idx}
		}
	}
	if r.Chance(0.15) {
		// a key whose tag is >= 65408: setting the REVOKE bit wraps the one's-complement
		// sum, so the revoked form's tag is not tag+128 (indexes found by search).
		sc.Keys[r.Intn(2)] = C09Key{Alg: dns.ED25519, Idx: kit.Pick(r, []int{5735, 5988, 6629})}
	}
	// de-duplicate key material
	seen := map[C09Key]bool{}
	for i := range sc.Keys {
		if sc.Keys[i].Alg == dns.RSASHA256 {
			sc.Keys[i].Idx %= 8 // the embedded RSA pool has 8 keys
		}
		for seen[sc.Keys[i]] {
			if sc.Keys[i].Alg == dns.RSASHA256 {
				sc.Keys[i].Idx = (sc.Keys[i].Idx + 1) % 8
			} else {
				sc.Keys[i].Idx++
			}
		}
		seen[sc.Keys[i]] = true
	}
	sc.Days = kit.Pick(r, []int{20, 45, 70, 100, 130, 200})
	sc.Config = []int{0}
	if r.Chance(0.2) {
		sc.Config = []int{0, 1}
	}
	// current publication state
	pub := map[int]bool{}
	rev := map[int]bool{}
	for _, k := range sc.Config {
		pub[k] = true
	}
	signers := append([]int(nil), sc.Config[:1]...)
	snapshot := func(at int, forge string, sg []int) {
		p := C09Pub{AtMin: at, Forge: forge, Signers: append([]int(nil), sg...)}
		for k := 0; k < nkeys; k++ {
			if rev[k] {
				p.Revoked = append(p.Revoked, k)
			} else if pub[k] {
				p.Keys = append(p.Keys, k)
			}
		}
		sc.Pubs = append(sc.Pubs, p)
	}
	snapshot(0, "", signers)
	var revTimes []int
	gaps := []int{60, 12 * 60, 24 * 60, 29 * 1440, 30*1440 - 720, 30 * 1440, 30*1440 + 720, 31 * 1440, 45 * 1440, 89 * 1440, 90 * 1440, 91 * 1440, 3 * 1440, 10 * 1440}
	at := 0
	for at < sc.Days*1440 {
		at += kit.Pick(r, gaps) + r.Intn(90)
		if at >= sc.Days*1440 {
			break
		}
		k := r.Intn(nkeys)
		switch r.Intn(12) {
		case 0, 1: // add a key
			if !rev[k] {
				pub[k] = true
			}
			snapshot(at, "", signers)
		case 2: // change signers to another published key (co-sign / hand over)
			var cands []int
			for c := 0; c < nkeys; c++ {
				if pub[c] && !rev[c] {
					cands = append(cands, c)
				}
			}
			if len(cands) > 0 {
				n := r.Range(1, 2)
				signers = nil
				for i := 0; i < n; i++ {
					signers = append(signers, kit.Pick(r, cands))
				}
			}
			snapshot(at, "", signers)
		case 3: // remove a key
			delete(pub, k)
			snapshot(at, "", signers)
		case 4, 5, 10, 11: // revoke a key: published with REVOKE, self-signed or not, co-signed or not
			if r.Chance(0.35) {
				k = sc.Config[r.Intn(len(sc.Config))] // a key the configuration keeps listing
			}
			if pub[k] || r.Chance(0.3) {
				revTimes = append(revTimes, at)
				rev[k] = true
				delete(pub, k)
				sg := append([]int(nil), signers...)
				switch r.Intn(4) {
				case 0: // self-signed only
					sg = []int{k}
				case 1: // not self-signed
				default:
					sg = append(sg, k)
				}
				snapshot(at, "", sg)
				if r.Chance(0.4) && len(sc.DiskEvents) == 0 {
					// the directory is read-only while the revocation is first seen: neither
					// record of it can be persisted
					sc.DiskEvents = append(sc.DiskEvents, C09DiskEvent{AtMin: at - 30, Kind: "ro-on"},
						C09DiskEvent{AtMin: at + kit.Pick(r, []int{13 * 60, 30 * 60, 5 * 1440}), Kind: "ro-off"})
				}
				if r.Chance(0.5) { // stop publishing the revoked key later
					at += kit.Pick(r, []int{720, 1440, 10 * 1440})
					delete(rev, k)
					snapshot(at, "", signers)
				}
			}
		case 6: // forged set: an untrusted key added and signing alone, or corrupted signatures
			forge := kit.Pick(r, []string{"badsig", "nosig", "untrusted"})
			if forge == "untrusted" {
				save := pub[k]
				pub[k] = true
				snapshot(at, "", []int{k})
				pub[k] = save
			} else {
				save := pub[k]
				pub[k] = true
				snapshot(at, forge, signers)
				pub[k] = save
			}
			at += kit.Pick(r, []int{720, 1440, 31 * 1440})
			snapshot(at, "", signers)
		case 7: // un-revoke attempt: a revoked key reappears without the bit
			for c := range rev {
				delete(rev, c)
				pub[c] = true
			}
			snapshot(at, "", signers)
		default:
			snapshot(at, "", signers)
		}
	}
	// restarts
	nrest := r.Intn(4)
	for i := 0; i < nrest; i++ {
		rs := C09Restart{AtMin: r.Intn(sc.Days * 1440), Persist: kit.Pick(r, []string{"keep", "keep", "lose", "torn"})}
		for k := 0; k < nkeys; k++ {
			if k == 0 || r.Chance(0.3) {
				// (A configuration listing a key *with* the REVOKE bit is not generated: the
				// property speaks of configuration that still lists a key whose revocation
				// was accepted, i.e. the un-revoked form.)
				rs.Config = append(rs.Config, k)
			}
		}
		sc.Restarts = append(sc.Restarts, rs)
	}
	sort.Slice(sc.Restarts, func(i, j int) bool { return sc.Restarts[i].AtMin < sc.Restarts[j].AtMin })
	for k := 0; k < nkeys; k++ {
		if k == 0 || r.Chance(0.4) {
			sc.CrashConfig = append(sc.CrashConfig, k)
		}
	}
	// disk events (windows)
	if r.Chance(0.35) && len(sc.DiskEvents) == 0 {
		kind := kit.Pick(r, []string{"ro", "tomb-unreadable", "tomb-corrupt"})
		from := r.Intn(sc.Days * 1440)
		if len(revTimes) > 0 && r.Chance(0.5) {
			// the store becomes unusable some time after a revocation was recorded in it
			from = kit.Pick(r, revTimes) + kit.Pick(r, []int{1440, 3 * 1440, 12 * 1440})
		}
		to := from + kit.Pick(r, []int{720, 1440, 5 * 1440, 40 * 1440})
		sc.DiskEvents = append(sc.DiskEvents, C09DiskEvent{AtMin: from, Kind: kind + "-on"}, C09DiskEvent{AtMin: to, Kind: kind + "-off"})
	}
	if tier == "thorough" {
		sc.Enumerate = 4
		sc.EnumAll = true
	} else {
		sc.Enumerate = 2
	}
	return sc
}

// ---------------------------------------------------------------- scripted root

type c09Root struct {
	sc     *C09Scenario
	zsk    *authsim.Key
	zone   *authsim.Zone
	net    *simnet.Net
	served []c09Served
}

type c09Served struct {
	at  time.Duration
	pub int
	cd  bool
}

func (sc *C09Scenario) key(id int, revoked bool) *authsim.Key {
	k := sc.Keys[id]
	flags := uint16(257)
	if revoked {
		flags |= 0x0080
	}
	return authsim.NewKey(".", k.Alg, flags, k.Idx)
}

func (sc *C09Scenario) pubAt(at time.Duration) int {
	idx := 0
	for i, p := range sc.Pubs {
		if time.Duration(p.AtMin)*time.Minute <= at {
			idx = i
		}
	}
	return idx
}

func (rt *c09Root) Serve(q *simnet.Query) []simnet.Reply {
	if q.Msg == nil || len(q.Msg.Question) != 1 {
		return nil
	}
	qu := q.Msg.Question[0]
	m := new(dns.Msg)
	m.SetReply(q.Msg)
	m.Authoritative = true
	do := false
	if o := q.Msg.IsEdns0(); o != nil {
		do = o.Do()
		m.SetEdns0(4096, do)
	}
	name := dns.CanonicalName(qu.Name)
	switch {
	case name == "." && qu.Qtype == dns.TypeDNSKEY:
		pi := rt.sc.pubAt(q.At)
		p := rt.sc.Pubs[pi]
		rt.served = append(rt.served, c09Served{at: q.At, pub: pi, cd: q.Msg.CheckingDisabled})
		var set []dns.RR
		z := dns.Copy(rt.zsk.DNSKEY)
		z.Header().Ttl = 172800
		set = append(set, z)
		for _, k := range p.Keys {
			c := dns.Copy(rt.sc.key(k, false).DNSKEY)
			c.Header().Ttl = 172800
			set = append(set, c)
		}
		for _, k := range p.Revoked {
			c := dns.Copy(rt.sc.key(k, true).DNSKEY)
			c.Header().Ttl = 172800
			set = append(set, c)
		}
		m.Answer = append(m.Answer, set...)
		if do && p.Forge != "nosig" {
			seen := map[int]bool{}
			for _, s := range p.Signers {
				if seen[s] {
					continue
				}
				seen[s] = true
				revoked := false
				for _, rk := range p.Revoked {
					if rk == s {
						revoked = true
					}
				}
				sig := rt.zone.SignRRset(set, rt.sc.key(s, revoked), ".", -1)
				if p.Forge == "badsig" {
					b := []byte(sig.Signature)
					if len(b) > 10 {
						if b[8] == 'A' {
							b[8] = 'B'
						} else {
							b[8] = 'A'
						}
					}
					sig.Signature = string(b)
				}
				m.Answer = append(m.Answer, sig)
			}
			m.Answer = append(m.Answer, rt.zone.SignRRset(set, rt.zsk, ".", -1))
		}
	case name == "." && qu.Qtype == dns.TypeNS:
		ns := []dns.RR{&dns.NS{Hdr: dns.RR_Header{Name: ".", Rrtype: dns.TypeNS, Class: dns.ClassINET, Ttl: 518400}, Ns: "a.root-servers.net."}}
		m.Answer = append(m.Answer, ns...)
		if do {
			m.Answer = append(m.Answer, rt.zone.SignRRset(ns, rt.zsk, ".", -1))
		}
		m.Extra = append(m.Extra, &dns.A{Hdr: dns.RR_Header{Name: "a.root-servers.net.", Rrtype: dns.TypeA, Class: dns.ClassINET, Ttl: 518400}, A: netip.MustParseAddr(c09RootAddr).AsSlice()})
	default:
		m.Rcode = dns.RcodeNameError
	}
	b, err := m.Pack()
	if err != nil {
		return nil
	}
	return []simnet.Reply{{Raw: b}}
}

// ---------------------------------------------------------------- reference model

type c09MState int

const (
	mStart c09MState = iota
	mAddPend
	mValid
	mMissing
	mRevoked
)

type c09MKey struct {
	st       c09MState
	since    time.Duration
	optional bool // tag collision: the implementation may legitimately refuse to track it
	// band: a hold-down boundary was within tolerance at the last refresh; either
	// outcome is accepted and the model follows the implementation.
	band bool
	// removedAfterHoldDown: dropped after 90 d missing (bookkeeping, not security).
	removed bool
	// confirmed: the key took part in a fully authenticated refresh while tracked, so
	// its state has been (or can have been) persisted. A key seeded from configuration
	// that never saw an authenticated refresh exists only in that incarnation's memory;
	// the lower bound does not apply to it after a restart with another configuration.
	confirmed bool
}

type c09Model struct {
	sc   *C09Scenario
	keys []c09MKey
}

const (
	c09Add = 720 * time.Hour
	c09Rem = 2160 * time.Hour
	c09Tol = 2 * time.Minute
)

func (m *c09Model) trusted(k int) bool { return m.keys[k].st == mValid || m.keys[k].st == mMissing }

func (m *c09Model) tagCollides(k int) bool {
	tk := m.sc.key(k, false).Tag
	for o := range m.keys {
		if o != k && m.keys[o].st != mStart && (m.sc.key(o, false).Tag == tk || m.sc.key(o, true).Tag == tk) {
			return true
		}
	}
	return false
}

// startIncarnation applies configuration at process start: configured keys are trust
// anchors of record unless revoked.
func (m *c09Model) startIncarnation(cfg, cfgRevoked []int, now time.Duration) {
	for _, k := range cfg {
		if m.keys[k].st == mRevoked {
			continue
		}
		// A configured key that is already tracked keeps its tracked state (a key in its
		// add hold-down stays pending): only an untracked one is seeded.
		if m.keys[k].st == mStart {
			if m.tagCollides(k) {
				m.keys[k].optional = true
			}
			m.keys[k].st = mValid
			m.keys[k].since = now
		}
	}
	for _, k := range cfgRevoked {
		m.keys[k].st = mRevoked
	}
}

// refresh applies one accepted-or-not DNSKEY response. Returns a transition label.
func (m *c09Model) refresh(p C09Pub, now time.Duration, cfg []int) string {
	// Configured keys are trust anchors of record: whenever one is not tracked (first
	// run, or dropped after the remove hold-down) it is (re-)seeded as valid, before and
	// independently of the fetch.
	for _, k := range cfg {
		if m.keys[k].st == mStart {
			m.keys[k].st, m.keys[k].since, m.keys[k].removed = mValid, now, false
			if m.tagCollides(k) {
				m.keys[k].optional = true
			}
		}
	}
	if p.Forge != "" {
		return "unauthenticated"
	}
	in := func(xs []int, k int) bool {
		for _, x := range xs {
			if x == k {
				return true
			}
		}
		return false
	}
	full, revOnly := false, false
	for _, s := range p.Signers {
		// A signature by a trusted anchor in its un-revoked form authenticates the set
		// whether or not that key is itself part of the published set.
		if !in(p.Revoked, s) && m.trusted(s) {
			full = true
		}
	}
	if !full {
		for _, s := range p.Signers {
			if in(p.Revoked, s) && m.trusted(s) {
				revOnly = true
			}
		}
	}
	if !full && !revOnly {
		return "unauthenticated"
	}
	var label []string
	// revocations: published with REVOKE, self-signed, material currently trusted
	for _, k := range p.Revoked {
		if m.trusted(k) && in(p.Signers, k) {
			m.keys[k].st = mRevoked
			label = append(label, "revoke")
		}
	}
	if !full {
		return "revocation-only:" + strings.Join(label, ",")
	}
	for k := range m.keys {
		mk := &m.keys[k]
		mk.band = false
		if mk.st != mStart {
			mk.confirmed = true
		}
		published := in(p.Keys, k)
		switch mk.st {
		case mStart:
			if published && !in(p.Revoked, k) {
				mk.st, mk.since, mk.removed = mAddPend, now, false
				if m.tagCollides(k) {
					mk.optional = true
				}
				label = append(label, "addpend")
			}
		case mAddPend:
			if !published {
				mk.st = mStart
				label = append(label, "abort")
			} else if d := now - mk.since; d > c09Add+c09Tol {
				mk.st = mValid
				label = append(label, "valid")
			} else if d > c09Add-c09Tol {
				mk.band = true
			}
		case mValid:
			if !published {
				mk.st, mk.since = mMissing, now
				label = append(label, "missing")
			}
		case mMissing:
			if published {
				mk.st = mValid
				label = append(label, "reappear")
			} else if d := now - mk.since; d > c09Rem+c09Tol {
				mk.st = mStart
				mk.removed = true
				label = append(label, "removed")
			} else if d > c09Rem-c09Tol {
				mk.band = true
			}
		}
	}
	return "full:" + strings.Join(label, ",")
}

// ---------------------------------------------------------------- one execution

type c09Run struct {
	sc    *C09Scenario
	tr    *kit.Trace
	res   *kit.Result
	disk  *simdisk.Disk
	net   *simnet.Net
	root  *c09Root
	model *c09Model
	r     *resolver.Resolver
	fpOf  map[string]int // material fingerprint -> key id
	// durablyRevoked: keys for which a durable record of revocation was observed, or
	// whose revocation was reflected in a published live set.
	noMore     map[int]string
	faulty     bool // a fault has fired or a disk event has been active: relaxed comparison
	ro, tombUn bool
	stateOps   []int // op-log indexes at which a state-changing refresh started persisting
	revOps     []int // same, for refreshes that accepted a revocation
	curCfg     []int
	// inProc: keys whose revocation this incarnation accepted in a refresh that ran to
	// completion while it trusted the key. Whatever the disk did, the process itself saw
	// the revocation: it may not publish the key again before it restarts.
	inProc   map[int]string
	incStart time.Duration // when the current incarnation started
}

func (x *c09Run) cfg(keys, revoked []int) *config.Config {
	c := &config.Config{
		RootServers: []string{c09RootAddr + ":53"},
		DNSSEC:      "on",
		Directory:   c09Dir,
		Maxdepth:    30,
		CacheSize:   1024,
	}
	c.Timeout.Duration = 2 * time.Second
	c.QueryTimeout.Duration = 10 * time.Second
	for _, k := range keys {
		c.RootKeys = append(c.RootKeys, x.sc.key(k, false).DNSKEY.String())
	}
	for _, k := range revoked {
		c.RootKeys = append(c.RootKeys, x.sc.key(k, true).DNSKEY.String())
	}
	return c
}

// followForgotten: a revocation that left no durable record (read-only or failing disk, power
// loss before the write) is gone with the process that accepted it. A configured key is then
// legitimately trusted again by the next process, and so is what it signs from there on. The
// model follows the implementation for exactly those keys (all keys when only is nil); a key
// with a durable record stays in noMore and check() reports it if it is ever live again.
func (x *c09Run) followForgotten(now time.Duration, only []int) {
	live, _ := x.live()
	for _, k := range live {
		if only != nil {
			found := false
			for _, o := range only {
				found = found || o == k
			}
			if !found {
				continue
			}
		}
		if _, durable := x.noMore[k]; !durable && x.model.keys[k].st == mRevoked {
			x.model.keys[k].st, x.model.keys[k].since = mValid, now
			x.tr.AddAt(now, "model follows: the revocation of key #%d left no durable record and was lost with the process", k)
			x.res.Probes["revocation-lost-with-process"]++
		}
	}
}

func (x *c09Run) live() (ids []int, unknown int) {
	for _, rr := range x.r.VerifRootKeys() {
		k, ok := rr.(*dns.DNSKEY)
		if !ok {
			continue
		}
		if id, ok := x.fpOf[resolver.VerifMaterialFP(k)]; ok {
			ids = append(ids, id)
			if k.Flags&0x0080 != 0 {
				unknown++ // a key with the REVOKE bit in the live set is never right
			}
		} else {
			unknown++
		}
	}
	sort.Ints(ids)
	return
}

func (x *c09Run) start(cfgKeys, cfgRevoked []int, now time.Duration) {
	x.curCfg = cfgKeys
	x.inProc = map[int]string{}
	x.r = resolver.NewResolver(x.cfg(cfgKeys, cfgRevoked))
	x.model.startIncarnation(cfgKeys, cfgRevoked, now)
	x.incStart = now
	if x.faulty && now > 0 {
		x.observeDurable(now)
		x.followForgotten(now, nil)
	}
	x.tr.AddAt(now, "incarnation start config=%v revoked-config=%v", cfgKeys, cfgRevoked)
	x.tr.Shape("start")
}

// observeDurable decodes what a restart after power loss would read.
func (x *c09Run) observeDurable(now time.Duration) {
	// The durable view is obtained by asking the disk for a "lose" image without
	// changing it: simdisk exposes current content only, so the files are decoded from
	// the current namespace when they are synced (AutoTA syncs before rename).
	if b, ok := x.disk.ReadCurrent(c09Dir + "/" + resolver.VerifTombstoneFile); ok && !x.disk.FlipOnRead[resolver.VerifTombstoneFile] {
		if fps, err := resolver.VerifDecodeTombstones(b); err == nil {
			for _, fp := range fps {
				if id, ok := x.fpOf[fp]; ok {
					if _, seen := x.noMore[id]; !seen {
						x.noMore[id] = fmt.Sprintf("tombstone on disk at %v", now)
					}
				}
			}
		}
	}
	if b, ok := x.disk.ReadCurrent(c09Dir + "/" + resolver.VerifStateFile); ok {
		if tas, err := resolver.VerifDecodeState(b); err == nil {
			for _, ta := range tas {
				if id, ok := x.fpOf[ta.FP]; ok && ta.State == "REVOKED" {
					if _, seen := x.noMore[id]; !seen {
						x.noMore[id] = fmt.Sprintf("REVOKED marker in state file at %v", now)
					}
				}
			}
		}
	}
}

// check compares the live set with the model after the system settled.
func (x *c09Run) check(now time.Duration, what string) {
	live, unknown := x.live()
	if unknown > 0 {
		x.res.Fail("C09/foreign-key-trusted", "%v %s: live trust set %v contains a key that was never configured/published as non-revoked KSK", now, what, x.r.VerifRootKeys())
		return
	}
	inLive := map[int]bool{}
	for _, k := range live {
		inLive[k] = true
	}
	// (d) revoked never again
	for k, why := range x.noMore {
		if inLive[k] {
			x.res.Fail("C09/revoked-key-trusted-again", "%v %s: key #%d is in the live trust set although its revocation was recorded (%s)", now, what, k, why)
			return
		}
	}
	for k, why := range x.inProc {
		if inLive[k] {
			x.res.Fail("C09/revoked-key-trusted-again", "%v %s: key #%d is in the live trust set although this process accepted its revocation (%s)", now, what, k, why)
			return
		}
	}
	for k := range x.model.keys {
		mk := x.model.keys[k]
		if mk.st == mRevoked && inLive[k] {
			// Model-accepted revocation: trusted again only if nothing durable and no
			// publication ever reflected it (crash before persistence) — tracked by noMore.
			if !x.faulty {
				x.res.Fail("C09/revoked-key-trusted", "%v %s: key #%d is trusted after its self-signed revocation was accepted", now, what, k)
				return
			}
		}
	}
	// (a) upper bound: nothing beyond what RFC 5011 allows
	for _, k := range live {
		mk := x.model.keys[k]
		ok := mk.st == mValid || mk.st == mMissing || mk.band
		if x.faulty && (mk.removed || mk.st == mRevoked) {
			// removal after the 90 d hold-down is bookkeeping; a revocation that was never
			// durably recorded nor published is covered by noMore above.
			ok = true
		}
		if !ok {
			x.res.Fail("C09/key-trusted-early", "%v %s: key #%d is in the live trust set but RFC 5011 state is %v (since %v): live=%v", now, what, k, mk.st, mk.since, live)
			return
		}
	}
	// lower bound, fault-free only: every key the model trusts is live
	if !x.faulty {
		for k, mk := range x.model.keys {
			inCfg := false
			for _, c := range x.curCfg {
				if c == k {
					inCfg = true
				}
			}
			if (mk.st == mValid || mk.st == mMissing) && !inLive[k] && !mk.optional && !mk.band && (mk.confirmed || inCfg) {
				x.res.Fail("C09/trusted-key-dropped", "%v %s: key #%d should be trusted (RFC 5011 state %v since %v) but the live set is %v", now, what, k, mk.st, mk.since, live)
				return
			}
		}
	}
	// A configuration-seeded key that never saw an authenticated refresh and is not in the
	// current configuration was never persisted: follow the implementation.
	for k := range x.model.keys {
		mk := &x.model.keys[k]
		if (mk.st == mValid || mk.st == mMissing) && !mk.confirmed && !inLive[k] {
			inCfg := false
			for _, c := range x.curCfg {
				if c == k {
					inCfg = true
				}
			}
			if !inCfg {
				mk.st = mStart
			}
		}
	}
	// bands: follow the implementation
	for k := range x.model.keys {
		mk := &x.model.keys[k]
		if mk.band {
			if mk.st == mAddPend && inLive[k] {
				mk.st = mValid
			}
			if mk.st == mMissing && !inLive[k] {
				mk.st = mStart
				mk.removed = true
			}
		}
	}
	x.tr.AddAt(now, "check %s live=%v", what, live)
}

func (x *c09Run) execute() {
	sc := x.sc
	x.disk = simdisk.New(c09Dir)
	x.disk.SetPlan(sc.Faults, false)
	verifos.Install(x.disk)
	defer verifos.Install(nil)
	x.net = simnet.New(7, x.tr)
	verifnet.Install(x.net)
	defer verifnet.Install(nil)
	w := authsim.NewWorld(kit.Epoch)
	zone := w.AddZone(".", []authsim.NSHost{{Name: "a.root-servers.net.", Addrs: []netip.Addr{netip.MustParseAddr(c09RootAddr)}}})
	zone.SigFrom, zone.SigTo = kit.Epoch.Add(-24*time.Hour), kit.Epoch.Add(400*24*time.Hour)
	x.root = &c09Root{sc: sc, zsk: authsim.NewKey(".", dns.ED25519, 256, 7), zone: zone, net: x.net}
	x.net.AddServer(c09RootAddr, x.root)
	middleware.Reset()
	middleware.Setup(x.cfg(sc.Config, nil))
	x.model = &c09Model{sc: sc, keys: make([]c09MKey, len(sc.Keys))}
	x.fpOf = map[string]int{}
	for i := range sc.Keys {
		x.fpOf[resolver.VerifMaterialFP(sc.key(i, false).DNSKEY)] = i
	}
	x.noMore = map[int]string{}
	start := time.Now()
	x.start(sc.Config, nil, 0)
	servedDone := 0
	restartIdx, eventIdx := 0, 0
	lastLive := ""
	end := time.Duration(sc.Days) * 24 * time.Hour
	for step := time.Duration(0); step < end && x.res.Viol == nil; step += c09Step {
		// events scheduled inside this hour
		for eventIdx < len(sc.DiskEvents) && time.Duration(sc.DiskEvents[eventIdx].AtMin)*time.Minute < step+c09Step {
			ev := sc.DiskEvents[eventIdx]
			eventIdx++
			x.faulty = true
			switch ev.Kind {
			case "ro-on":
				x.disk.ReadOnlyDir = true
			case "ro-off":
				x.disk.ReadOnlyDir = false
			case "tomb-unreadable-on":
				x.disk.Unreadable[resolver.VerifTombstoneFile] = true
			case "tomb-unreadable-off":
				delete(x.disk.Unreadable, resolver.VerifTombstoneFile)
			case "tomb-corrupt-on":
				x.disk.FlipOnRead[resolver.VerifTombstoneFile] = true
			case "tomb-corrupt-off":
				delete(x.disk.FlipOnRead, resolver.VerifTombstoneFile)
			}
			x.res.Fault("disk:" + strings.TrimSuffix(strings.TrimSuffix(ev.Kind, "-on"), "-off"))
			x.tr.AddAt(time.Since(start), "disk event %s", ev.Kind)
		}
		// refreshes served so far, fed to the model in order; drained before every
		// (re)start so that a refresh belongs to the incarnation that made it
		var last = -1
		var newlyRevoked []int
		drain := func() {
			for ; servedDone < len(x.root.served); servedDone++ {
				sv := x.root.served[servedDone]
				if !sv.cd {
					continue // the validator's own DNSKEY fetch during priming, not AutoTA's
				}
				if last >= 0 && sv.at-x.root.served[last].at < time.Minute && sv.pub == x.root.served[last].pub {
					continue // UDP->TCP retry of the same refresh
				}
				last = servedDone
				before := fmt.Sprint(x.model.keys)
				wasRevoked := map[int]bool{}
				for k := range x.model.keys {
					wasRevoked[k] = x.model.keys[k].st == mRevoked
				}
				label := x.model.refresh(sc.Pubs[sv.pub], sv.at, x.curCfg)
				var revokedHere []int
				for k := range x.model.keys {
					if x.model.keys[k].st == mRevoked && !wasRevoked[k] {
						newlyRevoked = append(newlyRevoked, k)
						revokedHere = append(revokedHere, k)
					}
				}
				if x.faulty && sv.at < x.incStart && len(revokedHere) > 0 {
					// a refresh of the incarnation that crashed: what it accepted and did not
					// get onto the disk is unknown to the process running now
					x.observeDurable(time.Since(start))
					x.followForgotten(sv.at, revokedHere)
				}
				if fmt.Sprint(x.model.keys) != before {
					x.res.Nontrivial = true
					x.stateOps = append(x.stateOps, x.disk.Ops())
					if len(newlyRevoked) > 0 {
						x.revOps = append(x.revOps, x.disk.Ops())
					}
				}
				x.res.Probes["refresh:"+strings.SplitN(label, ":", 2)[0]]++
				for _, l := range strings.Split(strings.SplitN(label+":", ":", 3)[1], ",") {
					if l != "" {
						x.res.Probes["transition:"+l]++
					}
				}
				x.tr.AddAt(sv.at, "refresh pub#%d -> %s", sv.pub, label)
				x.tr.Shape(label)
			}
		}
		slept := time.Duration(0)
		restartedThisStep := false
		prevLive, _ := x.live()
		for restartIdx < len(sc.Restarts) && time.Duration(sc.Restarts[restartIdx].AtMin)*time.Minute < step+c09Step {
			rs := sc.Restarts[restartIdx]
			restartIdx++
			off := time.Duration(rs.AtMin)*time.Minute - step
			if off > slept {
				kit.SleepSettle(off - slept)
				slept = off
			}
			if rs.Persist != "keep" {
				x.faulty = true
			}
			restartedThisStep = true
			drain()
			x.disk.Restart(rs.Persist)
			x.res.Fault("restart:" + rs.Persist)
			x.start(rs.Config, rs.ConfigRevoked, time.Since(start))
		}
		kit.SleepSettle(c09Step - slept)
		now := time.Since(start)
		crashedThisStep := x.disk.Crashed
		if x.disk.Crashed {
			// the refresh goroutine died at a crash point: power loss, then a new process
			x.faulty = true
			how := ""
			// (no drain here: whether the interrupted refresh reached the disk is unknown, so
			// it is fed to the model after the restart, where configuration seeding wins)
			x.disk.Restart(how)
			x.res.Fault("crash")
			x.tr.AddAt(now, "crash -> restart")
			x.start(sc.CrashConfig, nil, now)
			kit.SleepSettle(10 * time.Second)
			now = time.Since(start)
		}
		if len(x.disk.Fired) > 0 {
			x.faulty = true
		}
		drain()
		x.observeDurable(now)
		// publication reflecting a model-accepted revocation: remember it
		live, _ := x.live()
		if s := fmt.Sprint(live); s != lastLive {
			lastLive = s
			x.tr.Shape("live" + s)
		}
		if len(live) > 0 {
			inLive := map[int]bool{}
			for _, k := range live {
				inLive[k] = true
			}
			for k := range x.model.keys {
				if x.model.keys[k].st == mRevoked && !inLive[k] {
					if _, seen := x.noMore[k]; !seen && last >= 0 {
						x.noMore[k] = fmt.Sprintf("published live set %v without it at %v after its revocation", live, now)
					}
				}
			}
		}
		if !restartedThisStep && !crashedThisStep {
			for _, k := range newlyRevoked {
				for _, l := range prevLive {
					if l == k {
						x.inProc[k] = fmt.Sprintf("refresh before %v, no restart since", now)
					}
				}
			}
		}
		if last >= 0 || step == 0 {
			x.check(now, "after refresh")
		} else if x.res.Viol == nil {
			// No refresh reached the root in this step (the refresh was skipped or failed before
			// asking). The one rule that holds at every instant is still looked at: a key whose
			// revocation was recorded is never in the live set.
			live, _ := x.live()
			for _, k := range live {
				if why, gone := x.noMore[k]; gone {
					x.res.Fail("C09/revoked-key-trusted-again", "%v (no refresh reached the root in this step): key #%d is in the live trust set although its revocation was recorded (%s)", now, k, why)
				} else if why, gone := x.inProc[k]; gone {
					x.res.Fail("C09/revoked-key-trusted-again", "%v (no refresh reached the root in this step): key #%d is in the live trust set although this process accepted its revocation (%s)", now, k, why)
				}
			}
			x.res.Probes["steps-without-a-refresh-checked"]++
		}
		// A refresh that accepted a new revocation and ran to completion must leave a
		// durable record of it, or fail closed.
		if last >= 0 && !crashedThisStep && x.res.Viol == nil {
			for _, k := range newlyRevoked {
				if _, durable := x.noMore[k]; !durable && len(live) > 0 {
					x.res.Fail("C09/unpersisted-revocation-not-fail-closed", "%v: the revocation of key #%d was accepted but no durable record of it exists and the live trust set is %v (must be empty)", now, k, live)
				} else if !durable {
					x.res.Probes["fail-closed-on-unpersisted-revocation"]++
				}
			}
		}
		// (e) fail closed: a tombstone store whose bytes do not decode => empty live set
		// after a refresh attempt (only claimed when the corrupted bytes really fail to
		// decode: a flipped byte that still decodes is invisible to any reader).
		if x.disk.FlipOnRead[resolver.VerifTombstoneFile] && last >= 0 {
			if b, ok := x.disk.ReadAsSeen(c09Dir + "/" + resolver.VerifTombstoneFile); ok && len(live) > 0 {
				if _, err := resolver.VerifDecodeTombstones(b); err != nil {
					x.res.Fail("C09/corrupt-tombstones-not-fail-closed", "%v: the tombstone store does not decode (%v) but the live trust set is %v", now, err, live)
				} else {
					x.res.Probes["corruption-undetectable"]++
				}
			}
			if len(live) == 0 {
				x.res.Probes["fail-closed-on-corrupt-tombstones"]++
			}
		}
	}
	x.res.SimTime = time.Since(start)
	for k, v := range x.disk.Fired {
		x.res.Faults["disk:"+k] += v
	}
}

func runC09Once(sc *C09Scenario, tr *kit.Trace) (*kit.Result, *c09Run) {
	res := kit.NewResult()
	x := &c09Run{sc: sc, tr: tr, res: res}
	kit.Bubble(func() { x.execute() })
	if len(res.Faults) > 0 {
		res.Nontrivial = true
	}
	if os.Getenv("VERIF_C09_DISKLOG") != "" && x.disk != nil {
		// development aid: the operation log of the simulated disk, to place a fault by hand
		for i, o := range x.disk.Log {
			fmt.Fprintf(os.Stderr, "  disk op %d at %v: %s %s\n", i, o.At, o.Op, o.Path)
		}
	}
	return res, x
}

func runC09(sc *C09Scenario, tr *kit.Trace) *kit.Result {
	res, x := runC09Once(sc, tr)
	res.Evals = 1
	if res.Viol != nil || sc.Enumerate == 0 || len(sc.Faults) > 0 {
		return res
	}
	// Fault enumeration: every disk operation of up to Enumerate state-changing
	// refreshes, once per error kind and once per crash-persistence choice.
	log := x.disk.Log
	// Refreshes that accepted a revocation first (that is where the two state files
	// must agree), then the other state-changing ones spread over the history.
	picked := append([]int(nil), x.revOps...)
	if len(picked) > sc.Enumerate {
		picked = picked[:sc.Enumerate]
	}
	var others []int
	for _, o := range x.stateOps {
		isRev := false
		for _, r := range x.revOps {
			if r == o {
				isRev = true
			}
		}
		if !isRev {
			others = append(others, o)
		}
	}
	if room := sc.Enumerate - len(picked); room > 0 && len(others) > 0 {
		if len(others) > room {
			stride := len(others) / room
			for i := 0; i < room; i++ {
				picked = append(picked, others[i*stride])
			}
		} else {
			picked = append(picked, others...)
		}
	}
	kinds := []simdisk.Fault{{Kind: "eio"}, {Kind: "enospc"}, {Kind: "short"}, {Kind: "syncfail"}, {Kind: "renamefail"},
		{Kind: "crash", Persist: "lose"}, {Kind: "crash", Persist: "keep"}, {Kind: "crash", Persist: "torn"}}
	for _, endOp := range picked {
		// the refresh that ended at endOp: walk back to its first "open trust-anchor.db"
		startOp := endOp - 1
		for startOp > 0 && !(log[startOp].Op == "open" && strings.HasSuffix(log[startOp].Path, "/"+resolver.VerifStateFile)) {
			startOp--
		}
		for op := startOp; op < endOp && op < len(log); op++ {
			var applicable []simdisk.Fault
			for _, k := range kinds {
				switch {
				case k.Kind == "short" && log[op].Op != "write",
					k.Kind == "syncfail" && log[op].Op != "sync",
					k.Kind == "renamefail" && log[op].Op != "rename":
					continue
				}
				applicable = append(applicable, k)
			}
			if !sc.EnumAll {
				applicable = applicable[op%len(applicable) : op%len(applicable)+1]
			}
			for _, k := range applicable {
				if kit.WallExpired() {
					// the batch's wall budget is used up: what was enumerated so far stands
					res.Probes["enumeration-cut-by-the-wall-budget"]++
					res.Nontrivial = true
					return res
				}
				sub := *sc
				sub.Enumerate = 0
				// enough history after the fault to see restarts and the next hold-down
				if d := int(log[op].At/(24*time.Hour)) + 35; d < sub.Days {
					sub.Days = d
				}
				f := k
				f.Op = op
				sub.Faults = []simdisk.Fault{f}
				tr2 := &kit.Trace{}
				r2, _ := runC09Once(&sub, tr2)
				res.ExtraSigs = append(res.ExtraSigs, tr2.ShapeSig())
				res.Evals++
				res.SimTime += r2.SimTime
				for kk, v := range r2.Faults {
					res.Faults[kk] += v
				}
				for kk, v := range r2.Probes {
					res.Probes[kk] += v
				}
				if r2.Viol != nil {
					res.Viol = r2.Viol
					res.Derived = &sub
					return res
				}
			}
		}
	}
	res.Nontrivial = true
	return res
}

func shrinkC09(sc0 any, fails func(any) bool) any {
	sc := sc0.(*C09Scenario)
	budget := 60
	cp := func(s *C09Scenario) *C09Scenario { c := *s; return &c }
	try := func(c *C09Scenario) bool {
		if budget <= 0 {
			return false
		}
		budget--
		return fails(c)
	}
	if len(sc.Restarts) > 0 {
		r := kit.DDMin(sc.Restarts, &budget, func(o []C09Restart) bool { c := cp(sc); c.Restarts = o; return fails(c) })
		sc = cp(sc)
		sc.Restarts = r
	}
	if len(sc.DiskEvents) > 0 {
		c := cp(sc)
		c.DiskEvents = nil
		if try(c) {
			sc = c
		}
	}
	if len(sc.Pubs) > 1 {
		rest := kit.DDMin(sc.Pubs[1:], &budget, func(o []C09Pub) bool {
			c := cp(sc)
			c.Pubs = append([]C09Pub{sc.Pubs[0]}, o...)
			return fails(c)
		})
		sc = cp(sc)
		sc.Pubs = append([]C09Pub{sc.Pubs[0]}, rest...)
	}
	for _, d := range []int{20, 45, 70, 100} {
		if d < sc.Days {
			c := cp(sc)
			c.Days = d
			if try(c) {
				sc = c
				break
			}
		}
	}
	return sc
}
