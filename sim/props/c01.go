package props

import (
	"fmt"
	"net/netip"
	"strings"
	"time"

	"github.com/miekg/dns"
	mcache "github.com/semihalev/sdns/middleware/cache"

	"verifsim/authsim"
	"verifsim/kit"
	"verifsim/simnet"
	"verifsim/world"
)

// C01 — validating clients get only authenticated data; AD implies authentic
// (DESIGN.md §3 C01). W-res: full default chain + real resolver over authsim, one
// outstanding client query at a time so every upstream packet is attributable.

type C01Op struct {
	Name   string `json:"name"`
	Qtype  uint16 `json:"qtype"`
	DO     bool   `json:"do,omitempty"`
	AD     bool   `json:"ad,omitempty"`
	CD     bool   `json:"cd,omitempty"`
	NoEDNS bool   `json:"no_edns,omitempty"`
	TCP    bool   `json:"tcp,omitempty"`
	GapMs  int    `json:"gap_ms,omitempty"`
}

type C01Tamper struct {
	Zone   string `json:"zone"`    // responses given by this zone's servers
	Kind   string `json:"kind"`    // authsim.TamperKinds
	Step   string `json:"step"`    // answer negative referral ds dnskey any
	FromOp int    `json:"from_op"` // active while from_op <= op index < to_op
	ToOp   int    `json:"to_op"`
	Qname  string `json:"qname,omitempty"` // only responses to this question name
}

type C01Scenario struct {
	Seed    uint64      `json:"seed"`
	World   world.Spec  `json:"world"`
	Ops     []C01Op     `json:"ops"`
	Tampers []C01Tamper `json:"tampers,omitempty"`
	// Wire: UDP questions enter as datagrams through the simulated UDP engine, so that answers
	// served from cache (re-asked names, alias chains) come from the byte path and its composer.
	Wire bool `json:"wire,omitempty"`
}

func init() {
	kit.Register(&kit.Prop{
		ID:    "C01",
		Level: "exploration",
		Rule: "Scenario = generated zone hierarchy (signed/unsigned/opt-out delegations, algorithms 8/10/13/14/15, NSEC/NSEC3, wildcards, CNAME/DNAME " +
			"chains, shared servers) + sequential client questions with DO/AD/CD/EDNS mixes (each name asked again later, so caches filled under " +
			"tampering are read) + path-wide tamperings of chosen resolution steps (answer, negative, referral, DS, DNSKEY) during windows of the " +
			"history, or a no-trust-anchor configuration. Oracle = ground truth computed from the zone model alone. Non-trivial = at least one " +
			"tampering was applied to a delivered response or a validated secure answer/denial was returned; distinct = hash of the sequence of " +
			"(question class, truth class, reply class, tamper fired) events.",
		Assumptions: []string{
			"sequential client operations: one outstanding query, detached helpers are left to settle before the next one",
			"clause 'tampered => SERVFAIL' is asserted only when the tampering hit a response to the client's own question or a DNSKEY/DS response of a zone on its path, for kinds that leave the content unverifiable",
			"authsim is the trusted reference for RFC 4034/4035/5155 answers; with zero tampers every secure question must come back equal to ground truth",
		},
		Components: kit.Components{
			Real: []string{"full default middleware chain (defaults.Register + middleware.Setup)", "resolver + dnssec validation", "cache", "edns", "dnsclient.Conn", "server.ServeMsg"},
			Stub: []string{"kernel sockets (simnet)", "authoritative servers (authsim)", "disk (simdisk)"},
		},
		Gen:      func(r *kit.RNG, tier string) any { return genC01(r) },
		Warmup:   true, // a quarter of the scenarios run the UDP engine (wire ingress): one P, and a warm-up scenario per process
		Blank:    func() any { return &C01Scenario{} },
		Run:      func(sc any, tr *kit.Trace) *kit.Result { return runC01(sc.(*C01Scenario), tr) },
		Shrink:   shrinkC01,
		PerChunk: 40,
		Quick:    4000,
		Thorough: 150000,
	})
}

func genC01(r *kit.RNG) *C01Scenario {
	sc := &C01Scenario{Seed: r.Uint64()}
	opt := world.GenOpt{SharedServers: true, AllSigned: r.Chance(0.4)}
	sc.World.Zones = world.GenHierarchy(r, opt)
	sc.World.Zones[0].Records = append(sc.World.Zones[0].Records, "a.root-servers.net. 518400 IN A 198.41.0.4")
	if r.Chance(0.12) {
		// one signed zone publishes signatures that expired before the run, or that are
		// not valid yet
		i := r.Range(1, len(sc.World.Zones)-1)
		if sc.World.Zones[i].Signed {
			if r.Bool() {
				sc.World.Zones[i].SigFromH, sc.World.Zones[i].SigToH = -72, -24
			} else {
				sc.World.Zones[i].SigFromH, sc.World.Zones[i].SigToH = 24*30, 24*60
			}
		}
	}
	sc.World.Cfg.QnameMin = kit.Pick(r, []int{0, 0, 3, 5})
	sc.World.Cfg.RFC8198Off = r.Chance(0.2)
	sc.World.Cfg.CacheSize = kit.Pick(r, []int{1024, 4096})
	noAnchor := r.Chance(0.05)
	sc.World.Cfg.NoAnchor = noAnchor
	w := world.BuildWorld(sc.World.Zones)
	qs := world.InterestingQuestions(w)
	nops := r.Range(4, 24)
	for i := 0; i < nops; i++ {
		var q world.Question
		if i > 2 && r.Chance(0.35) {
			p := sc.Ops[r.Intn(len(sc.Ops))] // ask an earlier name again
			q = world.Question{Name: p.Name, Qtype: p.Qtype}
		} else {
			q = kit.Pick(r, qs)
		}
		op := C01Op{Name: q.Name, Qtype: q.Qtype, DO: r.Chance(0.6), AD: r.Chance(0.3), CD: r.Chance(0.15), NoEDNS: r.Chance(0.15), TCP: r.Chance(0.15),
			GapMs: kit.Pick(r, []int{0, 10, 1000, 6000, 61000, 400000})}
		if op.NoEDNS {
			op.DO = false
		}
		if r.Chance(0.1) {
			op.Name = mixCase(r, op.Name)
		}
		sc.Ops = append(sc.Ops, op)
	}
	if !noAnchor && r.Chance(0.75) {
		var signed []string
		for _, z := range sc.World.Zones {
			if z.Signed {
				signed = append(signed, dns.CanonicalName(z.Name))
			}
		}
		nt := r.Range(1, 3)
		for i := 0; i < nt && len(signed) > 0; i++ {
			from := r.Intn(nops)
			t := C01Tamper{Zone: kit.Pick(r, signed), Kind: kit.Pick(r, authsim.TamperKinds),
				Step: kit.Pick(r, []string{"answer", "answer", "negative", "referral", "ds", "dnskey", "any"}), FromOp: from, ToOp: from + r.Range(1, nops)}
			switch t.Kind {
			case "drop-ds", "swap-ds":
				t.Step = "referral"
			case "drop-denial", "foreign-denial", "nx-to-nodata":
				t.Step = kit.Pick(r, []string{"negative", "referral", "ds"})
			case "wildcard-replay", "wildcard-replay-other-nsec", "wildcard-replay-forged-nsec":
				t.Step = "answer"
			case "nodata-for-existing", "flip-rdata", "forge-resign", "inject-answer", "drop-some-sigs":
				t.Step = kit.Pick(r, []string{"answer", "dnskey", "ds"})
			case "dname-cname-prefix":
				// applies to DNAME answers only: aim at a zone that has one and ask below it
				t.Step = "answer"
				var cands []string
				for _, z := range sc.World.Zones {
					if !z.Signed {
						continue
					}
					for _, rec := range z.Records {
						if strings.Contains(rec, " IN DNAME ") {
							cands = append(cands, dns.CanonicalName(z.Name)+"|"+strings.Fields(rec)[0])
						}
					}
				}
				if len(cands) > 0 {
					c := strings.SplitN(kit.Pick(r, cands), "|", 2)
					t.Zone, t.FromOp, t.ToOp = c[0], 0, 1<<20
					for k := 0; k < 3; k++ {
						sc.Ops = append(sc.Ops, C01Op{Name: kit.Pick(r, []string{"mail.", "a.b.", "x."}) + c[1], Qtype: kit.Pick(r, []uint16{dns.TypeA, dns.TypeA, dns.TypeTXT}),
							DO: r.Chance(0.6), AD: r.Chance(0.5), GapMs: kit.Pick(r, []int{10, 1000, 6000})})
					}
				}
			}
			sc.Tampers = append(sc.Tampers, t)
		}
	}
	// (drawn last so that the rest of the generated scenario is what it was before this mode existed)
	sc.Wire = r.Chance(0.25)
	if sc.Wire {
		// alias recipe for the byte path: a cross-zone alias and its target get cached as
		// separate entries, then the alias is asked again so that the reply is composed from
		// them (the composed reply is only as authentic as its weakest hop)
		var exts []string
		for _, z := range sc.World.Zones {
			for _, rec := range z.Records {
				if f := strings.Fields(rec); len(f) == 5 && f[3] == "CNAME" && strings.HasPrefix(f[0], "ext.") {
					exts = append(exts, f[0]+"|"+f[4])
				}
			}
		}
		if len(exts) > 0 {
			e := strings.SplitN(kit.Pick(r, exts), "|", 2)
			do, ad := r.Chance(0.6), r.Chance(0.6)
			rec := []C01Op{{Name: e[1], Qtype: dns.TypeA, DO: do, AD: ad, GapMs: 500}, {Name: e[0], Qtype: dns.TypeA, DO: do, AD: ad, GapMs: 500},
				{Name: e[0], Qtype: dns.TypeA, DO: do, AD: ad, GapMs: 1000}, {Name: e[0], Qtype: dns.TypeA, DO: r.Chance(0.5), AD: r.Chance(0.5), NoEDNS: r.Chance(0.3), GapMs: 2000}}
			at := r.Intn(len(sc.Ops) + 1)
			sc.Ops = append(sc.Ops[:at:at], append(rec, sc.Ops[at:]...)...)
		}
	}
	return sc
}

func mixCase(r *kit.RNG, s string) string {
	b := []byte(s)
	for i := range b {
		if b[i] >= 'a' && b[i] <= 'z' && r.Bool() {
			b[i] -= 32
		}
	}
	return string(b)
}

func hasEDE(m *dns.Msg) bool {
	if o := m.IsEdns0(); o != nil {
		for _, e := range o.Option {
			if _, ok := e.(*dns.EDNS0_EDE); ok {
				return true
			}
		}
	}
	return false
}

func containsEvil(m *dns.Msg) string {
	for _, sec := range [][]dns.RR{m.Answer, m.Ns, m.Extra} {
		for _, r := range sec {
			s := r.String()
			if strings.Contains(s, authsim.EvilA) || strings.Contains(s, authsim.EvilTXT) || strings.Contains(s, "attacker.test.") || strings.Contains(s, "2001:db8:bad::66") {
				return s
			}
		}
	}
	return ""
}

func runC01(sc *C01Scenario, tr *kit.Trace) *kit.Result {
	res := kit.NewResult()
	kit.Bubble(func() { execC01(sc, tr, res) })
	return res
}

// resOp is what an oracle sees after one client operation in a W-res history.
type resOp struct {
	i            int
	op           C01Op
	m            *dns.Msg
	truth        *authsim.Truth
	tclass       string
	rclass       string
	ctx          string
	fired        []firedRec
	upstream     int
	everTampered bool
	w            *world.Res
	sc           *C01Scenario
	res          *kit.Result
	tr           *kit.Trace
	hookLog      *[]hookRec
}

type firedRec struct {
	kind, step, zone, qname string
	qtype                   uint16
}

// hookRec is one authoritative response as delivered (tampered or not).
type hookRec struct {
	at       time.Duration
	zone     string
	kind     string // authsim answer kind
	step     string
	tampered bool
	op       int
	cd       bool
}

func execC01(sc *C01Scenario, tr *kit.Trace, res *kit.Result) { execRes(sc, tr, res, "C01", oracleC01) }

func execRes(sc *C01Scenario, tr *kit.Trace, res *kit.Result, pid string, oracle func(o *resOp) bool) {
	var w *world.Res
	var g *world.Ing
	if sc.Wire {
		var err error
		g, err = world.NewIng(&sc.World, world.IngSpec{Workers: 64, Queue: 64, Sockets: 1, Spare: 64}, sc.Seed, tr)
		if err != nil {
			res.Fail(pid+"/harness", "listener: %v", err)
			return
		}
		defer g.Close()
		w = g.Res
		wireBefore := mcache.VerifWireCounters()
		defer func() {
			for k, v := range mcache.VerifWireCounters() {
				if d := v - wireBefore[k]; d > 0 {
					res.Probes["wire-ladder:"+k] += int(d)
				}
			}
		}()
	} else {
		w = world.NewRes(&sc.World, sc.Seed, tr)
		defer w.Close()
	}
	zones := w.World.Zones
	// attacker zone: a signed zone other than the target; other: any other signed zone
	pickOther := func(not string) *authsim.Zone {
		var names []string
		for n, z := range zones {
			// The attacker holds the keys of a zone it owns: never the victim zone and
			// never an ancestor of it (an ancestor's key legitimately controls the chain).
			if n != not && z.Signed && !dns.IsSubDomain(n, not) {
				names = append(names, n)
			}
		}
		if len(names) == 0 {
			return nil
		}
		min := names[0]
		for _, n := range names {
			if n < min {
				min = n
			}
		}
		return zones[min]
	}
	curOp := -1
	var fired []firedRec
	var hookLog []hookRec
	w.Hook = func(addr netip.Addr, q *simnet.Query, honest *authsim.Answer) []simnet.Reply {
		if honest.Zone == nil || len(q.Msg.Question) == 0 {
			return nil
		}
		qu := q.Msg.Question[0]
		step := authsim.StepOf(honest, qu.Qtype)
		msg := honest
		applied := false
		spoiled := false // the delivered response no longer carries a valid proof
		defer func() {
			hookLog = append(hookLog, hookRec{at: w.Now(), zone: honest.Zone.Name, kind: honest.Kind, step: step, tampered: spoiled, op: curOp, cd: q.Msg.CheckingDisabled})
		}()
		kindDone := map[string]bool{}
		for _, t := range sc.Tampers {
			if curOp < t.FromOp || curOp >= t.ToOp || dns.CanonicalName(t.Zone) != honest.Zone.Name {
				continue
			}
			if kindDone[t.Kind] {
				// two tamperings of one kind matching the same response are one tampering: applied
				// twice, sig-labels on the root (0 -> 1 -> 0) would restore the genuine message
				continue
			}
			if t.Step != "any" && t.Step != step {
				continue
			}
			if t.Qname != "" && dns.CanonicalName(t.Qname) != dns.CanonicalName(qu.Name) {
				continue
			}
			other := pickOther(honest.Zone.Name)
			m, ok := authsim.Apply(t.Kind, msg, other, other)
			if !ok {
				continue
			}
			msg = &authsim.Answer{Zone: honest.Zone, Msg: m, Kind: honest.Kind, Child: honest.Child}
			applied = true
			kindDone[t.Kind] = true
			if t.Kind != "denial-dup-reorder" && authsim.Invalidating(t.Kind) {
				spoiled = true
			}
			fired = append(fired, firedRec{t.Kind, step, honest.Zone.Name, dns.CanonicalName(qu.Name), qu.Qtype})
			res.Fault("tamper:" + t.Kind)
			res.Probes["tamper-step:"+step]++
			tr.AddAt(w.Now(), "tamper %s on %s step=%s q=%s/%s", t.Kind, honest.Zone.Name, step, qu.Name, dns.TypeToString[qu.Qtype])
		}
		if !applied {
			return nil
		}
		return world.PackReply(msg.Msg, q)
	}
	kit.SleepSettle(5 * time.Second) // priming and first trust-anchor refresh
	defer func() { res.SimTime = w.Now(); res.Steps = w.Net.SentCount() }()
	everTampered := false
	for i, op := range sc.Ops {
		if res.Viol != nil {
			return
		}
		kit.SleepSettle(time.Duration(op.GapMs)*time.Millisecond + 50*time.Millisecond)
		curOp = i
		fired = fired[:0]
		q := new(dns.Msg)
		q.SetQuestion(op.Name, op.Qtype)
		q.RecursionDesired = true
		q.AuthenticatedData = op.AD
		q.CheckingDisabled = op.CD
		if !op.NoEDNS {
			q.SetEdns0(1232, op.DO)
		}
		proto := "udp"
		if op.TCP {
			proto = "tcp"
		}
		sentBefore := w.Net.SentCount()
		t0 := time.Now()
		client := netip.MustParseAddrPort("10.9.0.1:40000")
		var replies []*dns.Msg
		if g != nil && !op.TCP {
			q.Id = uint16(5000 + i)
			raw, perr := q.Pack()
			if perr != nil {
				res.Fail(pid+"/harness", "pack: %v", perr)
				return
			}
			seenOut := len(g.K.Out)
			g.Send(0, client, raw)
			kit.Settle()
			for waited := 0; waited < 250 && len(g.K.Out) == seenOut; waited++ {
				kit.SleepSettle(100 * time.Millisecond)
			}
			for _, snt := range g.K.Out[seenOut:] {
				rm := new(dns.Msg)
				if snt.To == client && rm.Unpack(snt.Data) == nil && rm.Id == q.Id {
					replies = append(replies, rm)
				}
			}
		} else {
			replies = w.Ask(client, proto, q).Replies
		}
		lat := time.Since(t0)
		kit.SleepSettle(3 * time.Second) // let detached helpers finish inside this op's window
		upstream := w.Net.SentCount() - sentBefore
		truth := w.World.Truth(op.Name, op.Qtype)
		tclass := truth.Kind
		if truth.Secure {
			tclass += "/secure"
		} else {
			tclass += "/insecure"
		}
		if len(fired) > 0 {
			everTampered = true
		}
		if len(replies) != 1 {
			res.Fail(pid+"/reply-count", "op %d %s/%s: %d replies", i, op.Name, dns.TypeToString[op.Qtype], len(replies))
			return
		}
		m := replies[0]
		rclass := dns.RcodeToString[m.Rcode]
		if m.AuthenticatedData {
			rclass += "+AD"
		}
		tr.AddAt(w.Now(), "op %d %s/%s do=%v ad=%v cd=%v -> %s ans=%d upstream=%d lat=%v truth=%s fired=%d", i, op.Name, dns.TypeToString[op.Qtype], op.DO, op.AD, op.CD, rclass, len(m.Answer), upstream, lat, tclass, len(fired))
		tr.Shape(fmt.Sprintf("%s|%s|%v|%v", tclass, rclass, len(fired) > 0, op.CD))
		ctx := fmt.Sprintf("op %d %s/%s (do=%v ad=%v cd=%v): reply %s", i, op.Name, dns.TypeToString[op.Qtype], op.DO, op.AD, op.CD, rclass)
		o := &resOp{i: i, op: op, m: m, truth: truth, tclass: tclass, rclass: rclass, ctx: ctx, fired: fired, upstream: upstream,
			everTampered: everTampered, w: w, sc: sc, res: res, tr: tr, hookLog: &hookLog}
		if !oracle(o) {
			return
		}
	}
}

// oracleC01 evaluates the C01 clauses on one reply; false stops the run.
func oracleC01(o *resOp) bool {
	i, op, m, truth, ctx, fired, everTampered, w, sc, res, tr, tclass := o.i, o.op, o.m, o.truth, o.ctx, o.fired, o.everTampered, o.w, o.sc, o.res, o.tr, o.tclass
	_, _, _ = i, tr, tclass
	// Clause 4: AD never toward CD clients or clients that set neither DO nor AD.
	if m.AuthenticatedData && (op.CD || (!op.DO && !op.AD)) {
		res.Fail("C01/ad-to-unentitled-client", "%s: AD set for a client with cd=%v do=%v ad=%v", ctx, op.CD, op.DO, op.AD)
		return false
	}
	// Clause 3: AD only for secure data.
	if m.AuthenticatedData && !truth.Secure {
		// Name the broken link when it is of the one recorded kind: a signed zone without a DS
		// in its parent (an island) whose own children are signed and carry DS records. Inside
		// such an island the DS/DNSKEY chain validates link by link, but nothing anchors it.
		res.Fail("C01/ad-on-insecure", "%s: AD set but the name is not under an unbroken signed chain (truth %s)%s", ctx, tclass, c01Island(sc.World.Zones, op.Name))
		return false
	}
	if m.AuthenticatedData && truth.OptOut && (truth.Kind == "nxdomain" || truth.Kind == "nodata") && op.Qtype == dns.TypeDS {
		res.Fail("C01/ad-on-optout-denial", "%s: AD set on a denial that rests on an opt-out span", ctx)
		return false
	}
	if op.CD {
		return true // checking disabled: the client asked for unvalidated data
	}
	if op.Qtype == dns.TypeANY || op.Qtype == dns.TypeRRSIG || truth.Loop {
		return true
	}
	if sc.World.Cfg.NoAnchor {
		// Clause 5: no trust anchor => SERVFAIL rather than unvalidated data.
		if m.Rcode != dns.RcodeServerFailure {
			res.Fail("C01/no-anchor-not-servfail", "%s: no trust anchor is configured but the reply is not SERVFAIL", ctx)
		}
		res.Probes["no-anchor-servfail"]++
		return true
	}
	if truth.Bogus && truth.BogusBehindInsecure && everTampered {
		// The bad zone sits behind an alias an insecure zone published, and responses have
		// been altered: the alias may have been pointed elsewhere, which no validator can
		// tell. Only the AD clauses above apply.
		res.Probes["bogus-window-behind-altered-insecure-alias"]++
		return true
	}
	if truth.Bogus {
		if m.Rcode != dns.RcodeServerFailure {
			hit := ""
			for _, f := range fired {
				hit += fmt.Sprintf(" [tampering %s hit the %s response of %s]", f.kind, f.step, f.zone)
			}
			res.Fail("C01/expired-signatures-accepted", "%s: a zone on the secure path only has signatures outside their validity window, yet the client did not get SERVFAIL%s", ctx, hit)
			return false
		}
		res.Probes["bogus-window-servfail"]++
		res.Nontrivial = true
		return true
	}
	if m.Rcode == dns.RcodeServerFailure {
		if !everTampered {
			res.Probes["selfcheck:faultfree-servfail"]++
			tr.AddAt(w.Now(), "SELF-CHECK: SERVFAIL with no tampering so far")
		}
		if !op.NoEDNS && everTampered && !hasEDE(m) && truth.Secure {
			via := "direct"
			for _, rr := range truth.Answer {
				if rr.Header().Rrtype == dns.TypeDNAME {
					via = "via DNAME"
				}
			}
			res.Fail("C01/servfail-without-ede", "%s: SERVFAIL to an EDNS client without an Extended DNS Error (%s)", ctx, via)
		}
		return true
	}
	if !truth.Secure {
		return true // insecure names cannot be authenticated; only the AD clauses apply
	}
	if truth.Spoofable {
		// The name falls in an NSEC3 opt-out span: the zone does not sign the absence
		// of insecure delegations there, so an attacker can legitimately-looking
		// place unsigned data or denials at it. Only "never AD" applies.
		if m.AuthenticatedData {
			res.Fail("C01/ad-on-optout-denial", "%s: AD set although the denial rests on an opt-out span", ctx)
			return false
		}
		res.Probes["optout-span-name"]++
		return true
	}
	// Clause 1: secure => exactly what the signer published.
	if evil := containsEvil(m); evil != "" {
		res.Fail("C01/foreign-record-relayed", "%s: reply carries a record of attacker origin: %s\n%s", ctx, evil, m.String())
		return false
	}
	if m.Rcode == dns.RcodeSuccess && truth.Rcode == dns.RcodeNameError && everTampered {
		// An attacker can rewrite the (unsigned) rcode of a proven NXDOMAIN to NOERROR;
		// the proof still shows there is no data. Reporting "no data" for a name that
		// does not exist denies nothing that exists, so it is not altered data. (The
		// reverse — NXDOMAIN for a name that exists — is checked.)
		res.Probes["nxdomain-downgraded-to-nodata"]++
	} else if m.Rcode != truth.Rcode {
		res.Fail("C01/altered-rcode", "%s: zone data says %s (%s)", ctx, dns.RcodeToString[truth.Rcode], tclass)
		return false
	}
	got := authsim.RRKeys(m.Answer, dns.TypeRRSIG)
	want := authsim.RRKeys(truth.Answer, dns.TypeRRSIG)
	same := strings.Join(got, "\n") == strings.Join(want, "\n")
	if !same && (truth.Kind == "nxdomain" || truth.Kind == "nodata") {
		// A denial at the end of an alias chain: the rcode/denial is the content; the
		// chain records in the answer may be omitted, but whatever is shown must be
		// records the zone publishes.
		same = true
		wset := map[string]bool{}
		for _, k := range want {
			wset[k] = true
		}
		for _, k := range got {
			if !wset[k] {
				same = false
			}
		}
		if same {
			res.Probes["denial-with-partial-chain"]++
		}
	}
	if !same {
		res.Fail("C01/altered-answer", "%s: answer differs from what the zone publishes\n got: %v\nwant: %v", ctx, got, want)
		return false
	}
	if len(want) > 0 || truth.Kind != "answer" {
		res.Probes["secure-validated:"+truth.Kind]++
		// reach probe: how often authentic data also came back marked authentic to a client
		// entitled to the mark (AD is an upper-bounded claim in this property, never required;
		// a validator that stopped setting it would still show here as a counter gone to zero)
		if (op.DO || op.AD) && !op.CD && !everTampered {
			if m.AuthenticatedData {
				res.Probes["secure-with-ad-untampered"]++
			} else {
				res.Probes["secure-without-ad-untampered"]++
			}
		}
		if (op.DO || op.AD) && m.AuthenticatedData {
			res.Nontrivial = true
		}
	}
	// Clause 2: an invalidating tampering of this question's own response (or of a
	// DNSKEY response of a zone on its path) must surface as SERVFAIL.
	for _, f := range fired {
		if !authsim.Invalidating(f.kind) {
			return true
		}
		own := f.qname == dns.CanonicalName(op.Name) && f.qtype == op.Qtype && (f.step == "answer" || f.step == "negative")
		onPath := false
		if f.step == "dnskey" {
			for _, z := range truth.Zones {
				if z.Name == f.zone {
					onPath = true
				}
			}
		}
		resign := f.kind == "sig-resign" || f.kind == "forge-resign"
		if (own || onPath) && f.kind != "drop-some-sigs" && !resign || (own && resign) {
			res.Fail("C01/tampered-not-servfail", "%s: tampering %s hit the %s response of %s for %s/%s, yet the client did not get SERVFAIL", ctx, f.kind, f.step, f.zone, f.qname, dns.TypeToString[f.qtype])
			return false
		}
	}
	return true
}

func shrinkC01(sc0 any, fails func(any) bool) any {
	sc := sc0.(*C01Scenario)
	budget := 60
	cp := func(s *C01Scenario) *C01Scenario { c := *s; return &c }
	// ops: keep tamper windows meaningful by remapping them to "always on"
	all := cp(sc)
	all.Tampers = append([]C01Tamper(nil), sc.Tampers...)
	for i := range all.Tampers {
		all.Tampers[i].FromOp, all.Tampers[i].ToOp = 0, 1<<20
	}
	if budget--; fails(all) {
		sc = all
		ops := kit.DDMin(sc.Ops, &budget, func(o []C01Op) bool { c := cp(sc); c.Ops = o; return fails(c) })
		sc = cp(sc)
		sc.Ops = ops
	}
	if len(sc.Tampers) > 1 {
		ts := kit.DDMin(sc.Tampers, &budget, func(o []C01Tamper) bool { c := cp(sc); c.Tampers = o; return fails(c) })
		sc = cp(sc)
		sc.Tampers = ts
	}
	for i := range sc.Ops {
		if sc.Ops[i].GapMs != 0 && budget > 0 {
			budget--
			c := cp(sc)
			c.Ops = append([]C01Op(nil), sc.Ops...)
			c.Ops[i].GapMs = 0
			if fails(c) {
				sc = c
			}
		}
	}
	return sc
}

// c01Island returns " island=<zone>" when name lies in a zone that is chained by DS records
// up to a signed zone that itself has no DS in its parent, else "".
func c01Island(zones []world.ZoneSpec, name string) string {
	name = dns.CanonicalName(name)
	by := map[string]world.ZoneSpec{}
	for _, z := range zones {
		by[dns.CanonicalName(z.Name)] = z
	}
	enclosing := func(n string) (world.ZoneSpec, bool) {
		best, ok := world.ZoneSpec{}, false
		for zn, z := range by {
			if dns.IsSubDomain(zn, n) && (!ok || dns.CountLabel(zn) > dns.CountLabel(best.Name)) {
				best, ok = z, true
			}
		}
		return best, ok
	}
	z, ok := enclosing(name)
	for hops := 0; ok && hops < 10; hops++ {
		zn := dns.CanonicalName(z.Name)
		if !z.Signed || zn == "." {
			return ""
		}
		if !z.Secure {
			if hops == 0 {
				return "" // the island's own apex data: nothing was chained to it
			}
			return " island=" + zn
		}
		// parent zone of z
		labels := dns.SplitDomainName(zn)
		if len(labels) == 0 {
			return ""
		}
		parentName := dns.Fqdn(strings.Join(labels[1:], "."))
		z, ok = enclosing(parentName)
	}
	return ""
}
