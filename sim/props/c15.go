package props

import (
	"bytes"
	"fmt"
	"reflect"
	"strings"

	"github.com/miekg/dns"
	"github.com/semihalev/sdns/verifx/bridge"
	"github.com/semihalev/sdns/verifx/verifsync"

	"verifsim/dnsgen"
	"verifsim/kit"
)

// C15 — the pooled packer is byte-identical to the library and side-effect free, under
// any reuse of its pooled state by concurrent requests (DESIGN.md §3 C15).
//
// K tasks share TryPack / PackClone. Each task's consume callback parks at scheduler
// points, so packs overlap and nest in seeded orders and pooled states are recycled
// while other packs are still inside their callbacks.

type C15Op struct {
	Msg    uint64 `json:"msg"`              // seed of the generated message
	Shared int    `json:"shared,omitempty"` // >0: use shared message #Shared-1 instead
	Clone  bool   `json:"clone,omitempty"`  // PackClone instead of TryPack
	Shape  string `json:"shape,omitempty"`  // "", nil, foreign, typednil, foreignopt, aliasopt
	Yields int    `json:"yields,omitempty"` // scheduler points inside the callback
	Nested uint64 `json:"nested,omitempty"` // seed of a message packed inside the callback
}

type C15Scenario struct {
	Shared   []uint64  `json:"shared,omitempty"`
	Tasks    [][]C15Op `json:"tasks"`
	Schedule []int     `json:"schedule"`
}

func init() {
	kit.Register(&kit.Prop{
		ID:    "C15",
		Level: "exploration",
		Rule: "Scenario = per-task lists of pack operations (generated message, TryPack or PackClone, shape mutation, yields inside " +
			"the consume callback, nested pack) + schedule. Non-trivial = at least one other task packed while a task was inside its " +
			"callback (pool state recycled under overlap) or a nested pack ran; distinct = hash of the (task, op, outcome) sequence. " +
			"Byte parity with dns.Msg.Pack over all message structures is input-universal and only sampled by the generator.",
		Assumptions: []string{
			"packs overlap at the consume callback and in front of every record the packer writes (a scheduling point substituted for its dns.PackRR call in the overlay copy); other instants inside a pack are not interleaved",
			"GOMAXPROCS=1 so sync.Pool hands the most recently released state to the next pack",
		},
		Components: kit.Components{
			Real: []string{"internal/wire.TryPack", "internal/wire.PackClone", "miekg/dns Pack as reference"},
			Stub: []string{"goroutine scheduling (cooperative scheduler)"},
		},
		Gen:      func(r *kit.RNG, tier string) any { return genC15(r) },
		Blank:    func() any { return &C15Scenario{} },
		Run:      func(sc any, tr *kit.Trace) *kit.Result { return runC15(sc.(*C15Scenario), tr) },
		Shrink:   shrinkC15,
		PerChunk: 300,
		Quick:    8000,
		Thorough: 400000,
	})
}

func genC15(r *kit.RNG) *C15Scenario {
	sc := &C15Scenario{}
	nshared := r.Intn(3)
	for i := 0; i < nshared; i++ {
		sc.Shared = append(sc.Shared, r.Uint64())
	}
	ntasks := r.Range(1, 6)
	shapes := []string{"", "", "", "", "", "", "nil", "foreign", "typednil", "foreignopt", "aliasopt"}
	for t := 0; t < ntasks; t++ {
		var ops []C15Op
		n := r.Range(1, 6)
		for i := 0; i < n; i++ {
			op := C15Op{Msg: r.Uint64(), Clone: r.Chance(0.3), Shape: kit.Pick(r, shapes), Yields: r.Intn(4)}
			if nshared > 0 && r.Chance(0.25) {
				op.Shared = r.Range(1, nshared)
				op.Shape = ""
			}
			if r.Chance(0.2) {
				op.Nested = r.Uint64()
			}
			ops = append(ops, op)
		}
		sc.Tasks = append(sc.Tasks, ops)
	}
	p := kit.Pick(r, []float64{0.1, 0.4, 0.9})
	n := r.Range(10, 120)
	for i := 0; i < n; i++ {
		if r.Chance(p) {
			sc.Schedule = append(sc.Schedule, r.Range(1, ntasks))
		} else {
			sc.Schedule = append(sc.Schedule, 0)
		}
	}
	return sc
}

// foreignRR satisfies dns.RR by promotion from an embedded library record: not a type the
// library declares.
type foreignRR struct{ dns.RR }

type foreignOpt struct{ dns.EDNS0_LOCAL }

func c15Msg(seed uint64, shape string) *dns.Msg {
	r := kit.NewRNG(seed)
	m := dnsgen.Msg(r)
	switch shape {
	case "nil":
		m.Answer = append(m.Answer, nil)
	case "typednil":
		var a *dns.A
		m.Ns = append(m.Ns, a)
	case "foreign":
		m.Answer = append(m.Answer, &foreignRR{dnsgen.RR(r, nil)})
	case "foreignopt":
		o := dnsgen.OPT(r)
		o.Option = append(o.Option, &foreignOpt{dns.EDNS0_LOCAL{Code: 65001, Data: []byte{1}}})
		m.Extra = append(m.Extra, o)
	case "aliasopt":
		o := dnsgen.OPT(r)
		m.Extra = append(m.Extra, o)
		m.Answer = append(m.Answer, o) // the same object in two sections
		if r.Bool() {
			m.Extra = append(m.Extra, dnsgen.OPT(r))
		}
		m.Rcode = kit.Pick(r, []int{0, 16, 23, 4095})
	}
	return m
}

func msgSnapshot(m *dns.Msg) string {
	// Printing covers header, every record header (incl. Rdlength via %#v) and rdata.
	var b strings.Builder
	fmt.Fprintf(&b, "%#v|", m.MsgHdr)
	fmt.Fprintf(&b, "%v|%v|", m.Compress, m.Question)
	for _, sec := range [][]dns.RR{m.Answer, m.Ns, m.Extra} {
		for _, rr := range sec {
			if rr == nil || (reflect.ValueOf(rr).Kind() == reflect.Pointer && reflect.ValueOf(rr).IsNil()) {
				b.WriteString("<nil>;")
				continue
			}
			fmt.Fprintf(&b, "%#v=%s;", *rr.Header(), rr.String())
		}
		b.WriteString("|")
	}
	return b.String()
}

func runC15(sc *C15Scenario, tr *kit.Trace) *kit.Result {
	res := kit.NewResult()
	s := verifsync.NewSched(sc.Schedule)
	s.MaxSteps = 100000
	shared := make([]*dns.Msg, len(sc.Shared))
	sharedRef := make([][]byte, len(sc.Shared))
	sharedErr := make([]error, len(sc.Shared))
	sharedSnap := make([]string, len(sc.Shared))
	for i, sd := range sc.Shared {
		shared[i] = c15Msg(sd, "")
		sharedSnap[i] = msgSnapshot(shared[i])
		sharedRef[i], sharedErr[i] = shared[i].Copy().Pack()
	}
	inCallback := 0
	fail := func(class, format string, a ...any) { res.Fail(class, format, a...) }
	var events []string
	for ti, ops := range sc.Tasks {
		ti, ops := ti, ops
		s.Go(func() {
			for oi, op := range ops {
				var m *dns.Msg
				var ref []byte
				var refErr error
				isShared := op.Shared > 0 && op.Shared <= len(shared)
				weird := op.Shape == "nil" || op.Shape == "typednil" || op.Shape == "foreign" || op.Shape == "foreignopt"
				if isShared {
					m = shared[op.Shared-1]
					ref, refErr = sharedRef[op.Shared-1], sharedErr[op.Shared-1]
				} else {
					m = c15Msg(op.Msg, op.Shape)
				}
				before := msgSnapshot(m)
				tag := fmt.Sprintf("t%d.%d", ti, oi)
				if isShared && before != sharedSnap[op.Shared-1] {
					// Another task is inside a pack of this message (parked in front of one of
					// its records): what it has written into the message so far is visible.
					fail("C15/message-mutated", "%s: shared message seen modified while another pack of it is in flight\nbuilt %s\nseen  %s", tag, sharedSnap[op.Shared-1], before)
				}
				overlapped := false
				called := 0
				var got []byte
				consume := func(body []byte) error {
					called++
					if cap(body) != len(body) {
						fail("C15/capacity-exposed", "%s: consume got len=%d cap=%d: the pooled buffer's tail is reachable", tag, len(body), cap(body))
					}
					got = append([]byte(nil), body...)
					inCallback++
					for y := 0; y < op.Yields; y++ {
						s.Yield("consume")
						if inCallback > 1 {
							overlapped = true
						}
						if !bytes.Equal(body, got) {
							fail("C15/buffer-aliased", "%s: bytes handed to consume changed while another pack ran (pooled buffer shared by two live packs)", tag)
						}
					}
					if op.Nested != 0 {
						nm := c15Msg(op.Nested, "")
						nref, nerr := nm.Copy().Pack()
						h, _ := bridge.TryPack(nm, func(nb []byte) error {
							if nerr != nil || !bytes.Equal(nb, nref) {
								fail("C15/byte-parity", "%s: nested pack differs from the library's Pack", tag)
							}
							if len(nb) > 0 && len(body) > 0 && &nb[0] == &body[0] {
								fail("C15/buffer-aliased", "%s: nested pack was handed the outer pack's buffer", tag)
							}
							return nil
						})
						_ = h
						res.Probes["nested"]++
						if !bytes.Equal(body, got) {
							fail("C15/buffer-aliased", "%s: outer bytes changed during a nested pack", tag)
						}
					}
					inCallback--
					return nil
				}
				var handled bool
				var err error
				if weird {
					// PackClone falls back to the library, whose behaviour on such shapes
					// (error or panic) is its own; only the pooled path's refusal is checked.
					op.Clone = false
				}
				if op.Clone {
					got, err = bridge.PackClone(m)
					handled = true
				} else {
					handled, err = bridge.TryPack(m, consume)
				}
				if after := msgSnapshot(m); after != before {
					fail("C15/message-mutated", "%s: message changed by the packer\nbefore %s\nafter  %s", tag, before, after)
				}
				outcome := "declined"
				if !op.Clone && !handled && called > 0 {
					fail("C15/declined-after-output", "%s: TryPack reported handled=false after invoking consume", tag)
				}
				if !op.Clone && handled && called != 1 {
					fail("C15/consume-count", "%s: handled=true but consume ran %d times", tag, called)
				}
				if !op.Clone && weird && handled {
					fail("C15/foreign-admitted", "%s: message with a %s record was packed by the pooled path", tag, op.Shape)
				}
				if !weird {
					if !isShared {
						// Reference on the original message itself, which preserves aliasing of
						// one record object across sections (the library mutates it: it is
						// discarded afterwards).
						ref, refErr = m.Pack()
					}
					if handled && !op.Clone {
						outcome = "packed"
						if refErr != nil {
							fail("C15/byte-parity", "%s: pooled packer produced %d bytes but the library refuses the message: %v", tag, len(got), refErr)
						} else if !bytes.Equal(got, ref) {
							fail("C15/byte-parity", "%s: pooled packer bytes differ from dns.Msg.Pack (len %d vs %d, first diff at %d)", tag, len(got), len(ref), firstDiff(got, ref))
						}
					}
					if op.Clone {
						outcome = "clone"
						if (err != nil) != (refErr != nil) {
							fail("C15/byte-parity", "%s: PackClone err=%v, library err=%v", tag, err, refErr)
						} else if err == nil && !bytes.Equal(got, ref) {
							fail("C15/byte-parity", "%s: PackClone bytes differ from dns.Msg.Pack (len %d vs %d, first diff at %d)", tag, len(got), len(ref), firstDiff(got, ref))
						} else if err == nil && cap(got) != len(got) {
							fail("C15/capacity-exposed", "%s: PackClone returned len=%d cap=%d", tag, len(got), cap(got))
						}
					}
				}
				if overlapped {
					res.Probes["overlapped"]++
					res.Nontrivial = true
				}
				if op.Nested != 0 && handled {
					res.Nontrivial = true
				}
				if len(ref) > 3500 {
					res.Probes["near-4096"]++
				}
				events = append(events, fmt.Sprintf("%s %s shape=%q len=%d overlap=%v", tag, outcome, op.Shape, len(got), overlapped))
				tr.Shape(fmt.Sprintf("%d%s%s%v", ti, outcome, op.Shape, overlapped))
				res.Probes[outcome]++
			}
		})
	}
	done := s.Run()
	res.Steps = len(s.Decisions)
	for _, e := range events {
		tr.Add("%s", e)
	}
	tr.Add("decisions %v", s.Decisions)
	if len(s.Panics) > 0 {
		res.Fail("C15/panic", "%s", strings.Join(s.Panics, "; "))
	} else if !done {
		res.Fail("C15/stuck", "tasks did not finish (deadlock=%v)", s.Deadlock)
	}
	return res
}

func firstDiff(a, b []byte) int {
	n := len(a)
	if len(b) < n {
		n = len(b)
	}
	for i := 0; i < n; i++ {
		if a[i] != b[i] {
			return i
		}
	}
	return n
}

func shrinkC15(sc0 any, fails func(any) bool) any {
	sc := sc0.(*C15Scenario)
	budget := 300
	cp := func(s *C15Scenario) *C15Scenario { c := *s; c.Tasks = append([][]C15Op(nil), s.Tasks...); return &c }
	for ti := range sc.Tasks {
		ti := ti
		ops := kit.DDMin(sc.Tasks[ti], &budget, func(o []C15Op) bool { c := cp(sc); c.Tasks[ti] = o; return fails(c) })
		sc = cp(sc)
		sc.Tasks[ti] = ops
	}
	for i := range sc.Schedule {
		if sc.Schedule[i] != 0 && budget > 0 {
			budget--
			c := cp(sc)
			c.Schedule = append([]int(nil), sc.Schedule...)
			c.Schedule[i] = 0
			if fails(c) {
				sc = c
			}
		}
	}
	return sc
}
