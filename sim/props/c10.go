package props

import (
	"fmt"
	"runtime"
	"strings"

	"github.com/miekg/dns"
	"github.com/semihalev/sdns/verifx/verifsync"

	"verifsim/kit"
)

// C10 — replies reach only their own client and carry only their own bytes
// (DESIGN.md §3 C10). Runs on the W-ing engine (ing.go).

func init() {
	kit.Register(&kit.Prop{
		ID:    "C10",
		Level: "exploration",
		Rule: "Scenario = engine shape (workers, queue, sockets, spare slabs, receive buffer, batch or portable I/O) + 4-40 datagrams from " +
			"2-8 clients (pairs share an address and differ in port; IDs from {1,2,3}; names shared between clients; a per-operation token " +
			"in the letter case of the question) arriving in bursts, mixed with packets that end without a reply (short, QR=1, malformed) " +
			"+ kernel faults (partial sendmmsg, sendmmsg/recvmmsg errno, poisoned destination) + seeded yields at send points. " +
			"Non-trivial = a batch carried more than one datagram, or a job was handed from the inline pass to a worker, or a slab was " +
			"reused after a no-reply packet, or a fault fired. Distinct = hash of per-operation (kind, reply count, rcode, batch flag).",
		Assumptions: []string{
			"goroutine interleaving is whatever the Go scheduler does with GOMAXPROCS=1 for the seeded arrival pattern plus seeded yields at send points; it is not chosen at lock granularity",
			"the owned UDP and TCP listeners are simulated (stream clients pipeline frames, split writes, read late or through small windows, close or reset); TLS, DoH and DoQ are not",
		},
		Components: kit.Components{
			Real: []string{"server UDP listener, engine, slab cache, batch reader/sender (recvmmsg/sendmmsg code paths), inline serve and replay", "server TCP listener, tcpEngine, tcpStream (framing, staging, flush)", "Server.ServeRaw / ServeRawInline / ServeRawReplay, whole middleware chain, cache, resolver (shared lookups)"},
			Stub: []string{"kernel sockets and the recvmmsg/sendmmsg system calls (simsock + verifunix)", "upstream network (simnet) and authoritative servers (authsim)", "TCP sockets (simsock streams under the real tcpEngine/tcpStream)", "TLS, DoH, DoQ listeners (not started)"},
		},
		Gen:      func(r *kit.RNG, tier string) any { return genIng(r, "c10") },
		Blank:    func() any { return &IngScenario{} },
		Run:      func(sc any, tr *kit.Trace) *kit.Result { return runC10(sc.(*IngScenario), tr) },
		Shrink:   shrinkIng,
		Warmup:   true,
		WarmupGen: ingWarmup,
		PerChunk: 12,
		Quick:    16000,
		Thorough: 500000,
	})
}

func runC10(sc *IngScenario, tr *kit.Trace) *kit.Result {
	res := kit.NewResult()
	if sc.Perturb != 0 && sc.PackGap {
		// Other goroutines may run between the moment a reply's pooled pack state goes back
		// to its pool and whatever the writer does next with the bytes it was given.
		prng := kit.NewRNG(sc.Perturb ^ 0x5bd1e995)
		verifsync.AfterPackRelease = func() {
			for i, n := 0, prng.Intn(3); i < n; i++ {
				runtime.Gosched()
			}
		}
		defer func() { verifsync.AfterPackRelease = nil }()
	}
	kit.Bubble(func() {
		x := execIng(sc, tr, res)
		if x == nil || res.Viol != nil {
			return
		}
		c10Check(x, tr, res)
	})
	return res
}

func c10Check(x *ingRun, tr *kit.Trace, res *kit.Result) {
	// 1. nothing is sent that answers no query of its destination
	if len(x.stray) > 0 {
		s := x.stray[0]
		m := new(dns.Msg)
		_ = m.Unpack(s.Data)
		res.Fail("C10/reply-to-wrong-client", "at %v the server sent %d bytes to %v: %s\n%s", s.At, len(s.Data), s.To, x.strayWhy[0], m)
		return
	}
	noReplyThenReuse := false
	sawNoReply := false
	for _, rec := range x.recs {
		if rec == nil {
			continue
		}
		if rec.Queued && len(rec.Replies) == 0 {
			sawNoReply = true
		} else if sawNoReply && len(rec.Replies) > 0 {
			noReplyThenReuse = true
		}
		for _, rp := range rec.Replies {
			tr.Shape(fmt.Sprintf("%s:%d:%v", rec.Op.Kind, rp.Data[3]&0xf, rp.Batch))
			// 2. the datagram is exactly one DNS message: no trailing bytes of anyone else
			end := ingMsgEnd(rp.Data)
			if end != len(rp.Data) {
				res.Fail("C10/foreign-bytes-in-reply", "op %d (%s to %v): the reply is %d bytes but the message in it ends at %d", rec.Idx, rec.QName, rp.To, len(rp.Data), end)
				return
			}
			m := new(dns.Msg)
			if err := m.Unpack(rp.Data); err != nil {
				res.Fail("C10/foreign-bytes-in-reply", "op %d (%s to %v): the reply does not parse: %v", rec.Idx, rec.QName, rp.To, err)
				return
			}
			if !rec.WellFormed {
				continue
			}
			// 3. the answer encodes the question
			if len(m.Question) != 1 || m.Question[0].Name != rec.QName {
				res.Fail("C10/foreign-bytes-in-reply", "op %d: question %q was answered with question %v", rec.Idx, rec.QName, m.Question)
				return
			}
			base := strings.ToLower(rec.QName)
			for _, rr := range append(append(append([]dns.RR(nil), m.Answer...), m.Ns...), m.Extra...) {
				if rr.Header().Rrtype == dns.TypeOPT {
					continue
				}
				owner := strings.ToLower(rr.Header().Name)
				if a, ok := rr.(*dns.A); ok && strings.HasPrefix(owner, "host") {
					// host<k>.uniqzone.test. A 10.7.x.y is unique per k
					if owner != base {
						res.Fail("C10/foreign-bytes-in-reply", "op %d asked %s but the reply carries a record of %s:\n%s", rec.Idx, rec.QName, owner, m)
						return
					}
					var k int
					fmt.Sscanf(owner, "host%d.", &k)
					if a.A.String() != ingHostAddr(k) {
						res.Fail("C10/foreign-bytes-in-reply", "op %d asked %s (= %s) but the reply says %s", rec.Idx, rec.QName, ingHostAddr(k), a.A)
						return
					}
				}
				if !dns.IsSubDomain("test.", owner) && owner != "." {
					res.Fail("C10/foreign-bytes-in-reply", "op %d asked %s; the reply carries a record owned by %s", rec.Idx, rec.QName, owner)
					return
				}
				if rr.Header().Rrtype == dns.TypeA || rr.Header().Rrtype == dns.TypeTXT || rr.Header().Rrtype == dns.TypeCNAME {
					if owner != base {
						res.Fail("C10/foreign-bytes-in-reply", "op %d asked %s; the reply carries %s data of %s", rec.Idx, rec.QName, dns.TypeToString[rr.Header().Rrtype], owner)
						return
					}
				}
			}
			// client cookie echoed is this query's
			if o := m.IsEdns0(); o != nil {
				for _, opt := range o.Option {
					if ck, ok := opt.(*dns.EDNS0_COOKIE); ok {
						want := fmt.Sprintf("%016x", uint64(rec.Idx)*0x9e3779b97f4a7c15|1)
						if !rec.Op.Cookie || !strings.HasPrefix(ck.Cookie, want) {
							res.Fail("C10/foreign-bytes-in-reply", "op %d: the reply carries cookie %s, the query's was %s (sent: %v)", rec.Idx, ck.Cookie, want, rec.Op.Cookie)
							return
						}
					}
				}
			}
		}
	}
	// stream clients: whole frames, own bytes, one per query, in query order
	for ci, cr := range x.conns {
		if cr.Partial > 0 && !cr.Conn.Reset && cr.Conn.CloseAtMs == 0 {
			res.Fail("C10/partial-frame-on-stream", "connection %d: the stream ended with %d bytes of an incomplete reply frame although the client neither closed nor reset early", ci, cr.Partial)
			return
		}
		next := 0 // replies must match the connection's queries in order
		for ri, raw := range cr.Replies {
			if end := ingMsgEnd(raw); end != len(raw) {
				res.Fail("C10/foreign-bytes-in-reply", "connection %d reply %d: the frame is %d bytes but the message in it ends at %d", ci, ri, len(raw), end)
				return
			}
			m := new(dns.Msg)
			if err := m.Unpack(raw); err != nil {
				res.Fail("C10/foreign-bytes-in-reply", "connection %d reply %d does not parse: %v", ci, ri, err)
				return
			}
			matched := -1
			for k := next; k < len(cr.Frames); k++ {
				f := cr.Frames[k]
				if f.Op.Kind == "response" || f.Op.ID != m.Id {
					continue
				}
				if len(m.Question) == 1 && m.Question[0].Name != f.QName {
					continue
				}
				if len(m.Question) == 0 && f.WellFormed {
					continue
				}
				matched = k
				break
			}
			if matched < 0 {
				// does it answer an EARLIER query of this connection (order) or nobody's?
				for k := 0; k < next && k < len(cr.Frames); k++ {
					f := cr.Frames[k]
					if f.Op.ID == m.Id && len(m.Question) == 1 && m.Question[0].Name == f.QName {
						res.Fail("C10/stream-replies-out-of-order", "connection %d: reply %d (id %d, %s) answers query %d of the connection, but replies up to query %d had already been delivered: pipelined replies must arrive in query order", ci, ri, m.Id, f.QName, k, next-1)
						return
					}
				}
				res.Fail("C10/reply-to-wrong-client", "connection %d (client %d): reply %d (id %d, question %v) answers no query sent on this connection\n%s", ci, cr.Conn.Client, ri, m.Id, m.Question, m)
				return
			}
			f := cr.Frames[matched]
			next = matched + 1
			tr.Shape(fmt.Sprintf("tcp:%s:%d", f.Op.Kind, m.Rcode))
			if f.WellFormed {
				base := strings.ToLower(f.QName)
				for _, rr := range m.Answer {
					owner := strings.ToLower(rr.Header().Name)
					if a, ok := rr.(*dns.A); ok && strings.HasPrefix(owner, "host") {
						var k int
						fmt.Sscanf(owner, "host%d.", &k)
						if owner != base || a.A.String() != ingHostAddr(k) {
							res.Fail("C10/foreign-bytes-in-reply", "connection %d: query %s was answered with %s", ci, f.QName, rr.String())
							return
						}
					}
					if (rr.Header().Rrtype == dns.TypeA || rr.Header().Rrtype == dns.TypeTXT) && owner != base {
						res.Fail("C10/foreign-bytes-in-reply", "connection %d: query %s was answered with a record of %s", ci, f.QName, owner)
						return
					}
				}
			}
		}
		if len(cr.Replies) > 1 {
			res.Probes["tcp:pipelined-replies"]++
		}
	}
	if noReplyThenReuse {
		res.Probes["reply-after-no-reply-packet"]++
	}
	if x.g.K.MaxBatch > 1 || x.counters["inline_handoff"] > 0 || noReplyThenReuse || x.counters["overflow_served"] > 0 || len(x.conns) > 0 {
		res.Nontrivial = true
	}
}
