package props

import (
	"net/netip"
	"os"
	"testing"
	"time"

	"github.com/miekg/dns"
	"github.com/semihalev/sdns/server"

	"verifsim/kit"
	"verifsim/world"
)

func smokeSpec() *world.Spec {
	return &world.Spec{Zones: []world.ZoneSpec{
		{Name: ".", Signed: true, Alg: 13, KeyIdx: 1, NSNames: []string{"a.root-servers.net."}, Addrs: []string{"198.41.0.4"}},
		{Name: "com.", Signed: true, Alg: 13, KeyIdx: 2, Secure: true, NSNames: []string{"a.gtld-servers.net."}, Addrs: []string{"192.5.6.30"}},
		{Name: "example.com.", Signed: true, Alg: 15, KeyIdx: 3, Secure: true, NSEC3: true, Iter: 2, Salt: "abcd", NSNames: []string{"ns1.example.com."}, Addrs: []string{"192.0.2.53"},
			Records: []string{"www.example.com. 300 IN A 192.0.2.1", "ns1.example.com. 300 IN A 192.0.2.53", "*.w.example.com. 300 IN A 192.0.2.9", "alias.example.com. 300 IN CNAME www.example.com.", "a.b.c.example.com. 300 IN TXT \"ent\""}},
		{Name: "unsigned.com.", NSNames: []string{"ns1.unsigned.com."}, Addrs: []string{"192.0.2.54"},
			Records: []string{"www.unsigned.com. 300 IN A 192.0.2.2", "ns1.unsigned.com. 300 IN A 192.0.2.54"}},
		{Name: "net.", Signed: true, Alg: 8, KeyIdx: 4, Secure: true, NSNames: []string{"a.gtld-servers.net."}, Addrs: []string{"192.5.6.30"},
			Records: []string{"a.root-servers.net. 300 IN A 198.41.0.4", "a.gtld-servers.net. 300 IN A 192.5.6.30"}},
	}}
}

func TestSmokeRes(t *testing.T) {
	if os.Getenv("VERIF_SMOKE") == "" {
		t.Skip()
	}
	kit.T = t
	kit.Bubble(func() {
		tr := &kit.Trace{Keep: true}
		r := world.NewRes(smokeSpec(), 1, tr)
		defer r.Close()
		kit.SleepSettle(5 * time.Second)
		ask := func(name string, qt uint16, do bool) {
			q := new(dns.Msg)
			q.SetQuestion(name, qt)
			q.SetEdns0(1232, do)
			q.AuthenticatedData = true
			t0 := time.Now()
			c := r.Ask(netip.MustParseAddrPort("10.1.1.1:4000"), "udp", q)
			if len(c.Replies) == 0 {
				t.Logf("%s %s: NO REPLY after %v", name, dns.TypeToString[qt], time.Since(t0))
				return
			}
			m := c.Replies[0]
			t.Logf("%s %s: rcode=%s AD=%v ans=%d ns=%d in %v (sent so far %d)", name, dns.TypeToString[qt], dns.RcodeToString[m.Rcode], m.AuthenticatedData, len(m.Answer), len(m.Ns), time.Since(t0), r.Net.SentCount())
			if os.Getenv("VERIF_SMOKE") == "2" {
				t.Log(m.String())
			}
		}
		ask("www.example.com.", dns.TypeA, true)
		ask("www.example.com.", dns.TypeA, true)
		ask("nx.example.com.", dns.TypeA, true)
		ask("www.example.com.", dns.TypeAAAA, true)
		ask("x.w.example.com.", dns.TypeA, true)
		ask("alias.example.com.", dns.TypeA, true)
		ask("b.c.example.com.", dns.TypeA, true)
		ask("www.unsigned.com.", dns.TypeA, true)
		ask("nx.unsigned.com.", dns.TypeA, true)
		ask("nx.com.", dns.TypeA, true)
		ask("a.gtld-servers.net.", dns.TypeA, true)
		tr.Hash()
		if os.Getenv("VERIF_SMOKE") == "3" {
			for _, l := range tr.Lines {
				t.Log(l)
			}
		}
	})
}

func TestSmokeIng(t *testing.T) {
	if os.Getenv("VERIF_SMOKE") == "" {
		t.Skip()
	}
	kit.T = t
	kit.Bubble(func() {
		tr := &kit.Trace{Keep: true}
		g, err := world.NewIng(smokeSpec(), world.IngSpec{Workers: 2, Queue: 4, Sockets: 2, NoRawConn: os.Getenv("VERIF_PORTABLE") != ""}, 1, tr)
		if err != nil {
			t.Fatal(err)
		}
		defer g.Close()
		kit.SleepSettle(5 * time.Second)
		for i, name := range []string{"www.example.com.", "www.example.com.", "nx.example.com.", "www.unsigned.com."} {
			q := new(dns.Msg)
			q.SetQuestion(name, dns.TypeA)
			q.Id = uint16(100 + i)
			q.SetEdns0(1232, true)
			b, _ := q.Pack()
			g.Send(i%2, netip.MustParseAddrPort("10.1.1.1:4000"), b)
			kit.SleepSettle(3 * time.Second)
		}
		for _, s := range g.K.Out {
			m := new(dns.Msg)
			err := m.Unpack(s.Data)
			t.Logf("at %v sock %d -> %v batch=%v id=%d rcode=%s ans=%d err=%v", s.At, s.Sock, s.To, s.Batch, m.Id, dns.RcodeToString[m.Rcode], len(m.Answer), err)
		}
		t.Logf("kernel: batchrecv=%d singlerecv=%d batchsends=%d direct=%d drops=%d", g.K.BatchRecv, g.K.SingleRecv, g.K.BatchSends, g.K.DirectSends, g.K.KernelDrops)
		t.Logf("counters: %v", server.VerifUDPCounters())
		t.Logf("shutdown: %v", g.Shutdown())
	})
}

func TestSmokeTCP(t *testing.T) {
	if os.Getenv("VERIF_SMOKE") == "" {
		t.Skip()
	}
	kit.T = t
	kit.Bubble(func() {
		tr := &kit.Trace{Keep: true}
		g, err := world.NewIng(smokeSpec(), world.IngSpec{Workers: 2, Queue: 4, Sockets: 1, TCP: true}, 1, tr)
		if err != nil {
			t.Fatal(err)
		}
		defer g.Close()
		kit.SleepSettle(5 * time.Second)
		c := g.DialTCP(netip.MustParseAddrPort("10.1.1.1:5000"), 0)
		var frames []byte
		for i, name := range []string{"www.example.com.", "nx.example.com.", "www.unsigned.com."} {
			q := new(dns.Msg)
			q.SetQuestion(name, dns.TypeA)
			q.Id = uint16(200 + i)
			b, _ := q.Pack()
			frames = append(frames, byte(len(b)>>8), byte(len(b)))
			frames = append(frames, b...)
		}
		c.Write(frames[:7])
		kit.SleepSettle(100 * time.Millisecond)
		c.Write(frames[7:])
		go func() {
			buf := make([]byte, 65536)
			for {
				c.SetReadDeadline(time.Now().Add(20 * time.Second))
				n, err := c.Read(buf)
				if n > 0 {
					t.Logf("at %v read %d bytes: first frame len %d id %d", g.Now(), n, int(buf[0])<<8|int(buf[1]), int(buf[2])<<8|int(buf[3]))
				}
				if err != nil {
					t.Logf("at %v read err %v", g.Now(), err)
					return
				}
			}
		}()
		kit.SleepSettle(15 * time.Second)
		t.Logf("shutdown: %v", g.Shutdown())
	})
}
