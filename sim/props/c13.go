package props

import (
	"context"
	"fmt"
	"net"
	"net/netip"
	"sort"
	"strings"
	"sync"
	"time"

	"github.com/miekg/dns"
	"github.com/semihalev/sdns/config"

	"verifsim/authsim"
	"verifsim/kit"
	"verifsim/simnet"
	"verifsim/world"
)

// C13 — cached failures (RFC 9520) suppress only what failed, for a bounded time
// (DESIGN.md §3 C13). W-res on the fake clock with server outage windows, failure-rcode
// servers, and request-local failure causes (client deadline, tiny work budget).

type C13Op struct {
	AtMs       int    `json:"at_ms"`
	Name       string `json:"name"`
	Type       uint16 `json:"type"`
	CD         bool   `json:"cd,omitempty"`
	DeadlineMs int    `json:"deadline_ms,omitempty"` // client-side deadline (request-local cause)
	Burst      int    `json:"burst,omitempty"`       // >1: this many identical copies of the question in flight at once (a leader and its followers)
	Sub        int    `json:"sub,omitempty"`         // 1-based index into c13Subnets: the client-subnet option sent (ECS scenarios)
}

type C13Outage struct {
	Zone   string `json:"zone"`
	FromMs int    `json:"from_ms"`
	ToMs   int    `json:"to_ms"`
	Kind   string `json:"kind"` // silent servfail refused slow
	DelayMs int   `json:"delay_ms,omitempty"` // kind slow: how late the (correct) answers come (0 = 900 ms)
}

type C13Scenario struct {
	Seed       uint64      `json:"seed"`
	MinS       int         `json:"min_s"`
	MaxS       int         `json:"max_s"`
	Size       int         `json:"size"`
	RFC9520Off bool        `json:"rfc9520_off,omitempty"`
	QTimeoutS  int  `json:"qtimeout_s,omitempty"` // sdns query timeout in seconds (0 = 6)
	Budget     uint32      `json:"budget,omitempty"` // enforce-mode outbound budget (0 = firewall shadow)
	ECS        bool        `json:"ecs,omitempty"`    // client-subnet forwarding on: questions have audiences
	Outages    []C13Outage `json:"outages"`
	Ops        []C13Op     `json:"ops"`
}

func init() {
	kit.Register(&kit.Prop{
		ID:    "C13",
		Level: "exploration",
		Rule: "Scenario = small unsigned hierarchy (two sibling zones with two servers each, a sub-zone) + outage windows per zone (all servers silent, " +
			"SERVFAIL, REFUSED, or slower than the client's deadline) + timed questions across names, types, CD values, some with a client-side deadline or " +
			"under a tiny work budget (request-local failures) + random valid min/max failure TTLs, small failure-cache size, rfc9520 on/off. Oracle = " +
			"suppression model: a SERVFAIL with EDE 13 and no upstream traffic must be preceded by a genuine failure (every server of the zone silent or " +
			"failing while the question was resolved with time to spare) of exactly that question or of a zone at or above the name, within a window that " +
			"starts at the minimum, at most doubles per consecutive failure and never exceeds the maximum; request-local failures open no window; with " +
			"rfc9520 off there is no suppression at all. Non-trivial = at least one suppressed reply or one request-local failure followed by a retry; " +
			"distinct = hash of (phase, reply class, suppressed) sequence.",
		Assumptions: []string{
			"a failure counts as genuine only when the whole resolution ran inside an outage window of the zone and had the full query timeout available",
			"the single-probe clause (one leader after a back-off expires) is not asserted; ECS audiences are exercised with forwarding at the default ceiling and three client subnets in two audiences, on a name that fails by its own data (an alias loop in a healthy zone)",
		},
		Components: kit.Components{
			Real: []string{"full default middleware chain", "failure cache", "resolver zone-failure recording", "recursion work ledger"},
			Stub: []string{"kernel sockets (simnet)", "authoritative servers (authsim + outage scripts)", "disk (simdisk)"},
		},
		Gen:      func(r *kit.RNG, tier string) any { return genC13(r) },
		Blank:    func() any { return &C13Scenario{} },
		Run:      func(sc any, tr *kit.Trace) *kit.Result { return runC13(sc.(*C13Scenario), tr) },
		Shrink:   shrinkC13,
		Warmup:   true, // the four-server fan-out runs its exchanges in parallel with more than one P
		PerChunk: 30,
		Quick:    1200,
		Thorough: 60000,
	})
}

// c13Subnets: client-subnet options; the first two are one audience (same /24), the third another.
var c13Subnets = []string{"198.51.100.7", "198.51.100.200", "203.0.113.9"}

// c13Audience is the partition a question failure belongs to: the subnet sdns forwards for the
// client (ceiling /24), or the shared audience.
func c13Audience(sc *C13Scenario, op C13Op) string {
	if !sc.ECS || op.Sub <= 0 || op.Sub > len(c13Subnets) {
		return "shared"
	}
	pf, _ := netip.MustParseAddr(c13Subnets[op.Sub-1]).Prefix(24)
	return pf.String()
}

var c13Zones = []string{"alpha.test.", "beta.test.", "sub.alpha.test.", "gamma.test."}

// c13AllZones adds delta.test., which never has an outage of its own: its only server is named
// in beta.test. and delegated without glue, so resolving it needs a nested address lookup.
var c13AllZones = append(append([]string(nil), c13Zones...), "delta.test.")

func genC13(r *kit.RNG) *C13Scenario {
	sc := &C13Scenario{Seed: r.Uint64(), MinS: kit.Pick(r, []int{1, 2, 5, 5, 10, 30}), Size: kit.Pick(r, []int{1, 2, 8, 4096}), RFC9520Off: r.Chance(0.1)}
	sc.MaxS = sc.MinS * kit.Pick(r, []int{1, 2, 4, 8, 60})
	if sc.MaxS > 300 {
		sc.MaxS = 300
	}
	if r.Chance(0.15) {
		sc.Budget = uint32(kit.Pick(r, []int{1, 2, 3}))
	}
	horizon := 400000 // ms
	no := r.Range(1, 3)
	for i := 0; i < no; i++ {
		from := r.Intn(horizon / 2)
		sc.Outages = append(sc.Outages, C13Outage{Zone: kit.Pick(r, c13Zones), FromMs: from, ToMs: from + kit.Pick(r, []int{8000, 20000, 60000, 200000}),
			Kind: kit.Pick(r, []string{"silent", "silent", "servfail", "refused", "slow"})})
	}
	names := []string{"www.alpha.test.", "mail.alpha.test.", "www.beta.test.", "www.sub.alpha.test.", "nx.alpha.test.", "alpha.test."}
	for _, o := range sc.Outages {
		if o.Zone == "sub.alpha.test." {
			// x\.sub.alpha.test. is the single label "x.sub" under alpha.test.: a sibling of the
			// failing zone sub.alpha.test., not a name in it
			names = append(names, "x\\.sub.alpha.test.", "x\\.sub.alpha.test.", "www.sub.alpha.test.")
		}
	}
	if r.Chance(0.3) {
		// three of gamma's four servers lame, the fourth healthy but slower: nothing of the
		// zone has failed, so nothing of it may be suppressed
		from := r.Intn(horizon / 4)
		sc.Outages = append(sc.Outages, C13Outage{Zone: "gamma.test.", FromMs: from, ToMs: from + kit.Pick(r, []int{60000, 200000}), Kind: kit.Pick(r, []string{"partial-refused", "partial-servfail"})})
		names = append(names, "www.gamma.test.", "mail.gamma.test.", "ftp.gamma.test.", "www.gamma.test.", "mail.gamma.test.", "ftp.gamma.test.")
	} else if r.Chance(0.3) {
		names = append(names, "www.gamma.test.", "mail.gamma.test.")
	}
	if r.Chance(0.35) {
		// questions with audiences, and a name that fails on its own (an alias loop) while its
		// zone is healthy: the failure belongs to the question and to the audience that asked
		sc.ECS = true
		names = append(names, "loop.beta.test.", "loop.beta.test.", "loop.beta.test.")
	}
	t := 0
	if r.Chance(0.2) {
		// zone-cover recipe: every server of alpha.test. fails fast for a while. One name fails
		// (its own failure and the zone's are remembered); once both have run out another name
		// of the zone leads the retry and fails again, which renews the zone's back-off only;
		// inside that window the first name - whose own history has expired - is asked again
		kind := kit.Pick(r, []string{"servfail", "refused"})
		sc.Outages = append(sc.Outages, C13Outage{Zone: "alpha.test.", FromMs: 0, ToMs: 20000 + 4000*sc.MinS, Kind: kind})
		x, y := kit.Pick(r, []string{"www.alpha.test.", "mail.alpha.test."}), "alpha.test."
		t = 1500
		sc.Ops = append(sc.Ops, C13Op{AtMs: t, Name: x, Type: 1})
		t += sc.MinS*1000 + kit.Pick(r, []int{300, 700})
		sc.Ops = append(sc.Ops, C13Op{AtMs: t, Name: y, Type: 1})
		for _, frac := range []int{4, 2} {
			sc.Ops = append(sc.Ops, C13Op{AtMs: t + sc.MinS*1000/frac, Name: x, Type: 1})
		}
		t += sc.MinS*1000 + 7000
	}
	n := r.Range(6, 30)
	for i := 0; i < n; i++ {
		t += kit.Pick(r, []int{100, 500, 1000, 2500, 5000, 7000, 11000, 21000, 41000, 90000})
		op := C13Op{AtMs: t, Name: kit.Pick(r, names), Type: uint16(kit.Pick(r, []int{1, 1, 1, 28, 16})), CD: r.Chance(0.15)}
		if i > 0 && r.Chance(0.5) {
			op.Name, op.Type = sc.Ops[r.Intn(len(sc.Ops))].Name, sc.Ops[r.Intn(len(sc.Ops))].Type
		}
		if sc.ECS && r.Chance(0.6) {
			op.Sub = 1 + r.Intn(len(c13Subnets))
		}
		if r.Chance(0.12) {
			op.Burst = r.Range(2, 5)
		}
		if r.Chance(0.12) {
			op.DeadlineMs = kit.Pick(r, []int{50, 300, 1500})
		}
		sc.Ops = append(sc.Ops, op)
		if r.Chance(0.35) {
			// the same question again right away (it starts as soon as the previous one
			// has finished): inside the shortest back-off window if one was opened
			rep := op
			rep.AtMs = t + kit.Pick(r, []int{200, 800, 2000})
			rep.DeadlineMs = 0
			if sc.ECS && r.Chance(0.6) {
				rep.Sub = r.Intn(len(c13Subnets) + 1) // the same question from another audience (or the same one)
			}
			sc.Ops = append(sc.Ops, rep)
		}
		t += 7000 // leave room for the slowest resolution before the next question
	}
	if r.Chance(0.25) {
		// swallowed-deadline recipe: delta.test. is delegated without glue to a host of
		// beta.test., whose servers are healthy but slow. A question with a short client deadline
		// is cut while the nested address lookup is still waiting: no server failed, whatever
		// error the nested step reports. The same question right afterwards must be resolved,
		// not answered from a remembered failure.
		t += 10000
		sc.Outages = append(sc.Outages, C13Outage{Zone: "beta.test.", FromMs: t - 3000, ToMs: t + 40000, Kind: "slow"})
		d := kit.Pick(r, []int{300, 600, 0, 0})
		if d == 0 {
			// ... or it is sdns's own query timeout (one second in this scenario) that ends the
			// request, inside the nested lookup
			sc.QTimeoutS = 1
			sc.Outages[len(sc.Outages)-1].DelayMs = 1500 // later than the query timeout, sooner than the per-exchange timeout (2 s)
		}
		q := C13Op{AtMs: t, Name: "www.delta.test.", Type: 1, DeadlineMs: d}
		sc.Ops = append(sc.Ops, q)
		if d == 0 {
			d = 1000
		}
		q.AtMs, q.DeadlineMs = t+d+kit.Pick(r, []int{200, 800}), 0
		sc.Ops = append(sc.Ops, q)
	}
	return sc
}

func c13Spec(sc *C13Scenario) *world.Spec {
	sp := &world.Spec{}
	sp.Zones = []world.ZoneSpec{
		{Name: ".", NSNames: []string{"a.root-servers.net."}, Addrs: []string{"198.41.0.4"}, Records: []string{"a.root-servers.net. 518400 IN A 198.41.0.4"}},
		{Name: "test.", NSNames: []string{"ns.test."}, Addrs: []string{"192.0.2.10"}, NSTTL: 86400, Records: []string{"ns.test. 3600 IN A 192.0.2.10"}},
		{Name: "alpha.test.", NSNames: []string{"ns1.alpha.test.", "ns2.alpha.test."}, Addrs: []string{"192.0.2.21", "192.0.2.22"}, NSTTL: 86400,
			Records: []string{"ns1.alpha.test. 86400 IN A 192.0.2.21", "ns2.alpha.test. 86400 IN A 192.0.2.22", "www.alpha.test. 5 IN A 10.0.0.1", "mail.alpha.test. 5 IN A 10.0.0.2", "alpha.test. 5 IN A 10.0.0.3", "www.alpha.test. 5 IN TXT \"t\""}},
		{Name: "beta.test.", NSNames: []string{"ns1.beta.test.", "ns2.beta.test."}, Addrs: []string{"192.0.2.31", "192.0.2.32"}, NSTTL: 86400,
			Records: []string{"ns1.beta.test. 86400 IN A 192.0.2.31", "ns2.beta.test. 86400 IN A 192.0.2.32", "www.beta.test. 5 IN A 10.0.1.1",
				"loop.beta.test. 5 IN CNAME loop2.beta.test.", "loop2.beta.test. 5 IN CNAME loop.beta.test.", "ns.dhost.beta.test. 5 IN A 192.0.2.61"}},
		{Name: "delta.test.", NSNames: []string{"ns.dhost.beta.test."}, Addrs: []string{"192.0.2.61"}, NSTTL: 86400, NoGlue: true,
			Records: []string{"www.delta.test. 5 IN A 10.0.4.1"}},
		{Name: "sub.alpha.test.", NSNames: []string{"ns1.sub.alpha.test."}, Addrs: []string{"192.0.2.41"}, NSTTL: 86400,
			Records: []string{"ns1.sub.alpha.test. 86400 IN A 192.0.2.41", "www.sub.alpha.test. 5 IN A 10.0.2.1"}},
	}
	// four servers: three of them can be lame while the fourth, slower one still answers
	sp.Zones = append(sp.Zones, world.ZoneSpec{Name: "gamma.test.", NSNames: []string{"ns1.gamma.test.", "ns2.gamma.test.", "ns3.gamma.test.", "ns4.gamma.test."},
		Addrs: []string{"192.0.2.51", "192.0.2.52", "192.0.2.53", "192.0.2.54"}, NSTTL: 86400,
		Records: []string{"ns1.gamma.test. 86400 IN A 192.0.2.51", "ns2.gamma.test. 86400 IN A 192.0.2.52", "ns3.gamma.test. 86400 IN A 192.0.2.53", "ns4.gamma.test. 86400 IN A 192.0.2.54",
			"www.gamma.test. 5 IN A 10.0.3.1", "mail.gamma.test. 5 IN A 10.0.3.2", "ftp.gamma.test. 5 IN A 10.0.3.3"}})
	for i := range sp.Zones {
		sp.Zones[i].SOAMin = 5
	}
	sp.Cfg.DNSSECOff = true
	sp.Cfg.FailMinS, sp.Cfg.FailMaxS, sp.Cfg.FailSize = sc.MinS, sc.MaxS, sc.Size
	sp.Cfg.RFC9520Off = sc.RFC9520Off
	sp.Cfg.QueryTimeoutS = 6
	if sc.QTimeoutS > 0 {
		sp.Cfg.QueryTimeoutS = sc.QTimeoutS
	}
	sp.Cfg.Expire = 5
	if sc.ECS {
		sp.Cfg.ECS = &config.ECSConfig{Enabled: true}
	}
	if sc.Budget > 0 {
		sp.Cfg.Firewall = "enforce"
		sp.Cfg.MaxOutbound = sc.Budget
	}
	return sp
}

func runC13(sc *C13Scenario, tr *kit.Trace) *kit.Result {
	res := kit.NewResult()
	kit.Bubble(func() { execC13(sc, tr, res) })
	return res
}

type c13Fail struct {
	at     time.Duration
	streak int
}

func execC13(sc *C13Scenario, tr *kit.Trace, res *kit.Result) {
	w := world.NewRes(c13Spec(sc), sc.Seed, tr)
	defer w.Close()
	defer func() { res.SimTime = w.Now(); res.Steps = w.Net.SentCount() }()
	kit.SleepSettle(5 * time.Second)
	start := time.Now()
	since := func() time.Duration { return time.Since(start) }
	inOutage := func(zone string, at time.Duration) *C13Outage {
		for i := range sc.Outages {
			o := &sc.Outages[i]
			if o.Zone == zone && at >= time.Duration(o.FromMs)*time.Millisecond && at < time.Duration(o.ToMs)*time.Millisecond {
				return o
			}
		}
		return nil
	}
	w.Hook = func(addr netip.Addr, q *simnet.Query, honest *authsim.Answer) []simnet.Reply {
		if honest.Zone == nil {
			return nil
		}
		o := inOutage(honest.Zone.Name, since())
		if o == nil {
			return nil
		}
		res.Faults["outage:"+o.Kind]++
		m := new(dns.Msg)
		m.SetReply(q.Msg)
		switch o.Kind {
		case "silent":
			return []simnet.Reply{}
		case "servfail":
			m.Rcode = dns.RcodeServerFailure
			return world.PackReply(m, q)
		case "refused":
			m.Rcode = dns.RcodeRefused
			return world.PackReply(m, q)
		case "partial-refused", "partial-servfail":
			if addr.String() == "192.0.2.54" {
				r := world.PackReply(honest.Msg, q)
				for i := range r {
					r[i].Delay = 250 * time.Millisecond
				}
				return r
			}
			m.Rcode = dns.RcodeRefused
			if o.Kind == "partial-servfail" {
				m.Rcode = dns.RcodeServerFailure
			}
			return world.PackReply(m, q)
		case "slow":
			r := world.PackReply(honest.Msg, q)
			for i := range r {
				r[i].Delay = 900 * time.Millisecond
				if o.DelayMs > 0 {
					r[i].Delay = time.Duration(o.DelayMs) * time.Millisecond
				}
			}
			return r
		}
		return nil
	}
	// zoneOf returns the zone whose servers decide the fate of a resolution of name at
	// time at: the shallowest zone on the path that is in an outage (resolution stops
	// there), else the deepest zone enclosing the name.
	zoneOf := func(name string, at time.Duration) string {
		best, failing := "", ""
		for _, z := range c13AllZones {
			if !dns.IsSubDomain(z, dns.CanonicalName(name)) {
				continue
			}
			if len(z) > len(best) {
				best = z
			}
			if o := inOutage(z, at); o != nil && o.Kind != "slow" && !strings.HasPrefix(o.Kind, "partial") && (failing == "" || len(z) < len(failing)) {
				failing = z
			}
		}
		if failing != "" {
			return failing
		}
		return best
	}
	// failingZones: every zone on the path that may be the one sdns blames — which one it
	// reaches depends on which delegations it has cached, so all are credited.
	failingZones := func(name string, at time.Duration) []string {
		var out []string
		deepest := ""
		for _, z := range c13AllZones {
			if !dns.IsSubDomain(z, dns.CanonicalName(name)) {
				continue
			}
			if len(z) > len(deepest) {
				deepest = z
			}
			if o := inOutage(z, at); o != nil && o.Kind != "slow" && !strings.HasPrefix(o.Kind, "partial") {
				out = append(out, z)
			}
		}
		if len(out) == 0 && deepest != "" {
			out = append(out, deepest)
		}
		return out
	}
	qFails := map[string]*c13Fail{} // exact question -> last genuine failure + streak
	zFails := map[string]*c13Fail{} // zone -> same
	localFail := map[string]time.Duration{}
	// sureZone: zones for which a failure is beyond doubt — a plain question (no CD, audience,
	// deadline, burst or budget) was answered SERVFAIL after every server of the one failing
	// zone on its path had answered with a failure rcode. The zone's back-off has started and
	// lasts at least the configured minimum.
	sureZone := map[string]time.Duration{}
	c13Servers := map[string]int{"alpha.test.": 2, "beta.test.": 2, "sub.alpha.test.": 1}
	minW, maxW := time.Duration(sc.MinS)*time.Second, time.Duration(sc.MaxS)*time.Second
	allowed := func(f *c13Fail) time.Duration {
		d := minW
		for i := 1; i < f.streak && d < maxW; i++ {
			d *= 2
		}
		if d > maxW {
			d = maxW
		}
		return d
	}
	sort.SliceStable(sc.Ops, func(i, j int) bool { return sc.Ops[i].AtMs < sc.Ops[j].AtMs })
	for i, op := range sc.Ops {
		if res.Viol != nil {
			return
		}
		if d := time.Duration(op.AtMs)*time.Millisecond - since(); d > 0 {
			kit.SleepSettle(d)
		}
		arrive := since()
		q := new(dns.Msg)
		q.SetQuestion(op.Name, op.Type)
		q.RecursionDesired = true
		q.CheckingDisabled = op.CD
		q.SetEdns0(1232, false)
		if sc.ECS && op.Sub > 0 && op.Sub <= len(c13Subnets) {
			o := q.IsEdns0()
			o.Option = append(o.Option, &dns.EDNS0_SUBNET{Code: dns.EDNS0SUBNET, Family: 1, SourceNetmask: 32, Address: net.ParseIP(c13Subnets[op.Sub-1]).To4()})
		}
		sentBefore := w.Net.SentCount()
		ctx := context.Background()
		var cancel context.CancelFunc
		if op.DeadlineMs > 0 {
			ctx, cancel = context.WithTimeout(ctx, time.Duration(op.DeadlineMs)*time.Millisecond)
		}
		c := &world.Client{Local: &net.UDPAddr{IP: net.IPv4(10, 0, 0, 53), Port: 53}, Remote: net.UDPAddrFromAddrPort(netip.MustParseAddrPort("10.9.0.1:40000"))}
		t0 := time.Now()
		qkey := fmt.Sprintf("%s/%d/%v/%s", dns.CanonicalName(op.Name), op.Type, op.CD, c13Audience(sc, op))
		var lat time.Duration
		if op.Burst > 1 && op.DeadlineMs == 0 && sc.Budget == 0 {
			// (not under a tiny work budget: there each copy has its own budget and the copies end
			// differently — one exhausted, another finding the zone failing — so that the burst
			// has no single outcome for the model to record)
			// identical questions in flight at once: one of them leads the lookup, the others wait
			// for it. When the leader's resolution fails, the failure is recorded before the
			// followers wake; they are answered from it and start no resolution of their own.
			_, hadHistory := qFails[qkey]
			netStart := w.Net.Now()
			clients := make([]*world.Client, op.Burst)
			doneAt := make([]time.Duration, op.Burst)
			var wg sync.WaitGroup
			for k := range clients {
				clients[k] = &world.Client{Local: c.Local, Remote: net.UDPAddrFromAddrPort(netip.MustParseAddrPort(fmt.Sprintf("10.9.0.1:%d", 40000+k)))}
				wg.Add(1)
				go func(k int) {
					defer wg.Done()
					w.Srv.ServeMsg(context.Background(), clients[k], q.Copy())
					doneAt[k] = w.Net.Now()
				}(k)
			}
			wg.Wait()
			lead := 0
			for k := range clients {
				if len(clients[k].Replies) != 1 {
					res.Fail("C13/reply-count", "op %d: copy %d of a burst of %d identical questions got %d replies", i, k, op.Burst, len(clients[k].Replies))
					return
				}
				if doneAt[k] < doneAt[lead] {
					lead = k
				}
			}
			c = clients[lead]
			lat = doneAt[lead] - netStart
			kit.SleepSettle(300 * time.Millisecond)
			lm := c.Replies[0]
			if lm.Rcode == dns.RcodeServerFailure && !sc.RFC9520Off && sc.Budget == 0 && !hadHistory && !strings.HasPrefix(edeText(lm), "13 ") {
				late := 0
				for _, snt := range w.Net.Canonical() {
					if snt.At > doneAt[lead]+20*time.Millisecond && strings.EqualFold(snt.Name, dns.CanonicalName(op.Name)) && snt.Qtype == op.Type {
						late++
					}
				}
				res.Probes["burst-led-to-failure"]++
				if late > 0 {
					res.Fail("C13/follower-retried-during-backoff", "op %d %s/%s: %d identical questions were in flight; the first was answered SERVFAIL (%s) at %v and the failure was recorded, yet %d more upstream queries for this very question were sent afterwards: followers of the failed lookup resolved again instead of being answered from the recorded failure",
						i, op.Name, dns.TypeToString[op.Type], op.Burst, edeText(lm), doneAt[lead], late)
					return
				}
			}
		} else {
			w.Srv.ServeMsg(ctx, c, q)
			lat = time.Since(t0)
			if cancel != nil {
				cancel()
			}
			kit.SleepSettle(300 * time.Millisecond)
		}
		done := since()
		upstream := w.Net.SentCount() - sentBefore
		selfFailing := strings.HasPrefix(op.Name, "loop.") // fails by its own data; its zone is healthy
		zone := zoneOf(op.Name, arrive)
		rc, ede := "none", ""
		var m *dns.Msg
		if len(c.Replies) > 1 {
			res.Fail("C13/reply-count", "op %d: %d replies", i, len(c.Replies))
			return
		}
		if len(c.Replies) == 1 {
			m = c.Replies[0]
			rc, ede = dns.RcodeToString[m.Rcode], edeText(m)
		}
		suppressed := m != nil && m.Rcode == dns.RcodeServerFailure && upstream == 0 && strings.HasPrefix(ede, "13 ")
		tr.AddAt(arrive, "op %d %s/%s cd=%v aud=%s deadline=%dms -> %s ede=%q upstream=%d lat=%v", i, op.Name, dns.TypeToString[op.Type], op.CD, c13Audience(sc, op), op.DeadlineMs, rc, ede, upstream, lat)
		tr.Shape(fmt.Sprintf("%s|%v|%v", rc, suppressed, op.DeadlineMs > 0))
		octx := fmt.Sprintf("op %d %s/%s cd=%v audience %s at %v (min %ds max %ds): reply %s ede=%q upstream=%d", i, op.Name, dns.TypeToString[op.Type], op.CD, c13Audience(sc, op), arrive, sc.MinS, sc.MaxS, rc, ede, upstream)
		plainOp := !op.CD && op.Sub == 0 && op.DeadlineMs == 0 && op.Burst == 0 && sc.Budget == 0 && !sc.ECS && !sc.RFC9520Off && sc.Size >= 4096
		if !suppressed && plainOp && upstream > 0 {
			for z, at := range sureZone {
				if dns.IsSubDomain(z, dns.CanonicalName(op.Name)) && arrive > at && arrive-at < time.Duration(sc.MinS)*time.Second-300*time.Millisecond {
					res.Fail("C13/retry-inside-minimum-backoff", "%s: every server of %s failed %v ago (the back-off lasts at least %ds) and nothing useful has been heard since, yet this question for a name in the zone sent %d packets upstream", octx, z, arrive-at, sc.MinS, upstream)
					return
				}
			}
		}
		if suppressed {
			res.Nontrivial = true
			res.Probes["suppressed"]++
			if sc.RFC9520Off {
				res.Fail("C13/suppression-with-rfc9520-off", "%s: rfc9520 is off but a cached failure was served", octx)
				return
			}
			// justification: the exact question, or a zone at or above the name
			var best *c13Fail
			why := ""
			if f := qFails[qkey]; f != nil && arrive-f.at <= allowed(f)+time.Second {
				best, why = f, "question"
			}
			for z, f := range zFails {
				if dns.IsSubDomain(z, dns.CanonicalName(op.Name)) && arrive-f.at <= allowed(f)+time.Second {
					best, why = f, "zone "+z
				}
			}
			if best == nil {
				var seen []string
				if f := qFails[qkey]; f != nil {
					seen = append(seen, fmt.Sprintf("question failed %v ago (streak %d, window %v)", arrive-f.at, f.streak, allowed(f)))
				}
				for z, f := range zFails {
					if dns.IsSubDomain(z, dns.CanonicalName(op.Name)) {
						seen = append(seen, fmt.Sprintf("zone %s failed %v ago (streak %d, window %v)", z, arrive-f.at, f.streak, allowed(f)))
					}
				}
				if lf, ok := localFail[qkey]; ok {
					seen = append(seen, fmt.Sprintf("request-local failure %v ago", arrive-lf))
				}
				base := qkey[:strings.LastIndex(qkey, "/")+1]
				for k, f := range qFails {
					if k != qkey && strings.HasPrefix(k, base) {
						seen = append(seen, fmt.Sprintf("the same question failed %v ago for another audience (%s)", arrive-f.at, k[len(base):]))
					}
				}
				res.Fail("C13/suppression-not-justified", "%s: no genuine failure of this question or of a zone above it lies within its back-off window (%s)", octx, strings.Join(seen, "; "))
				return
			}
			res.Probes["justified-by-"+strings.Fields(why)[0]]++
			continue
		}
		if m != nil && m.Rcode == dns.RcodeServerFailure && upstream == 0 && sc.RFC9520Off && !strings.Contains(ede, "budget") {
			res.Fail("C13/suppression-with-rfc9520-off", "%s: SERVFAIL without upstream traffic although rfc9520 is off", octx)
			return
		}
		// classify what this resolution was
		if m == nil || m.Rcode == dns.RcodeServerFailure {
			o1, o2 := inOutage(zone, arrive), inOutage(zone, done)
			// request-local: ended by the work budget, or by the client's deadline before
			// silent servers could have been found out (that takes whole upstream timeouts)
			fastFailureOnPath := false
			for _, z := range c13AllZones {
				if dns.IsSubDomain(z, dns.CanonicalName(op.Name)) {
					// (an outage that begins while the question is being resolved counts too)
					for _, at := range []time.Duration{arrive, done} {
						if o := inOutage(z, at); o != nil && (o.Kind == "servfail" || o.Kind == "refused") {
							fastFailureOnPath = true // which zone is reached depends on cached delegations
						}
					}
				}
			}
			local := strings.Contains(ede, "budget") ||
				(op.DeadlineMs > 0 && !fastFailureOnPath && (o1 == nil || o1.Kind == "silent" || o1.Kind == "slow"))
			if op.DeadlineMs > 0 && lat < time.Duration(op.DeadlineMs)*time.Millisecond-5*time.Millisecond && !strings.Contains(ede, "budget") && upstream > 0 && m != nil {
				// the failure came well before the client's deadline: the deadline did not
				// cause it, whatever did (an alias loop, servers refusing) is a genuine failure
				local = false
			}
			if local && op.DeadlineMs > 0 && m != nil && upstream > 0 && !strings.Contains(ede, "budget") &&
				lat < time.Duration(op.DeadlineMs)*time.Millisecond {
				// The failure came within the last 5 ms before the client's deadline, not at or
				// after it: it may be the deadline's doing (timeouts derived from it carry small
				// margins) or a genuine failure that happened to take that long (an alias loop
				// found after four queries). Either reading is legitimate, so it may be remembered.
				local = false
				res.Probes["failure-just-before-the-deadline"]++
			}
			if op.DeadlineMs > 0 && !local {
				o1 = nil // fast failure rcodes under a deadline: either reading is legitimate
			}
			if selfFailing && !local && inOutage(zone, arrive) == nil && inOutage(zone, done) == nil && upstream > 0 {
				// the alias loop: the zone answered every query; the failure is the question's
				// (and the asking audience's) alone
				f := qFails[qkey]
				if f == nil {
					f = &c13Fail{}
					qFails[qkey] = f
				}
				f.streak++
				f.at = done
				res.Probes["question-only-failure"]++
			} else if o1 != nil && strings.HasPrefix(o1.Kind, "partial") {
				// one server of the zone was answering all along: whatever sdns made of this
				// question, the zone did not fail. Only the exact question may be remembered.
				f := qFails[qkey]
				if f == nil {
					f = &c13Fail{}
					qFails[qkey] = f
				}
				f.streak++
				f.at = done
				res.Probes["failure-during-partial-outage"]++
			} else if o1 != nil && o1 == o2 && o1.Kind != "slow" && !local && upstream > 0 {
				// genuine: the zone's servers were all failing for the whole resolution
				f := qFails[qkey]
				if f == nil {
					f = &c13Fail{}
					qFails[qkey] = f
				}
				f.streak++
				f.at = done
				for _, fz := range failingZones(op.Name, arrive) {
					zf := zFails[fz]
					if zf == nil {
						zf = &c13Fail{}
						zFails[fz] = zf
					}
					zf.streak++
					zf.at = done
				}
				res.Probes["genuine-failure"]++
				if fz := failingZones(op.Name, arrive); plainOp && len(fz) == 1 && (o1.Kind == "servfail" || o1.Kind == "refused") && c13Servers[fz[0]] > 0 && int(upstream) >= c13Servers[fz[0]] {
					sureZone[fz[0]] = done
					res.Probes["zone-failure-beyond-doubt"]++
				}
			} else if local {
				localFail[qkey] = done
				res.Nontrivial = true
				res.Probes["request-local-failure"]++
			} else {
				res.Probes["unclassified-failure"]++
				// be generous: an unclassified failure may legitimately be recorded
				f := qFails[qkey]
				if f == nil {
					f = &c13Fail{}
					qFails[qkey] = f
				}
				f.streak++
				f.at = done
				for _, fz := range failingZones(op.Name, arrive) {
					zf := zFails[fz]
					if zf == nil {
						zf = &c13Fail{}
						zFails[fz] = zf
					}
					zf.streak++
					zf.at = done
				}
			}
		} else {
			// a useful answer resets the back-off of the question and of its zone
			delete(qFails, qkey)
			if upstream > 0 {
				for z := range sureZone {
					delete(sureZone, z)
				}
			}
			if zone != "" && upstream > 0 {
				delete(zFails, zone)
				for z := range zFails {
					if dns.IsSubDomain(z, zone) {
						delete(zFails, z)
					}
				}
			}
			res.Probes["answered"]++
		}
	}
}

func shrinkC13(sc0 any, fails func(any) bool) any {
	sc := sc0.(*C13Scenario)
	budget := 60
	c := *sc
	c.Ops = kit.DDMin(sc.Ops, &budget, func(o []C13Op) bool { t := *sc; t.Ops = o; return fails(&t) })
	c.Outages = kit.DDMin(c.Outages, &budget, func(o []C13Outage) bool { t := c; t.Outages = o; return fails(&t) })
	return &c
}
