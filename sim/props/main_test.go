package props

import (
	"os"
	"testing"

	"verifsim/kit"
)

// TestWorker is the single entry point of the simulation binary: the runner starts one
// process per chunk of scenarios (or per replay) and directs it through VERIF_* variables.
func TestWorker(t *testing.T) {
	if os.Getenv("VERIF_PROP") == "" {
		t.Skip("VERIF_PROP not set")
	}
	kit.T = t
	code := kit.WorkerMain()
	if code != 0 {
		os.Exit(code)
	}
}
