package props

import (
	"io"
	"os"
	"testing"

	"github.com/semihalev/zlog/v2"

	"verifsim/kit"
)

// TestWorker is the single entry point of the simulation binary: the runner starts one
// process per chunk of scenarios (or per replay) and directs it through VERIF_* variables.
func init() {
	// sdns logs through zlog's process-wide default logger; the simulation discards it.
	l := zlog.NewStructured()
	l.SetWriter(zlog.NewTerminalWriter(io.Discard))
	l.SetLevel(zlog.LevelError)
	if os.Getenv("VERIF_SDNS_LOG") != "" {
		l.SetWriter(zlog.StdoutTerminal())
		l.SetLevel(zlog.LevelDebug)
	}
	zlog.SetDefault(l)
}

func TestWorker(t *testing.T) {
	if os.Getenv("VERIF_PROP") == "" {
		t.Skip("VERIF_PROP not set")
	}
	kit.T = t
	code := kit.WorkerMain()
	if code != 0 {
		os.Exit(code)
	}
}
