package props

import (
	"fmt"
	"net/netip"
	"strings"
	"time"

	"github.com/miekg/dns"
	"github.com/semihalev/sdns/middleware"

	"verifsim/authsim"
	"verifsim/kit"
	"verifsim/simnet"
	"verifsim/world"
)

// C12 — bounded work per request: resolution always terminates within its budgets
// (DESIGN.md §3 C12). W-res with generated attack topologies; twin runs for shadow vs off.

type C12Op struct {
	Name   string `json:"name"`
	Type   uint16 `json:"type"`
	NoEDNS bool   `json:"no_edns,omitempty"`
}

type C12Scenario struct {
	Seed        uint64       `json:"seed"`
	Topology    string       `json:"topology"`
	N           int          `json:"n"` // size parameter of the topology
	Signed      bool         `json:"signed"`
	Mode        string       `json:"mode"` // enforce | shadow | off
	MaxOutbound uint32       `json:"max_outbound"`
	MaxInternal uint32       `json:"max_internal"`
	QnameMin    int          `json:"qname_min"`
	Lame        string       `json:"lame,omitempty"` // refused servfail silent self-referral
	Ops         []C12Op      `json:"ops"`
}

var c12Topologies = []string{"cname-chain", "cname-cycle", "dname-pingpong", "glueless-cycle", "fanout", "deep", "lame", "many-keys", "nsec3-iter", "mixed", "v6-fanout"}

func init() {
	kit.Register(&kit.Prop{
		ID:    "C12",
		Level: "exploration",
		Rule: "Scenario = attack topology from a generator (CNAME chains and cycles across zones, DNAME ping-pong, glueless name-server dependency " +
			"cycles, fan-out referrals, deep delegation chains, lame/self-referring servers, zones with many colliding DNSKEYs and RRSIGs, high-iteration " +
			"NSEC3) of size N, firewall mode off/shadow/enforce with budgets from 1 upward, qname minimisation on/off, sequential questions each " +
			"repeated by a second client. Oracle: every question ends in an answer or SERVFAIL within the query timeout; in enforce mode the upstream " +
			"transport attempts simnet counts for one question (UDP datagrams + TCP connections, to quiescence) do not exceed max_outbound_queries, " +
			"an over-budget SERVFAIL carries EDE for EDNS clients and is not served to the second client from a cache; a shadow run and an off run of " +
			"the same scenario give identical client transcripts. Non-trivial = the budget was reached or a loop/chain limit fired; distinct = hash " +
			"of (topology, reply class, attempts bucket) sequence.",
		Assumptions: []string{
			"internal sub-query and DNSSEC-operation budgets are not visible on the wire; only the outbound budget is compared with packet counts",
			"sequential questions: every packet between a question's arrival and quiescence is attributed to it",
		},
		Components: kit.Components{
			Real: []string{"full default middleware chain", "recursion work ledger", "resolver", "cache", "failure cache"},
			Stub: []string{"kernel sockets (simnet)", "authoritative servers (authsim, attack topologies)", "disk (simdisk)"},
		},
		Gen:      func(r *kit.RNG, tier string) any { return genC12(r) },
		Blank:    func() any { return &C12Scenario{} },
		Run:      func(sc any, tr *kit.Trace) *kit.Result { return runC12(sc.(*C12Scenario), tr) },
		Warmup:   true, // the detached IPv6 name-server helper (v6-fanout) runs beside the request with more than one P
		PerChunk: 30,
		Quick:    1500,
		Thorough: 60000,
	})
}

func genC12(r *kit.RNG) *C12Scenario {
	sc := &C12Scenario{Seed: r.Uint64(), Topology: kit.Pick(r, c12Topologies), N: r.Range(2, 14), Signed: r.Chance(0.4),
		Mode: kit.Pick(r, []string{"enforce", "enforce", "enforce", "shadow", "off"}), QnameMin: kit.Pick(r, []int{0, 3, 5}),
		MaxOutbound: uint32(kit.Pick(r, []int{1, 2, 3, 5, 8, 16, 40, 128})), MaxInternal: uint32(kit.Pick(r, []int{1, 2, 4, 32})),
		Lame: kit.Pick(r, []string{"", "", "refused", "servfail", "silent", "self-referral", "shallow-referral"})}
	if sc.Topology == "many-keys" || sc.Topology == "nsec3-iter" {
		sc.Signed = true
	}
	if sc.Topology == "v6-fanout" {
		// IPv6 access on: a referral with many in-zone name servers and IPv4 glue only arms the
		// detached helper that looks up their AAAA records; its lookups belong to the request
		// that started it and count against the same budgets
		sc.Lame = ""
		sc.N = r.Range(6, 14)
		sc.MaxOutbound = uint32(kit.Pick(r, []int{4, 5, 6, 8}))
		if r.Chance(0.8) {
			sc.Mode = "enforce"
		}
	}
	if sc.Lame == "shallow-referral" {
		// the restart-without-minimisation path: needs minimisation on and a budget it can cross
		sc.Topology, sc.Signed = "lame", false
		sc.QnameMin = kit.Pick(r, []int{3, 5})
		sc.MaxOutbound = uint32(kit.Pick(r, []int{3, 4, 5, 6, 7, 8, 16}))
		if r.Chance(0.7) {
			sc.Mode = "enforce"
		}
	}
	names := c12Names(sc)
	n := r.Range(1, 5)
	for i := 0; i < n; i++ {
		sc.Ops = append(sc.Ops, C12Op{Name: kit.Pick(r, names), Type: uint16(kit.Pick(r, []int{1, 1, 28, 16})), NoEDNS: r.Chance(0.2)})
	}
	return sc
}

func c12Names(sc *C12Scenario) []string {
	switch sc.Topology {
	case "cname-chain", "cname-cycle":
		return []string{"c0.z0.test.", "c1.z1.test."}
	case "dname-pingpong":
		return []string{"x.d.z0.test.", "a.b.d.z0.test."}
	case "glueless-cycle":
		return []string{"www.ga.test.", "www.gb.test."}
	case "fanout":
		return []string{"www.fan.test."}
	case "v6-fanout":
		return []string{"www.six6.test.", "mail.six6.test."}
	case "deep":
		return []string{"www." + strings.Repeat("s.", sc.N) + "deep.test."}
	case "lame":
		if sc.Lame == "shallow-referral" {
			return []string{"w.x.y.deep.lame.test.", "v.w.x.y.deep.lame.test.", "www.lame.test."}
		}
		return []string{"www.lame.test.", "nx.lame.test."}
	case "many-keys":
		return []string{"www.keys.test.", "nx.keys.test."}
	case "nsec3-iter":
		return []string{"nx.iter.test.", "a.b.c.nx.iter.test."}
	}
	return []string{"c0.z0.test.", "www.ga.test.", "www.fan.test.", "www.lame.test.", "x.d.z0.test."}
}

func c12Spec(sc *C12Scenario) *world.Spec {
	sp := &world.Spec{}
	alg := uint8(dns.ED25519)
	addrN := 20
	addr := func() string { addrN++; return fmt.Sprintf("192.0.2.%d", addrN) }
	z := func(name string, recs ...string) *world.ZoneSpec {
		a := addr()
		sp.Zones = append(sp.Zones, world.ZoneSpec{Name: name, Signed: sc.Signed, Alg: alg, KeyIdx: len(sp.Zones), Secure: true,
			NSNames: []string{"ns." + name}, Addrs: []string{a}, Records: append([]string{fmt.Sprintf("ns.%s 3600 IN A %s", name, a)}, recs...)})
		return &sp.Zones[len(sp.Zones)-1]
	}
	sp.Zones = append(sp.Zones, world.ZoneSpec{Name: ".", Signed: sc.Signed, Alg: alg, KeyIdx: 0, NSNames: []string{"a.root-servers.net."}, Addrs: []string{"198.41.0.4"},
		Records: []string{"a.root-servers.net. 518400 IN A 198.41.0.4"}})
	z("test.")
	top := sc.Topology
	all := top == "mixed"
	if all || top == "cname-chain" || top == "cname-cycle" {
		nz := 3
		var recs [][]string = make([][]string, nz)
		for i := 0; i < sc.N; i++ {
			next := fmt.Sprintf("c%d.z%d.test.", i+1, (i+1)%nz)
			if i == sc.N-1 {
				if top == "cname-cycle" || all {
					next = "c0.z0.test."
				} else {
					recs[(i+1)%nz] = append(recs[(i+1)%nz], fmt.Sprintf("c%d.z%d.test. 60 IN A 192.0.2.200", i+1, (i+1)%nz))
				}
			}
			recs[i%nz] = append(recs[i%nz], fmt.Sprintf("c%d.z%d.test. 60 IN CNAME %s", i, i%nz, next))
		}
		for i := 0; i < nz; i++ {
			z(fmt.Sprintf("z%d.test.", i), recs[i]...)
		}
	}
	if top == "dname-pingpong" {
		z("z0.test.", "d.z0.test. 60 IN DNAME e.z1.test.")
		z("z1.test.", "e.z1.test. 60 IN DNAME d.z0.test.")
	}
	if all || top == "glueless-cycle" {
		sp.Zones = append(sp.Zones,
			world.ZoneSpec{Name: "ga.test.", NSNames: []string{"ns.gb.test."}, Addrs: []string{addr()}, NoGlue: true, Signed: sc.Signed, Alg: alg, KeyIdx: 30, Secure: true, Records: []string{"www.ga.test. 60 IN A 192.0.2.201", "ns.ga.test. 60 IN A 192.0.2.250"}},
			world.ZoneSpec{Name: "gb.test.", NSNames: []string{"ns.ga.test."}, Addrs: []string{addr()}, NoGlue: true, Signed: sc.Signed, Alg: alg, KeyIdx: 31, Secure: true, Records: []string{"www.gb.test. 60 IN A 192.0.2.202", "ns.gb.test. 60 IN A 192.0.2.251"}})
	}
	if all || top == "fanout" {
		var ns, ad []string
		for i := 0; i < sc.N; i++ {
			host := fmt.Sprintf("ns.h%d.test.", i)
			ns = append(ns, host)
			ad = append(ad, "") // no address known: glueless, and the host zones do not exist
		}
		ad[0] = addr()
		sp.Zones = append(sp.Zones, world.ZoneSpec{Name: "fan.test.", NSNames: ns, Addrs: ad, NoGlue: true, Signed: sc.Signed, Alg: alg, KeyIdx: 32, Secure: true,
			Records: []string{"www.fan.test. 60 IN A 192.0.2.203"}})
	}
	if top == "v6-fanout" {
		var ns, ad, recs []string
		for i := 0; i < sc.N; i++ {
			host := fmt.Sprintf("ns%d.six6.test.", i)
			a := addr()
			ns, ad = append(ns, host), append(ad, a)
			recs = append(recs, fmt.Sprintf("%s 3600 IN A %s", host, a))
		}
		recs = append(recs, "www.six6.test. 60 IN A 192.0.2.208", "mail.six6.test. 60 IN A 192.0.2.209")
		sp.Zones = append(sp.Zones, world.ZoneSpec{Name: "six6.test.", NSNames: ns, Addrs: ad, Signed: sc.Signed, Alg: alg, KeyIdx: 33, Secure: true, Records: recs})
		sp.Cfg.IPv6 = true
	}
	if top == "deep" {
		name := "deep.test."
		z(name)
		for i := 0; i < sc.N; i++ {
			name = "s." + name
			z(name)
		}
		sp.Zones[len(sp.Zones)-1].Records = append(sp.Zones[len(sp.Zones)-1].Records, "www."+name+" 60 IN A 192.0.2.204")
	}
	if all || top == "lame" {
		z("lame.test.", "www.lame.test. 60 IN A 192.0.2.205")
	}
	if top == "many-keys" {
		z("keys.test.", "www.keys.test. 60 IN A 192.0.2.206")
	}
	if top == "nsec3-iter" {
		zz := z("iter.test.", "www.iter.test. 60 IN A 192.0.2.207", "x.y.iter.test. 60 IN TXT \"t\"")
		zz.NSEC3, zz.Iter, zz.Salt = true, uint16(50*sc.N), "abcd"
	}
	sp.Cfg.Firewall = sc.Mode
	sp.Cfg.MaxOutbound = sc.MaxOutbound
	sp.Cfg.MaxInternal = sc.MaxInternal
	sp.Cfg.QnameMin = sc.QnameMin
	sp.Cfg.DNSSECOff = !sc.Signed
	sp.Cfg.QueryTimeoutS = 6
	return sp
}

type c12Transcript struct {
	lines []string
}

func runC12(sc *C12Scenario, tr *kit.Trace) *kit.Result {
	res := kit.NewResult()
	var t1 c12Transcript
	kit.Bubble(func() { execC12(sc, tr, res, &t1, true) })
	if res.Viol == nil && sc.Mode == "shadow" {
		// metamorphic twin: the same scenario with the firewall off must look the same
		off := *sc
		off.Mode = "off"
		var t2 c12Transcript
		r2 := kit.NewResult()
		kit.Bubble(func() { execC12(&off, &kit.Trace{}, r2, &t2, false) })
		res.Probes["twin-runs"]++
		a, b := strings.Join(t1.lines, "\n"), strings.Join(t2.lines, "\n")
		if a != b {
			res.Fail("C12/shadow-differs-from-off", "client transcripts differ between shadow and off:\nshadow:\n%s\noff:\n%s", a, b)
		}
	}
	return res
}

func execC12(sc *C12Scenario, tr *kit.Trace, res *kit.Result, ts *c12Transcript, judge bool) {
	w := world.NewRes(c12Spec(sc), sc.Seed, tr)
	defer w.Close()
	defer func() { res.SimTime = w.Now(); res.Steps = w.Net.SentCount() }()
	// many-keys: pad the DNSKEY RRset and signatures of keys.test with colliding/extra keys
	if kz := w.World.Zones["keys.test."]; kz != nil && kz.Signed {
		a, b := authsim.CollidingPair("keys.test.", 0)
		if a != nil {
			kz.Extra = append(kz.Extra, a.WithFlags(256), b.WithFlags(256))
		}
		for i := 0; i < sc.N; i++ {
			kz.Extra = append(kz.Extra, authsim.NewKey("keys.test.", dns.ED25519, 256, 3000+i))
		}
		kz.Add() // rebuild apex
	}
	lameFired := 0 // lame-server behaviours that fired in this world
	w.Hook = func(addr netip.Addr, q *simnet.Query, honest *authsim.Answer) []simnet.Reply {
		if honest.Zone == nil {
			return nil
		}
		if honest.Zone.Name == "lame.test." && sc.Lame == "shallow-referral" {
			// An inconsistent authority: minimised probes for intermediate names get an empty
			// NOERROR, then a deeper probe gets a referral for a cut two or more labels above
			// it (the resolver restarts from the root without minimisation); the full name gets
			// its address.
			qn := dns.CanonicalName(q.Msg.Question[0].Name)
			if !dns.IsSubDomain("deep.lame.test.", qn) {
				return nil
			}
			m := new(dns.Msg)
			m.SetReply(q.Msg)
			m.Authoritative = true
			soa := &dns.SOA{Hdr: dns.RR_Header{Name: "lame.test.", Rrtype: dns.TypeSOA, Class: dns.ClassINET, Ttl: 60}, Ns: "ns.lame.test.", Mbox: "h.lame.test.", Serial: 1, Refresh: 1, Retry: 1, Expire: 1, Minttl: 60}
			labels := dns.CountLabel(qn)
			switch {
			case labels >= 7 && q.Msg.Question[0].Qtype == dns.TypeA: // w.x.y.deep.lame.test. and deeper
				m.Answer = []dns.RR{&dns.A{Hdr: dns.RR_Header{Name: q.Msg.Question[0].Name, Rrtype: dns.TypeA, Class: dns.ClassINET, Ttl: 60}, A: []byte{192, 0, 2, 206}}}
			case labels >= 5: // x.y.deep.lame.test.: a referral for deep.lame.test., two labels up
				m.Authoritative = false
				m.Ns = []dns.RR{&dns.NS{Hdr: dns.RR_Header{Name: "deep.lame.test.", Rrtype: dns.TypeNS, Class: dns.ClassINET, Ttl: 3600}, Ns: "ns.lame.test."}}
				m.Extra = []dns.RR{&dns.A{Hdr: dns.RR_Header{Name: "ns.lame.test.", Rrtype: dns.TypeA, Class: dns.ClassINET, Ttl: 3600}, A: addr.AsSlice()}}
			default:
				m.Ns = []dns.RR{soa}
			}
			if o := q.Msg.IsEdns0(); o != nil {
				m.SetEdns0(1232, o.Do())
			}
			res.Fault("lame:shallow-referral")
			lameFired++
			return world.PackReply(m, q)
		}
		if honest.Zone.Name == "lame.test." && sc.Lame != "" && sc.Lame != "shallow-referral" {
			m := new(dns.Msg)
			m.SetReply(q.Msg)
			switch sc.Lame {
			case "refused":
				m.Rcode = dns.RcodeRefused
			case "servfail":
				m.Rcode = dns.RcodeServerFailure
			case "silent":
				return []simnet.Reply{}
			case "self-referral":
				m.Ns = []dns.RR{&dns.NS{Hdr: dns.RR_Header{Name: "lame.test.", Rrtype: dns.TypeNS, Class: dns.ClassINET, Ttl: 3600}, Ns: "ns.lame.test."}}
			}
			res.Fault("lame:" + sc.Lame)
			lameFired++
			return world.PackReply(m, q)
		}
		if honest.Zone.Name == "keys.test." && honest.Zone.Signed && q.Msg.Question[0].Qtype != dns.TypeDNSKEY {
			// many signatures per RRset: duplicate RRSIGs made by the extra keys
			m := honest.Msg.Copy()
			var extra []dns.RR
			for _, rr := range m.Answer {
				if rr.Header().Rrtype != dns.TypeRRSIG && len(extra) < 3*sc.N {
					for _, k := range honest.Zone.Extra {
						extra = append(extra, honest.Zone.SignRRset([]dns.RR{rr}, k, "keys.test.", -1))
					}
				}
			}
			m.Answer = append(extra, m.Answer...)
			res.Fault("many-sigs")
			return world.PackReply(m, q)
		}
		return nil
	}
	kit.SleepSettle(5 * time.Second)
	qt := 6 * time.Second
	for i, op := range sc.Ops {
		if res.Viol != nil {
			return
		}
		firstOverBudget := false
		for client := 0; client < 3; client++ {
			if client == 2 {
				// A third and a fourth client, the fourth a moment after the third was answered:
				// inside the lifetime a cached failure would have. Only where the over-budget
				// reply is the one failure in sight: every server of this world answers properly.
				// ... and the data resolves once the budget allows: in a cycle or behind lame
				// servers some part of the tree fails for real, and that failure may be cached.
				resolvable := sc.Topology == "cname-chain" || sc.Topology == "fanout" || sc.Topology == "v6-fanout" || sc.Topology == "deep"
				if !judge || sc.Mode != "enforce" || !firstOverBudget || lameFired > 0 || op.NoEDNS || !resolvable {
					break
				}
				mk := func() *dns.Msg {
					q := new(dns.Msg)
					q.SetQuestion(op.Name, op.Type)
					q.RecursionDesired = true
					q.SetEdns0(1232, false)
					return q
				}
				kit.SleepSettle(50 * time.Millisecond)
				c3 := w.Ask(netip.MustParseAddrPort("10.9.0.3:40000"), "udp", mk())
				kit.SleepSettle(300 * time.Millisecond)
				sentBefore := w.Net.SentCount()
				dialsBefore := len(w.Net.Dials)
				crossedBefore := middleware.VerifFirewallExhaustions()
				c4 := w.Ask(netip.MustParseAddrPort("10.9.0.4:40000"), "udp", mk())
				kit.SleepSettle(qt + 4*time.Second)
				quiet := w.Net.SentCount() == sentBefore && len(w.Net.Dials) == dialsBefore && middleware.VerifFirewallExhaustions() == crossedBefore
				if len(c3.Replies) == 1 && len(c4.Replies) == 1 && lameFired == 0 {
					m3, m4 := c3.Replies[0], c4.Replies[0]
					res.Probes["follow-up-inside-failure-lifetime"]++
					if m3.Rcode == dns.RcodeServerFailure && strings.Contains(edeText(m3), "budget") && m4.Rcode == dns.RcodeServerFailure && quiet {
						res.Fail("C12/budget-failure-cached", "op %d %s/%s (topology %s n=%d, mode enforce): a client got the over-budget SERVFAIL (%q); a client asking 300 ms later was answered SERVFAIL (%q) with no upstream traffic and no work of its own that crossed a budget: the over-budget failure was served from a cache",
							i, op.Name, dns.TypeToString[op.Type], sc.Topology, sc.N, edeText(m3), edeText(m4))
						return
					}
				}
				break
			}
			kit.SleepSettle(50 * time.Millisecond)
			q := new(dns.Msg)
			q.SetQuestion(op.Name, op.Type)
			q.RecursionDesired = true
			if !op.NoEDNS {
				q.SetEdns0(1232, false)
			}
			sentBefore := w.Net.SentCount()
			dialsBefore := len(w.Net.Dials)
			crossedBefore := middleware.VerifFirewallExhaustions()
			t0 := time.Now()
			c := w.Ask(netip.MustParseAddrPort(fmt.Sprintf("10.9.0.%d:40000", client+1)), "udp", q)
			lat := time.Since(t0)
			kit.SleepSettle(qt + 4*time.Second) // to quiescence: detached helpers included
			udp, tcp := 0, 0
			for _, s := range w.Net.Canonical()[sentBefore:] {
				if s.Proto == "udp" {
					udp++
				}
			}
			for _, d := range w.Net.Dials[dialsBefore:] {
				if strings.HasPrefix(d, "tcp") {
					tcp++
				}
			}
			attempts := udp + tcp
			if len(c.Replies) != 1 {
				res.Fail("C12/reply-count", "op %d client %d %s: %d replies", i, client, op.Name, len(c.Replies))
				return
			}
			m := c.Replies[0]
			ede := hasEDE(m)
			line := fmt.Sprintf("op %d c%d %s/%s -> %s ans=%v", i, client, op.Name, dns.TypeToString[op.Type], dns.RcodeToString[m.Rcode], authsim.RRKeys(m.Answer, dns.TypeRRSIG))
			ts.lines = append(ts.lines, line)
			tr.AddAt(w.Now(), "%s attempts=%d (udp %d tcp %d) lat=%v ede=%q", line, attempts, udp, tcp, lat, edeText(m))
			bucket := "few"
			if uint32(attempts) >= sc.MaxOutbound {
				bucket = "at-budget"
			}
			tr.Shape(fmt.Sprintf("%s|%s|%s", sc.Topology, dns.RcodeToString[m.Rcode], bucket))
			if !judge {
				continue
			}
			if client == 0 && m.Rcode == dns.RcodeServerFailure && strings.Contains(edeText(m), "budget") {
				firstOverBudget = true
			}
			ctx := fmt.Sprintf("op %d client %d %s/%s (topology %s n=%d, mode %s, max_outbound %d): reply %s after %v with %d upstream attempts", i, client, op.Name, dns.TypeToString[op.Type], sc.Topology, sc.N, sc.Mode, sc.MaxOutbound, dns.RcodeToString[m.Rcode], lat, attempts)
			if lat > qt+500*time.Millisecond {
				res.Fail("C12/not-terminating-in-time", "%s: exceeds the query timeout of %v", ctx, qt)
				return
			}
			if sc.Mode == "enforce" {
				if uint32(attempts) > sc.MaxOutbound {
					res.Fail("C12/outbound-budget-exceeded", "%s: more than max_outbound_queries", ctx)
					return
				}
				if uint32(attempts) >= sc.MaxOutbound {
					res.Nontrivial = true
					res.Probes["budget-reached"]++
					// Whether this SERVFAIL is the over-budget one cannot be told from outside
					// when the last permitted attempt itself met a failing server, so the EDE
					// clause is only recorded, not asserted.
					if m.Rcode == dns.RcodeServerFailure && !op.NoEDNS {
						if strings.Contains(edeText(m), "budget") {
							res.Probes["over-budget-ede-seen"]++
						} else if !ede {
							res.Probes["servfail-at-budget-without-ede"]++
						}
					}
				}
				// A topology such as a glueless cycle also fails genuinely (no reachable
				// authority), which may be cached under RFC 9520; what must not be served
				// from a cache is the budget failure itself.
				// A second client whose own tree ran out of budget on cached pieces alone (an
				// alias cycle chased hop by hop out of the cache costs internal sub-queries) gets
				// its own over-budget reply, with no upstream traffic either: the firewall's count
				// of trees that crossed a budget tells the two apart.
				ownCrossing := middleware.VerifFirewallExhaustions() > crossedBefore
				if ownCrossing && attempts == 0 && m.Rcode == dns.RcodeServerFailure {
					res.Probes["over-budget-on-cached-pieces-alone"]++
				}
				if m.Rcode == dns.RcodeServerFailure && attempts == 0 && !ownCrossing && strings.Contains(edeText(m), "budget") {
					res.Fail("C12/budget-failure-cached", "%s: the first client's over-budget SERVFAIL was served to a second client without any upstream traffic", ctx)
					return
				}
			}
			ts.lines[len(ts.lines)-1] = line // (attempt counts are not part of the transcript)
			if client == 0 {
				ts.lines = append(ts.lines, fmt.Sprintf("#attempts %d", attempts))
			}
			if m.Rcode == dns.RcodeServerFailure {
				res.Probes["servfail"]++
			} else {
				res.Probes["answered"]++
			}
		}
	}
	// attempt markers are harness bookkeeping, not client-visible
	var clean []string
	for _, l := range ts.lines {
		if !strings.HasPrefix(l, "#attempts") {
			clean = append(clean, l)
		}
	}
	ts.lines = clean
}

func edeText(m *dns.Msg) string {
	if o := m.IsEdns0(); o != nil {
		for _, e := range o.Option {
			if x, ok := e.(*dns.EDNS0_EDE); ok {
				return fmt.Sprintf("%d %s", x.InfoCode, x.ExtraText)
			}
		}
	}
	return ""
}

func prevAttempts(ts *c12Transcript) int {
	for i := len(ts.lines) - 1; i >= 0; i-- {
		if strings.HasPrefix(ts.lines[i], "#attempts ") {
			n := 0
			fmt.Sscanf(ts.lines[i], "#attempts %d", &n)
			return n
		}
	}
	return 0
}
