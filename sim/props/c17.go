package props

import (
	"fmt"
	"net/netip"
	"sort"
	"strings"
	"time"

	"github.com/miekg/dns"
	"github.com/semihalev/sdns/config"

	"verifsim/kit"
	"verifsim/world"
)

// C17 — access control is exact and applies to clients only (DESIGN.md §3 C17).
//
// W-res with a generated access list (overlaps, nesting, host bits, both families,
// unparsable entries), views and an optional client rate limit. Clients are placed on and
// next to every prefix boundary, also in IPv4-mapped form. A denied client must get no
// reply and cause no upstream packet; an allowed client must get exactly the answer the
// zones (or its first matching view) hold, although the names it asks need internal
// sub-queries (glueless delegation, DS/DNSKEY chain) whose writer has no address inside
// the list.

type C17Op struct {
	Client string `json:"c"`
	TCP    bool   `json:"tcp,omitempty"`
	Name   string `json:"n"`
	Type   uint16 `json:"t"`
	GapMs  int    `json:"gap_ms,omitempty"`
}

type C17Scenario struct {
	Access     []string            `json:"access"`
	Views      []config.ViewConfig `json:"views,omitempty"`
	ClientRate int                 `json:"client_rate,omitempty"`
	Ops        []C17Op             `json:"ops"`
}

func init() {
	kit.Register(&kit.Prop{
		ID:    "C17",
		Level: "exploration",
		Rule: "Scenario = access list (1-6 entries: v4/v6 prefixes of every length class, nested/overlapping, host bits set, unparsable " +
			"entries) + 0-3 views + optional client rate limit + 6-20 queries from clients on/next to prefix boundaries (also IPv4-mapped), " +
			"over UDP and TCP, for names that need internal sub-queries (glueless NS, signed chain). Non-trivial = at least one client was " +
			"denied and one allowed, or a view answered. Distinct = hash of (verdict, transport, reply class) per query.",
		Assumptions: []string{
			"'parsable' is netip.ParsePrefix (the reference scans the parsed prefixes one by one with Prefix.Contains)",
			"IPv4-mapped prefixes (::ffff:a.b.c.d/n) and zoned addresses are not generated",
			"the wire (undecoded) ingress path is exercised by the W-ing checks, not here: queries enter through Server.ServeMsg",
		},
		Components: kit.Components{
			Real: []string{"internal/ipset", "middleware/accesslist", "middleware/views", "middleware/ratelimit", "whole default chain, resolver, sub-pipelines"},
			Stub: []string{"network (simnet)", "authoritative servers (authsim)", "listeners (queries enter at Server.ServeMsg with a recording transport)"},
		},
		Gen:      func(r *kit.RNG, tier string) any { return genC17(r) },
		Blank:    func() any { return &C17Scenario{} },
		Run:      func(sc any, tr *kit.Trace) *kit.Result { return runC17(sc.(*C17Scenario), tr) },
		Shrink:   shrinkC17,
		PerChunk: 20,
		Quick:    3200,
		Thorough: 40000,
	})
}

func c17RandAddr(r *kit.RNG, v6 bool) netip.Addr {
	if !v6 {
		var b [4]byte
		base := kit.Pick(r, [][4]byte{{10, 0, 0, 0}, {10, 1, 0, 0}, {192, 168, 1, 0}, {172, 16, 0, 0}, {203, 0, 113, 0}})
		b = base
		if r.Chance(0.7) {
			b[3] = byte(r.Intn(256))
		}
		if r.Chance(0.3) {
			b[2] = byte(r.Intn(256))
		}
		if r.Chance(0.1) {
			b[0], b[1] = byte(r.Intn(256)), byte(r.Intn(256))
		}
		return netip.AddrFrom4(b)
	}
	var b [16]byte
	copy(b[:], []byte{0x20, 0x01, 0x0d, 0xb8})
	if r.Chance(0.3) {
		b[0], b[1] = 0xfd, 0x00
	}
	for i := 4; i < 16; i++ {
		if r.Chance(0.25) {
			b[i] = byte(r.Intn(256))
		}
	}
	return netip.AddrFrom16(b)
}

func c17GenPrefix(r *kit.RNG) string {
	v6 := r.Chance(0.35)
	a := c17RandAddr(r, v6)
	var bits int
	if v6 {
		bits = kit.Pick(r, []int{0, 8, 32, 48, 56, 63, 64, 65, 96, 127, 128})
	} else {
		bits = kit.Pick(r, []int{0, 1, 8, 12, 16, 23, 24, 25, 30, 31, 32})
	}
	p := netip.PrefixFrom(a, bits)
	if r.Chance(0.5) {
		p = p.Masked() // otherwise host bits stay set
	}
	return p.String()
}

func c17Edge(r *kit.RNG, cidr string) (netip.Addr, bool) {
	p, err := netip.ParsePrefix(cidr)
	if err != nil {
		return netip.Addr{}, false
	}
	p = p.Masked()
	lo := p.Addr()
	// last address of the prefix
	hb := lo.AsSlice()
	host := len(hb)*8 - p.Bits()
	for i := len(hb) - 1; i >= 0 && host > 0; i-- {
		n := host
		if n > 8 {
			n = 8
		}
		hb[i] |= byte(1<<uint(n) - 1)
		host -= n
	}
	hi, _ := netip.AddrFromSlice(hb)
	switch r.Intn(5) {
	case 0:
		return lo, true
	case 1:
		return hi, true
	case 2:
		if pv := lo.Prev(); pv.IsValid() {
			return pv, true
		}
		return lo, true
	case 3:
		if nx := hi.Next(); nx.IsValid() {
			return nx, true
		}
		return hi, true
	default:
		// somewhere inside
		b := lo.AsSlice()
		b[len(b)-1] |= hb[len(hb)-1] & byte(r.Intn(256))
		in, _ := netip.AddrFromSlice(b)
		return in, true
	}
}

var c17Names = []string{"www.test.", "a.test.", "deep.sub.test.", "w.sub.test.", "nx.test.", "www.lan.", "host.corp.lan.", "x.y.corp.lan."}

func genC17(r *kit.RNG) *C17Scenario {
	sc := &C17Scenario{}
	n := r.Range(1, 6)
	for i := 0; i < n; i++ {
		switch {
		case r.Chance(0.15):
			sc.Access = append(sc.Access, kit.Pick(r, []string{"10.0.0.0/33", "garbage", "10.0.0.1", "300.1.1.1/8", "2001:db8::/129", "", "10.0.0.0/-1", "0.0.0.0/0x0", "1.2.3/8", "::/0/0"}))
		case i > 0 && r.Chance(0.3):
			// nested in / overlapping a previous entry
			if p, err := netip.ParsePrefix(sc.Access[r.Intn(len(sc.Access))]); err == nil {
				bits := p.Bits() + r.Intn(9)
				if bits > p.Addr().BitLen() {
					bits = p.Addr().BitLen()
				}
				sc.Access = append(sc.Access, netip.PrefixFrom(p.Addr(), bits).String())
				continue
			}
			fallthrough
		default:
			sc.Access = append(sc.Access, c17GenPrefix(r))
		}
	}
	if r.Chance(0.15) {
		sc.Access = append(sc.Access, kit.Pick(r, []string{"0.0.0.0/0", "::/0"}))
	}
	nv := r.Intn(4)
	for i := 0; i < nv; i++ {
		v := config.ViewConfig{Zone: "lan."}
		for j, m := 0, r.Range(1, 3); j < m; j++ {
			if len(sc.Access) > 0 && r.Chance(0.5) {
				v.Networks = append(v.Networks, kit.Pick(r, sc.Access))
			} else {
				v.Networks = append(v.Networks, c17GenPrefix(r))
			}
		}
		cands := []string{
			fmt.Sprintf("www.lan. 60 IN A 10.99.%d.1", i), fmt.Sprintf("host.corp.lan. 60 IN A 10.99.%d.2", i),
			fmt.Sprintf("*.corp.lan. 60 IN A 10.99.%d.3", i), fmt.Sprintf("*.lan. 60 IN A 10.99.%d.4", i),
			fmt.Sprintf("www.test. 60 IN A 10.99.%d.5", i), fmt.Sprintf("www.lan. 60 IN AAAA fd00::%d", i+1),
		}
		for _, c := range cands {
			if r.Chance(0.45) {
				v.Answers = append(v.Answers, c)
			}
		}
		sc.Views = append(sc.Views, v)
	}
	if r.Chance(0.3) {
		sc.ClientRate = kit.Pick(r, []int{1, 2, 30})
	}
	nops := r.Range(6, 20)
	for i := 0; i < nops; i++ {
		var a netip.Addr
		src := append([]string(nil), sc.Access...)
		for _, v := range sc.Views {
			src = append(src, v.Networks...)
		}
		if e, ok := c17Edge(r, kit.Pick(r, src)); ok && r.Chance(0.8) {
			a = e
		} else {
			a = c17RandAddr(r, r.Chance(0.3))
		}
		if a.Is4() && r.Chance(0.2) {
			a = netip.AddrFrom16(a.As16()) // IPv4-mapped IPv6 source
		}
		if a.IsUnspecified() {
			a = netip.MustParseAddr("10.0.0.9")
		}
		if r.Chance(0.12) {
			// a source on this host (127.0.0.255 is the address sdns stamps on its own
			// sub-queries, there with port 0; a client can own it with a real port): other middlewares exempt it from their limits, the access
			// list has no such exemption
			a = netip.MustParseAddr(kit.Pick(r, []string{"127.0.0.1", "127.0.0.53", "127.8.9.10", "::1", "::ffff:127.0.0.1", "127.0.0.255", "127.0.0.255", "::ffff:127.0.0.255", "127.0.0.254"}))
		}
		op := C17Op{Client: a.String(), TCP: r.Chance(0.3), Name: kit.Pick(r, c17Names), Type: kit.Pick(r, []uint16{dns.TypeA, dns.TypeA, dns.TypeA, dns.TypeAAAA, dns.TypeTXT}),
			GapMs: kit.Pick(r, []int{1500, 2500, 4000})}
		sc.Ops = append(sc.Ops, op)
	}
	return sc
}

// c17Allowed is the definition: the address, taken as IPv4 when it is IPv4-mapped, lies in
// at least one entry that parses.
func c17Contains(list []string, a netip.Addr) bool {
	a = a.Unmap()
	for _, e := range list {
		p, err := netip.ParsePrefix(e)
		if err != nil {
			continue
		}
		if p.Masked().Contains(a) {
			return true
		}
	}
	return false
}

// c17ViewAnswer returns the records the first view containing the client holds for the
// question (nil = the query goes on to the resolver).
func c17ViewAnswer(views []config.ViewConfig, a netip.Addr, name string, qtype uint16) []string {
	name = dns.CanonicalName(name)
	for _, v := range views {
		if !c17Contains(v.Networks, a) {
			continue
		}
		var exact, wild []string
		best := -1
		for _, s := range v.Answers {
			rr, err := dns.NewRR(s)
			if err != nil || rr == nil || rr.Header().Rrtype != qtype {
				continue
			}
			owner := dns.CanonicalName(rr.Header().Name)
			val := strings.TrimPrefix(rr.String(), rr.Header().String())
			if owner == name {
				exact = append(exact, val)
				continue
			}
			if strings.HasPrefix(owner, "*.") && name != owner[2:] && dns.IsSubDomain(owner[2:], name) {
				n := dns.CountLabel(owner[2:])
				if n > best {
					best, wild = n, []string{val}
				} else if n == best {
					wild = append(wild, val)
				}
			}
		}
		if len(exact) > 0 {
			return exact
		}
		return wild // first matching view decides, even when it holds nothing
	}
	return nil
}

func runC17(sc *C17Scenario, tr *kit.Trace) *kit.Result {
	res := kit.NewResult()
	kit.Bubble(func() { c17Run(sc, tr, res) })
	return res
}

func c17Run(sc *C17Scenario, tr *kit.Trace, res *kit.Result) {
	t0 := time.Now()
	defer func() { res.SimTime = time.Since(t0) }()
	spec := &world.Spec{
		Zones: []world.ZoneSpec{
			{Name: ".", Signed: true, Alg: dns.ED25519, KeyIdx: 1, NSNames: []string{"a.root-servers.net."}, Addrs: []string{"198.41.0.4"}},
			{Name: "test.", Signed: true, Secure: true, Alg: dns.ED25519, KeyIdx: 2, NSNames: []string{"ns.test."}, Addrs: []string{"192.0.9.1"},
				Records: []string{"www.test. 300 IN A 192.0.2.10", "a.test. 300 IN A 192.0.2.11", "a.test. 300 IN TXT \"hello\""}},
			// glueless: the name server of sub.test. lives in another zone
			{Name: "sub.test.", Signed: true, Secure: true, Alg: dns.ED25519, KeyIdx: 3, NSNames: []string{"ns.other."}, Addrs: []string{"192.0.9.3"}, NoGlue: true,
				Records: []string{"deep.sub.test. 300 IN A 192.0.2.20", "w.sub.test. 300 IN A 192.0.2.21"}},
			{Name: "other.", NSNames: []string{"ns1.other."}, Addrs: []string{"192.0.9.4"}, Records: []string{"ns.other. 300 IN A 192.0.9.3"}},
		},
		Cfg: world.CfgSpec{AccessList: sc.Access, Views: sc.Views, ClientRate: sc.ClientRate},
	}
	zoneA := map[string]string{"www.test.": "192.0.2.10", "a.test.": "192.0.2.11", "deep.sub.test.": "192.0.2.20", "w.sub.test.": "192.0.2.21"}
	r := world.NewRes(spec, 17, tr)
	defer r.Close()
	kit.SleepSettle(3 * time.Second)
	lastAsk := map[string]time.Duration{}
	denied, allowed, viewed := 0, 0, 0
	for i, op := range sc.Ops {
		gap := time.Duration(op.GapMs) * time.Millisecond
		if gap <= 0 {
			gap = 2 * time.Second
		}
		kit.SleepSettle(gap)
		addr, err := netip.ParseAddr(op.Client)
		if err != nil {
			continue
		}
		// keep every client under its own rate limit: this check is about policy scope,
		// not about shedding (C11)
		key := addr.Unmap().String()
		if sc.ClientRate > 0 {
			need := time.Duration(float64(time.Minute)/float64(sc.ClientRate))*2 + time.Second // the limit is per minute
			if last, ok := lastAsk[key]; ok && r.Now()-last < need {
				kit.SleepSettle(need - (r.Now() - last))
			}
		}
		lastAsk[key] = r.Now()
		q := new(dns.Msg)
		q.SetQuestion(op.Name, op.Type)
		q.Id = uint16(2000 + i)
		q.SetEdns0(1232, true)
		proto := "udp"
		if op.TCP {
			proto = "tcp"
		}
		before := r.Net.SentCount()
		c := r.Ask(netip.AddrPortFrom(addr, 40000+uint16(i)), proto, q)
		kit.SleepSettle(12 * time.Second) // past the query timeout: a late reply would show
		sent := r.Net.SentCount() - before
		want := c17Contains(sc.Access, addr)
		if len(sc.Access) == 0 {
			want = true
		}
		tr.Add("op %d client %s %s %s/%s allowed(ref)=%v replies=%d upstream=%d", i, op.Client, proto, op.Name, dns.TypeToString[op.Type], want, len(c.Replies), sent)
		if !want {
			denied++
			tr.Shape(fmt.Sprintf("deny:%s:%d", proto, len(c.Replies)))
			if len(c.Replies) != 0 {
				res.Fail("C17/outside-client-answered", "op %d: %s is in none of the parsable entries of %v but got a reply over %s:\n%s", i, op.Client, sc.Access, proto, c.Replies[0])
				return
			}
			if sent != 0 {
				res.Fail("C17/outside-client-caused-upstream-traffic", "op %d: %s is outside %v, yet its query caused %d upstream packets", i, op.Client, sc.Access, sent)
				return
			}
			continue
		}
		allowed++
		if len(c.Replies) != 1 {
			res.Fail("C17/inside-client-not-answered", "op %d: %s lies inside %v but got %d replies over %s for %s/%s (client rate %d)", i, op.Client, sc.Access, len(c.Replies), proto, op.Name, dns.TypeToString[op.Type], sc.ClientRate)
			return
		}
		m := c.Replies[0]
		var got []string
		for _, rr := range m.Answer {
			if rr.Header().Rrtype == op.Type {
				got = append(got, strings.TrimPrefix(rr.String(), rr.Header().String()))
			}
		}
		sort.Strings(got)
		if va := c17ViewAnswer(sc.Views, addr, op.Name, op.Type); len(va) > 0 {
			viewed++
			sort.Strings(va)
			tr.Shape("view:" + proto)
			if strings.Join(got, ";") != strings.Join(va, ";") || m.Rcode != dns.RcodeSuccess {
				res.Fail("C17/wrong-view-answer", "op %d: %s asks %s/%s; its first matching view holds %v but the reply carries %v (%s)\nviews: %+v", i, op.Client, op.Name, dns.TypeToString[op.Type], va, got, dns.RcodeToString[m.Rcode], sc.Views)
				return
			}
			if sent != 0 {
				res.Fail("C17/view-answer-went-upstream", "op %d: a view answered %s for %s yet %d upstream packets were sent", i, op.Name, op.Client, sent)
				return
			}
			continue
		}
		// resolver answer: internal sub-queries (NS address, DS, DNSKEY) must have worked
		tr.Shape(fmt.Sprintf("allow:%s:%s", proto, dns.RcodeToString[m.Rcode]))
		ip, exists := zoneA[dns.CanonicalName(op.Name)]
		switch {
		case exists && op.Type == dns.TypeA:
			if m.Rcode != dns.RcodeSuccess || len(got) != 1 || got[0] != ip {
				res.Fail("C17/inside-client-wrong-answer", "op %d: %s (inside the list) asks %s/A = %s but got %s %v — internal sub-queries subjected to client policy?\n%s", i, op.Client, op.Name, ip, dns.RcodeToString[m.Rcode], got, m)
				return
			}
			if !m.AuthenticatedData {
				res.Fail("C17/inside-client-wrong-answer", "op %d: %s/A is in a secure zone but the reply lacks AD: the DS/DNSKEY sub-queries did not validate\n%s", i, op.Name, m)
				return
			}
		case strings.HasSuffix(dns.CanonicalName(op.Name), ".lan."):
			if m.Rcode != dns.RcodeNameError && m.Rcode != dns.RcodeSuccess {
				res.Fail("C17/inside-client-wrong-answer", "op %d: %s/%s has no view answer for %s: expected the resolver's NXDOMAIN, got %s", i, op.Name, dns.TypeToString[op.Type], op.Client, dns.RcodeToString[m.Rcode])
				return
			}
			if len(got) != 0 {
				res.Fail("C17/wrong-view-answer", "op %d: %s asks %s/%s; no view holds an answer for it (first matching view decides) but the reply carries %v\nviews: %+v", i, op.Client, op.Name, dns.TypeToString[op.Type], got, sc.Views)
				return
			}
		default:
			if m.Rcode != dns.RcodeSuccess && m.Rcode != dns.RcodeNameError {
				res.Fail("C17/inside-client-wrong-answer", "op %d: %s/%s for %s: got %s", i, op.Name, dns.TypeToString[op.Type], op.Client, dns.RcodeToString[m.Rcode])
				return
			}
		}
	}
	if (denied > 0 && allowed > 0) || viewed > 0 {
		res.Nontrivial = true
	}
	res.Probes["denied"] += denied
	res.Probes["allowed"] += allowed
	res.Probes["view-answered"] += viewed
}

func shrinkC17(sc any, fails func(any) bool) any {
	cur := sc.(*C17Scenario)
	budget := 200
	cur.Ops = kit.DDMin(cur.Ops, &budget, func(xs []C17Op) bool { c := *cur; c.Ops = xs; return fails(&c) })
	cur.Access = kit.DDMin(cur.Access, &budget, func(xs []string) bool { c := *cur; c.Access = xs; return len(xs) > 0 && fails(&c) })
	cur.Views = kit.DDMin(cur.Views, &budget, func(xs []config.ViewConfig) bool { c := *cur; c.Views = xs; return fails(&c) })
	if cur.ClientRate != 0 {
		c := *cur
		c.ClientRate = 0
		if fails(&c) {
			cur = &c
		}
	}
	return cur
}
