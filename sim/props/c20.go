package props

import (
	"fmt"
	"net/netip"
	"sort"
	"strings"
	"time"

	"github.com/miekg/dns"
	"github.com/semihalev/sdns/config"

	"verifsim/authsim"
	"verifsim/kit"
	"verifsim/simnet"
	"verifsim/world"
)

// C20 — DNS64 synthesises only RFC 6052 addresses, only when allowed, never with AD
// (DESIGN.md §3 C20). W-res with the real dns64 -> cache -> resolver stack; faults are
// placed separately on the AAAA leg and on the A leg of the synthesis.

type C20Op struct {
	Client string `json:"client"`
	Name   string `json:"name"`
	Type   uint16 `json:"type"` // AAAA or PTR (Name is then filled from an earlier synthesised address)
	NoRD   bool   `json:"no_rd,omitempty"`
	CD     bool   `json:"cd,omitempty"`
	DO     bool   `json:"do,omitempty"`
	AD     bool   `json:"ad,omitempty"`
	PTROf  int    `json:"ptr_of,omitempty"` // 1-based index of the op whose first synthesised address is reversed
	GapMs  int    `json:"gap_ms"`
	Upper  uint32 `json:"upper,omitempty"` // letter-case mask of the question name as sent (0x20 mixing)
}

type C20Fault struct {
	Leg    string `json:"leg"`  // aaaa | a
	Kind   string `json:"kind"` // silent servfail refused bogus
	FromOp int    `json:"from_op"`
	ToOp   int    `json:"to_op"`
}

type C20Scenario struct {
	Seed         uint64     `json:"seed"`
	Prefixes     []string   `json:"prefixes"`
	ClientNets   []string   `json:"client_nets,omitempty"`
	ExcludeZones []string   `json:"exclude_zones,omitempty"`
	Signed       bool       `json:"signed"`
	Budget       uint32     `json:"budget,omitempty"`
	Faults       []C20Fault `json:"faults,omitempty"`
	Ops          []C20Op    `json:"ops"`
}

func init() {
	kit.Register(&kit.Prop{
		ID:    "C20",
		Level: "exploration",
		Rule: "Scenario = DNS64 configuration (one or two prefixes of every legal length /32…/96 plus illegal ones, the well-known prefix with its excluded " +
			"IPv4 ranges, client networks, excluded zones) + zones with A-only, AAAA-only, both, excluded-AAAA, alias chains across zones, absent names, " +
			"signed or unsigned + faults placed separately on the AAAA leg and on the A leg (silence, SERVFAIL/REFUSED, signature corruption, tiny work " +
			"budget, and repeats so the AAAA leg is answered from the RFC 9520 cache) + clients eligible or not with RD/CD/DO/AD mixes + ip6.arpa PTR " +
			"questions for synthesised addresses. Oracle = independent RFC 6052 embed/extract and the zone model: synthesised AAAA = embed(prefix, a) for " +
			"each prefix and each usable A of the final name, owned by the final name, TTL bounded by A TTL and AAAA negative TTL, only for RD=1, CD=0, " +
			"eligible client, non-excluded zone, clean NODATA on the AAAA leg; never AD; PTR maps back to the same IPv4. Non-trivial = a synthesis " +
			"happened or was (rightly) withheld because of a leg fault; distinct = hash of (truth class, leg fault, reply class) sequence.",
		Assumptions: []string{
			"the 2^32 x 6 bijection is sampled: every synthesised address is checked in both directions, not all of them",
		},
		Components: kit.Components{
			Real: []string{"full default middleware chain incl. dns64", "cache", "resolver", "failure cache"},
			Stub: []string{"kernel sockets (simnet)", "authoritative servers (authsim + leg faults)", "disk (simdisk)"},
		},
		Gen:      func(r *kit.RNG, tier string) any { return genC20(r) },
		Blank:    func() any { return &C20Scenario{} },
		Run:      func(sc any, tr *kit.Trace) *kit.Result { return runC20(sc.(*C20Scenario), tr) },
		Shrink:   shrinkC20,
		PerChunk: 40,
		Quick:    2500,
		Thorough: 100000,
	})
}

var c20Prefixes = []string{"64:ff9b::/96", "2001:db8:64::/96", "2001:db8:100::/40", "2001:db8::/32", "2001:db8:1:2::/64", "2001:db8:122:300::/56", "2001:db8:122::/48",
	"2001:db8:9::/50", "2001:db8:8::/97"}

func genC20(r *kit.RNG) *C20Scenario {
	sc := &C20Scenario{Seed: r.Uint64(), Signed: r.Chance(0.4)}
	sc.Prefixes = []string{kit.Pick(r, c20Prefixes)}
	if r.Chance(0.3) {
		sc.Prefixes = append(sc.Prefixes, kit.Pick(r, c20Prefixes))
	}
	if r.Chance(0.3) {
		sc.ClientNets = []string{"10.64.0.0/16", "2001:db8:c::/48"}
	}
	if r.Chance(0.2) {
		sc.ExcludeZones = []string{"ex.six.test."}
	}
	if r.Chance(0.1) {
		sc.Budget = uint32(kit.Pick(r, []int{2, 4, 6}))
	}
	clients := []string{"10.64.1.1", "10.65.1.1", "2001:db8:c::9"}
	names := []string{"aonly.six.test.", "aonly.six.test.", "both.six.test.", "aaaaonly.six.test.", "none.six.test.", "nx.six.test.", "alias.six.test.", "xalias.six.test.",
		"mapped.six.test.", "priv.six.test.", "www.ex.six.test.", "multi.six.test.", "mixed.six.test.", "mixed.six.test.", "mappedonly.six.test.", "aonly.other.test."}
	n := r.Range(4, 16)
	for i := 0; i < n; i++ {
		op := C20Op{Client: kit.Pick(r, clients), Name: kit.Pick(r, names), Type: dns.TypeAAAA, NoRD: r.Chance(0.06), CD: r.Chance(0.08), DO: r.Chance(0.4), AD: r.Chance(0.3),
			GapMs: kit.Pick(r, []int{0, 10, 1000, 6000, 31000})}
		if i > 1 && r.Chance(0.2) {
			op.Type = dns.TypePTR
			op.PTROf = r.Range(1, i)
			op.Name = "placeholder.ip6.arpa."
		}
		if r.Chance(0.25) {
			op.Upper = uint32(r.Uint64())
		}
		sc.Ops = append(sc.Ops, op)
	}
	if r.Chance(0.6) {
		nf := r.Range(1, 2)
		for i := 0; i < nf; i++ {
			from := r.Intn(n)
			sc.Faults = append(sc.Faults, C20Fault{Leg: kit.Pick(r, []string{"aaaa", "aaaa", "a"}), Kind: kit.Pick(r, []string{"silent", "servfail", "refused", "bogus"}), FromOp: from, ToOp: from + r.Range(1, n)})
		}
	}
	return sc
}

// c20Case spells name with the letters selected by mask in upper case.
func c20Case(name string, mask uint32) string {
	if mask == 0 {
		return name
	}
	b := []byte(name)
	k := 0
	for j := range b {
		if b[j] >= 'a' && b[j] <= 'z' {
			if mask>>uint(k%32)&1 == 1 {
				b[j] -= 32
			}
			k++
		}
	}
	return string(b)
}

func c20Spec(sc *C20Scenario) *world.Spec {
	sp := &world.Spec{}
	alg := uint8(dns.ED25519)
	sp.Zones = []world.ZoneSpec{
		{Name: ".", Signed: sc.Signed, Alg: alg, KeyIdx: 0, NSNames: []string{"a.root-servers.net."}, Addrs: []string{"198.41.0.4"}, Records: []string{"a.root-servers.net. 518400 IN A 198.41.0.4"}},
		{Name: "test.", Signed: sc.Signed, Alg: alg, KeyIdx: 1, Secure: true, NSNames: []string{"ns.test."}, Addrs: []string{"192.0.2.10"}, Records: []string{"ns.test. 3600 IN A 192.0.2.10"}},
		{Name: "six.test.", Signed: sc.Signed, Alg: alg, KeyIdx: 2, Secure: true, NSNames: []string{"ns1.six.test."}, Addrs: []string{"192.0.2.20"}, SOAMin: 40,
			Records: []string{"ns1.six.test. 3600 IN A 192.0.2.20",
				"aonly.six.test. 120 IN A 93.184.216.34",
				"both.six.test. 120 IN A 93.184.216.35", "both.six.test. 120 IN AAAA 2606:2800:220:1::35",
				"aaaaonly.six.test. 120 IN AAAA 2606:2800:220:1::36",
				"none.six.test. 120 IN TXT \"no addresses\"",
				"alias.six.test. 300 IN CNAME aonly.six.test.",
				"xalias.six.test. 30 IN CNAME aonly.other.test.",
				"mapped.six.test. 120 IN AAAA ::ffff:93.184.216.40", "mapped.six.test. 20 IN A 93.184.216.40",
				"priv.six.test. 120 IN A 10.9.9.9",
				"multi.six.test. 60 IN A 93.184.216.50", "multi.six.test. 60 IN A 93.184.216.51", "multi.six.test. 60 IN A 192.168.5.5",
				// every AAAA is filtered and there is no A to synthesise from
				"mappedonly.six.test. 120 IN AAAA ::ffff:93.184.216.41",
				// an address the well-known prefix excludes listed before translatable ones
				"mixed.six.test. 60 IN A 10.9.9.8", "mixed.six.test. 60 IN A 93.184.216.52", "mixed.six.test. 60 IN A 100.64.1.1", "mixed.six.test. 60 IN A 93.184.216.53"}},
		{Name: "ex.six.test.", Signed: sc.Signed, Alg: alg, KeyIdx: 3, Secure: true, NSNames: []string{"ns1.ex.six.test."}, Addrs: []string{"192.0.2.30"}, SOAMin: 40,
			Records: []string{"ns1.ex.six.test. 3600 IN A 192.0.2.30", "www.ex.six.test. 120 IN A 93.184.216.60"}},
		{Name: "other.test.", Signed: sc.Signed, Alg: alg, KeyIdx: 4, Secure: true, NSNames: []string{"ns1.other.test."}, Addrs: []string{"192.0.2.40"}, SOAMin: 15,
			Records: []string{"ns1.other.test. 3600 IN A 192.0.2.40", "aonly.other.test. 50 IN A 93.184.216.70"}},
	}
	sp.Zones = append(sp.Zones, world.ZoneSpec{Name: "arpa.", NSNames: []string{"ns.arpa."}, Addrs: []string{"192.0.2.50"}, Signed: sc.Signed, Alg: alg, KeyIdx: 5, Secure: true,
		Records: []string{"ns.arpa. 3600 IN A 192.0.2.50", "34.216.184.93.in-addr.arpa. 300 IN PTR aonly.six.test.", "70.216.184.93.in-addr.arpa. 300 IN PTR aonly.other.test.",
			"50.216.184.93.in-addr.arpa. 300 IN PTR multi.six.test."}})
	sp.Cfg.DNSSECOff = !sc.Signed
	sp.Cfg.DNS64 = &config.DNS64Config{Enabled: true, Prefixes: sc.Prefixes, ClientNetworks: sc.ClientNets, ExcludeZones: sc.ExcludeZones}
	if sc.Budget > 0 {
		sp.Cfg.Firewall = "enforce"
		sp.Cfg.MaxOutbound = sc.Budget
	}
	sp.Cfg.QueryTimeoutS = 6
	return sp
}

// ---- independent RFC 6052 ----

var rfc6052Legal = map[int]bool{32: true, 40: true, 48: true, 56: true, 64: true, 96: true}

// embed6052 places the 32 bits of v4 after the prefix, skipping octet 8 (bits 64..71).
func embed6052(pfx netip.Prefix, v4 netip.Addr) netip.Addr {
	p := pfx.Masked().Addr().As16()
	a := v4.As4()
	pos := pfx.Bits() / 8
	for i := 0; i < 4; i++ {
		if pos == 8 {
			pos++ // reserved octet u
		}
		p[pos] = a[i]
		pos++
	}
	return netip.AddrFrom16(p)
}

func extract6052(pfx netip.Prefix, v6 netip.Addr) (netip.Addr, bool) {
	if !pfx.Contains(v6) {
		return netip.Addr{}, false
	}
	b := v6.As16()
	var a [4]byte
	pos := pfx.Bits() / 8
	for i := 0; i < 4; i++ {
		if pos == 8 {
			pos++
		}
		a[i] = b[pos]
		pos++
	}
	// reserved octet and suffix must be zero
	if pfx.Bits() < 96 && b[8] != 0 {
		return netip.Addr{}, false
	}
	for ; pos < 16; pos++ {
		if pos != 8 && b[pos] != 0 {
			return netip.Addr{}, false
		}
	}
	return netip.AddrFrom4(a), true
}

var c20WKPExcluded = []string{"0.0.0.0/8", "10.0.0.0/8", "100.64.0.0/10", "127.0.0.0/8", "169.254.0.0/16", "172.16.0.0/12", "192.0.0.0/24", "192.0.2.0/24", "192.88.99.0/24",
	"192.168.0.0/16", "198.18.0.0/15", "198.51.100.0/24", "203.0.113.0/24", "224.0.0.0/4", "240.0.0.0/4", "255.255.255.255/32"}

func c20ValidPrefixes(sc *C20Scenario) (out []netip.Prefix) {
	for _, s := range sc.Prefixes {
		p, err := netip.ParsePrefix(s)
		if err != nil || !rfc6052Legal[p.Bits()] || !p.Addr().Is6() {
			continue
		}
		// bits 64..71 of the prefix must be zero
		if p.Bits() > 64 && p.Addr().As16()[8] != 0 {
			continue
		}
		out = append(out, p.Masked())
	}
	if len(out) == 0 {
		out = []netip.Prefix{netip.MustParsePrefix("64:ff9b::/96")}
	}
	return
}

func runC20(sc *C20Scenario, tr *kit.Trace) *kit.Result {
	res := kit.NewResult()
	kit.Bubble(func() { execC20(sc, tr, res) })
	return res
}

func execC20(sc *C20Scenario, tr *kit.Trace, res *kit.Result) {
	w := world.NewRes(c20Spec(sc), sc.Seed, tr)
	defer w.Close()
	defer func() { res.SimTime = w.Now(); res.Steps = w.Net.SentCount() }()
	prefixes := c20ValidPrefixes(sc)
	hasWKP := false
	for _, p := range prefixes {
		if p == netip.MustParsePrefix("64:ff9b::/96") {
			hasWKP = true
		}
	}
	curOp := -1
	legFaultFired := map[string]int{}
	bogusFired := map[string]int{}
	lastLegFailure := map[string]time.Duration{} // name -> when its AAAA leg last met a failing authority
	lastCleanAAAA := map[string]time.Duration{}  // name -> when an AAAA query for it was last answered honestly
	w.Hook = func(addr netip.Addr, q *simnet.Query, honest *authsim.Answer) []simnet.Reply {
		if honest.Zone == nil || !strings.HasSuffix(honest.Zone.Name, "six.test.") && honest.Zone.Name != "other.test." {
			return nil
		}
		qt := q.Msg.Question[0].Qtype
		leg := ""
		switch qt {
		case dns.TypeAAAA:
			leg = "aaaa"
		case dns.TypeA:
			leg = "a"
		default:
			return nil
		}
		if strings.HasPrefix(dns.CanonicalName(q.Msg.Question[0].Name), "ns1.") {
			return nil
		}
		for _, f := range sc.Faults {
			if f.Leg != leg || curOp < f.FromOp || curOp >= f.ToOp {
				continue
			}
			if f.Kind == "bogus" {
				t, ok := authsim.Apply("sig-corrupt", honest, nil, nil)
				if !ok {
					continue // unsigned response: nothing to corrupt
				}
				legFaultFired[leg]++
				bogusFired[leg]++
				res.Fault("leg-" + leg + ":" + f.Kind)
				return world.PackReply(t, q)
			}
			legFaultFired[leg]++
			res.Fault("leg-" + leg + ":" + f.Kind)
			m := new(dns.Msg)
			m.SetReply(q.Msg)
			switch f.Kind {
			case "silent":
				return []simnet.Reply{}
			case "servfail":
				m.Rcode = dns.RcodeServerFailure
				return world.PackReply(m, q)
			case "refused":
				m.Rcode = dns.RcodeRefused
				return world.PackReply(m, q)
			case "bogus":
				if t, ok := authsim.Apply("sig-corrupt", honest, nil, nil); ok {
					return world.PackReply(t, q)
				}
			}
		}
		if leg == "aaaa" {
			lastCleanAAAA[dns.CanonicalName(q.Msg.Question[0].Name)] = w.Now()
		}
		return nil
	}
	kit.SleepSettle(5 * time.Second)
	synthBy := map[int]netip.Addr{} // op index -> first synthesised address
	synthV4 := map[netip.Addr]netip.Addr{}
	eligible := func(c netip.Addr) bool {
		if len(sc.ClientNets) == 0 {
			return true
		}
		for _, n := range sc.ClientNets {
			if netip.MustParsePrefix(n).Contains(c) {
				return true
			}
		}
		return false
	}
	excludedZone := func(name string) bool {
		for _, z := range sc.ExcludeZones {
			if dns.IsSubDomain(z, dns.CanonicalName(name)) {
				return true
			}
		}
		return false
	}
	for i, op := range sc.Ops {
		if res.Viol != nil {
			return
		}
		kit.SleepSettle(time.Duration(op.GapMs)*time.Millisecond + 50*time.Millisecond)
		curOp = i
		for k := range legFaultFired {
			delete(legFaultFired, k)
		}
		for k := range bogusFired {
			delete(bogusFired, k)
		}
		aaaaSentBefore := 0
		for _, sn := range w.Net.Canonical() {
			if sn.Qtype == dns.TypeAAAA {
				aaaaSentBefore++
			}
		}
		client := netip.MustParseAddr(op.Client)
		name := op.Name
		var ptrOf netip.Addr
		if op.Type == dns.TypePTR {
			a, ok := synthBy[op.PTROf-1]
			if !ok {
				continue
			}
			ptrOf = a
			rev, _ := dns.ReverseAddr(a.String())
			name = rev
		}
		q := new(dns.Msg)
		q.SetQuestion(c20Case(name, op.Upper), op.Type)
		q.RecursionDesired = !op.NoRD
		q.CheckingDisabled = op.CD
		q.AuthenticatedData = op.AD
		q.SetEdns0(1232, op.DO)
		c := w.Ask(netip.AddrPortFrom(client, 40000), "udp", q)
		kit.SleepSettle(7 * time.Second)
		if len(c.Replies) != 1 {
			res.Fail("C20/reply-count", "op %d: %d replies", i, len(c.Replies))
			return
		}
		m := c.Replies[0]
		ctx := fmt.Sprintf("op %d client %s %s/%s rd=%v cd=%v do=%v (prefixes %v): reply %s", i, op.Client, name, dns.TypeToString[op.Type], !op.NoRD, op.CD, op.DO, sc.Prefixes, dns.RcodeToString[m.Rcode])
		if op.Type == dns.TypePTR {
			v4 := synthV4[ptrOf]
			want, _ := dns.ReverseAddr(v4.String())
			found, wrong := false, ""
			for _, rr := range m.Answer {
				if cn, ok := rr.(*dns.CNAME); ok {
					if strings.EqualFold(cn.Target, want) {
						found = true
					} else if strings.HasSuffix(strings.ToLower(cn.Target), ".in-addr.arpa.") {
						wrong = cn.Target
					}
				}
				if strings.EqualFold(rr.Header().Name, want) {
					found = true
				}
			}
			tr.AddAt(w.Now(), "%s ptr-maps-back=%v", ctx, found)
			tr.Shape(fmt.Sprintf("ptr|%v", found))
			if wrong != "" {
				res.Fail("C20/ptr-not-reversible", "%s: the ip6.arpa name of synthesised %s maps to %s, its IPv4 address %s is %s", ctx, ptrOf, wrong, v4, want)
				return
			}
			// A reverse name that does not exist (NXDOMAIN without the alias shown) says
			// nothing wrong; a positive answer must go through the right in-addr.arpa name.
			if eligible(client) && !op.NoRD && !op.CD && !found && m.Rcode == dns.RcodeSuccess && len(m.Answer) > 0 {
				res.Fail("C20/ptr-not-reversible", "%s: the ip6.arpa name of synthesised %s does not map back to %s (%s): %v", ctx, ptrOf, v4, want, authsim.RRKeys(m.Answer))
				return
			}
			if found {
				res.Probes["ptr-mapped-back"]++
			}
			res.Probes["ptr-checked"]++
			continue
		}
		truth6 := w.World.Truth(op.Name, dns.TypeAAAA)
		truth4 := w.World.Truth(op.Name, dns.TypeA)
		var got []netip.Addr
		gotOwner := ""
		var gotTTL uint32
		for _, rr := range m.Answer {
			if a, ok := rr.(*dns.AAAA); ok {
				ad, _ := netip.AddrFromSlice(a.AAAA)
				got = append(got, ad)
				gotOwner = dns.CanonicalName(a.Hdr.Name)
				gotTTL = a.Hdr.Ttl
			}
		}
		sort.Slice(got, func(i, j int) bool { return got[i].Less(got[j]) })
		// native AAAA the zone publishes (excluded ::ffff:0:0/96 are filtered)
		var native, rawNative []netip.Addr
		for _, rr := range truth6.Answer {
			if a, ok := rr.(*dns.AAAA); ok {
				ad, _ := netip.AddrFromSlice(a.AAAA)
				rawNative = append(rawNative, ad)
				if !ad.Is4In6() {
					native = append(native, ad)
				}
			}
		}
		sort.Slice(native, func(i, j int) bool { return native[i].Less(native[j]) })
		sort.Slice(rawNative, func(i, j int) bool { return rawNative[i].Less(rawNative[j]) })
		applies := !op.NoRD && !op.CD && eligible(client) && !excludedZone(op.Name)
		// what synthesis would produce
		var expect []netip.Addr
		var minATTL uint32 = 1 << 31
		for _, rr := range truth4.Answer {
			if a, ok := rr.(*dns.A); ok {
				v4, _ := netip.AddrFromSlice(a.A)
				v4 = v4.Unmap()
				if a.Hdr.Ttl < minATTL {
					minATTL = a.Hdr.Ttl
				}
				for _, p := range prefixes {
					if p == netip.MustParsePrefix("64:ff9b::/96") {
						skip := false
						for _, ex := range c20WKPExcluded {
							if netip.MustParsePrefix(ex).Contains(v4) {
								skip = true
							}
						}
						if skip {
							continue
						}
					}
					e := embed6052(p, v4)
					expect = append(expect, e)
					synthV4[e] = v4
				}
			}
		}
		sort.Slice(expect, func(i, j int) bool { return expect[i].Less(expect[j]) })
		_ = hasWKP
		isNative := len(got) > 0 && (fmt.Sprint(got) == fmt.Sprint(native) || (!applies && fmt.Sprint(got) == fmt.Sprint(rawNative)))
		isSynth := len(got) > 0 && !isNative
		tr.AddAt(w.Now(), "%s aaaa=%v native=%v faults=%v", ctx, got, isNative, legFaultFired)
		tr.Shape(fmt.Sprintf("%s|%v|%v|%v", truth6.Kind, isSynth, len(legFaultFired) > 0, dns.RcodeToString[m.Rcode]))
		if m.Rcode == dns.RcodeServerFailure {
			if o := m.IsEdns0(); o != nil {
				n, codes := 0, ""
				for _, e := range o.Option {
					if x, ok := e.(*dns.EDNS0_EDE); ok {
						n++
						codes += fmt.Sprintf("-%d", x.InfoCode)
					}
				}
				res.Probes[fmt.Sprintf("servfail-with-%d-extended-errors", n)]++
				if n > 1 {
					res.Probes["servfail-extended-error-codes"+codes]++
				}
			}
		}
		if legFaultFired["aaaa"] > 0 && bogusFired["aaaa"] == 0 && m.Rcode == dns.RcodeServerFailure && !op.CD {
			lastLegFailure[dns.CanonicalName(op.Name)] = w.Now()
		}
		if !isSynth {
			if len(legFaultFired) > 0 && len(got) == 0 {
				res.Nontrivial = true
				res.Probes["synthesis-withheld-under-fault"]++
			}
			if applies && len(got) == 0 && len(rawNative) > 0 && len(native) == 0 && m.Rcode == dns.RcodeSuccess {
				// every AAAA the zone publishes was filtered away and nothing was synthesised in
				// their place: the empty answer is a filtered reply all the same
				res.Probes["all-aaaa-filtered-nothing-synthesised"]++
				if m.AuthenticatedData {
					res.Fail("C20/ad-on-filtered-aaaa", "%s: AD set on an empty answer left after every AAAA record of the name (%v) was filtered out", ctx, rawNative)
					return
				}
			}
			if isNative && m.AuthenticatedData && len(rawNative) != len(native) && fmt.Sprint(got) == fmt.Sprint(native) {
				res.Fail("C20/ad-on-filtered-aaaa", "%s: AD set although excluded AAAA records were filtered out of the answer", ctx)
				return
			}
			continue
		}
		res.Nontrivial = true
		res.Probes["synthesised"]++
		if _, ok := synthBy[i]; !ok {
			synthBy[i] = got[0]
		}
		// every AAAA in a synthesised reply is an RFC 6052 embedding of an A the zone holds
		if fmt.Sprint(got) != fmt.Sprint(expect) {
			res.Fail("C20/wrong-synthesis", "%s: AAAA %v, RFC 6052 embedding of the zone's A records %v into %v gives %v", ctx, got, authsim.RRKeys(truth4.Answer, dns.TypeRRSIG, dns.TypeCNAME), prefixes, expect)
			return
		}
		for _, g := range got {
			okAny := false
			for _, p := range prefixes {
				if v4, ok := extract6052(p, g); ok && synthV4[g] == v4 {
					okAny = true
				}
			}
			if !okAny {
				res.Fail("C20/not-reversible", "%s: %v does not extract back to its IPv4 address under any configured prefix", ctx, g)
				return
			}
		}
		if m.AuthenticatedData {
			res.Fail("C20/ad-on-synthesis", "%s: AD set on a synthesised answer", ctx)
			return
		}
		if op.NoRD || op.CD {
			res.Fail("C20/synthesis-for-rd0-or-cd", "%s: synthesis although RD=%v CD=%v", ctx, !op.NoRD, op.CD)
			return
		}
		if !eligible(client) {
			res.Fail("C20/synthesis-for-ineligible-client", "%s: the client is outside dns64 client_networks %v", ctx, sc.ClientNets)
			return
		}
		if excludedZone(op.Name) {
			res.Fail("C20/synthesis-in-excluded-zone", "%s: the name is in an excluded zone %v", ctx, sc.ExcludeZones)
			return
		}
		if len(native) > 0 {
			res.Fail("C20/synthesis-over-native-aaaa", "%s: the name has usable native AAAA %v", ctx, native)
			return
		}
		if truth6.Kind == "nxdomain" || truth4.Kind == "nxdomain" {
			res.Fail("C20/synthesis-over-nxdomain", "%s: the name does not exist", ctx)
			return
		}
		// RFC 6147 §5.1.2 lets a DNS64 treat failure rcodes other than NXDOMAIN as an empty
		// answer; what the property forbids is synthesis over a validation failure and over
		// a cached failure.
		if bogusFired["aaaa"] > 0 {
			res.Fail("C20/synthesis-over-failed-aaaa-leg", "%s: the AAAA lookup met a response that fails DNSSEC validation (%v), not a clean NODATA", ctx, legFaultFired)
			return
		}
		aaaaSent := 0
		for _, sn := range w.Net.Canonical() {
			if sn.Qtype == dns.TypeAAAA {
				aaaaSent++
			}
		}
		if lf, ok := lastLegFailure[dns.CanonicalName(op.Name)]; ok && aaaaSent == aaaaSentBefore && w.Now()-lf < 12*time.Second && truth6.Kind == "nodata" &&
			lastCleanAAAA[dns.CanonicalName(truth6.Final)] < lf-45*time.Second {
			res.Fail("C20/synthesis-over-cached-failure", "%s: no AAAA query went upstream; the AAAA leg was answered from the failure recorded %v ago", ctx, w.Now()-lf)
			return
		}
		if want := dns.CanonicalName(truth4.Final); gotOwner != want {
			res.Fail("C20/wrong-owner", "%s: synthesised AAAA owned by %s, the alias chain ends at %s", ctx, gotOwner, want)
			return
		}
		neg := uint32(0)
		if truth6.Zone != nil {
			neg = truth6.Zone.SOAMin
		}
		limit := minATTL
		if legFaultFired["aaaa"] > 0 {
			// the AAAA leg produced no negative answer, so there is no negative TTL to
			// inherit: RFC 6147 §5.1.7 then caps at 600 s
			if limit > 600 {
				limit = 600
			}
		} else if neg < limit {
			limit = neg
		}
		if limit < 5 {
			limit = 5 // cache floor applies to what the legs were cached with
		}
		if gotTTL > limit {
			res.Fail("C20/ttl-too-long", "%s: synthesised TTL %d exceeds min(A TTL %d, AAAA negative TTL %d)\n%s", ctx, gotTTL, minATTL, neg, m.String())
			return
		}
	}
}

func shrinkC20(sc0 any, fails func(any) bool) any {
	sc := sc0.(*C20Scenario)
	budget := 60
	c := *sc
	c.Faults = kit.DDMin(sc.Faults, &budget, func(o []C20Fault) bool { t := *sc; t.Faults = o; return fails(&t) })
	return &c
}
