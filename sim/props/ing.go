package props

import (
	"encoding/binary"
	"fmt"
	"net/netip"
	"runtime"
	"sort"
	"strings"
	"sync"
	"syscall"
	"time"

	"github.com/miekg/dns"
	"github.com/semihalev/sdns/server"

	"verifsim/authsim"
	"verifsim/kit"
	"verifsim/simnet"
	"verifsim/simsock"
	"verifsim/world"
)

// Shared engine of the W-ing properties (C10, C11): the real UDP listener, engine and
// batch I/O over the simulated kernel, the whole middleware chain and the resolver over
// the simulated network. Clients are datagrams; every query carries a per-operation token
// in the letter case of its name, so a reply is attributable to exactly one operation by
// (destination address and port, ID, question bytes).

type IngOp struct {
	AtMs   int    `json:"at"`               // arrival, ms after the start of the load phase
	Client int    `json:"c"`                // client index (address:port)
	Sock   int    `json:"s,omitempty"`      // socket the kernel's reuseport hash picked
	Kind   string `json:"k,omitempty"`      // "" query | short | response | notimp | formerr | badbody
	Name   int    `json:"n"`                // index into the name table
	Type   uint16 `json:"t,omitempty"`      // 0 = A
	ID     uint16 `json:"id"`               // small on purpose: clients share IDs
	EDNS   int    `json:"edns,omitempty"`   // 0 none, else advertised size
	DO     bool   `json:"do,omitempty"`
	Cookie bool   `json:"cookie,omitempty"`
}

// ingStallAddr is the only server of stallzone.test.
const ingStallAddr = "192.0.9.6"

// IngStall: the server of stallzone.test. answers nothing until UntilMs after the load starts,
// and properly from then on. A and B index two operations (aliases to one target there).
type IngStall struct {
	UntilMs int `json:"until_ms"`
	A       int `json:"a"`
	B       int `json:"b"`
}

type IngScenario struct {
	Stall *IngStall `json:"stall,omitempty"`
	Ing       world.IngSpec  `json:"ing"`
	Ops       []IngOp        `json:"ops"`
	Warm      []int          `json:"warm,omitempty"` // names asked (and cached) before the load
	TimeoutS  int            `json:"timeout_s,omitempty"`
	NetFaults []simnet.Fault `json:"net_faults,omitempty"`
	// kernel faults
	PartialSend int    `json:"partial_send,omitempty"`
	SendmmsgErr string `json:"sendmmsg_err,omitempty"` // enosys eperm
	RecvmmsgErr string `json:"recvmmsg_err,omitempty"` // enosys eperm (permanent: the reader falls back)
	RecvErrAtMs int    `json:"recv_err_at,omitempty"`  // the errno starts this many ms into the load (0 = before it)
	Poison      int    `json:"poison,omitempty"`       // client index+1 whose destination refuses sends
	Perturb     uint64 `json:"perturb,omitempty"`      // seed of extra yields at socket operations
	PackGap     bool   `json:"pack_gap,omitempty"`     // with Perturb: yields also right after the pooled packer released its state (C10)
	ClientRate  int    `json:"client_rate,omitempty"`
	MaxConcurrent int  `json:"max_concurrent,omitempty"` // resolver fan-out budget (per-zone quota = max(n/16, 16))
	// stream clients (the owned TCP listener is started when there is at least one)
	Conns []IngConn `json:"conns,omitempty"`
}

// IngConn is one TCP client: it dials, pipelines its frames, reads replies (possibly late,
// possibly through a small window) and closes.
type IngConn struct {
	Client      int        `json:"c"`
	AtMs        int        `json:"at"`
	Frames      []IngFrame `json:"frames"`
	Window      int        `json:"window,omitempty"`     // bytes the client lets pile up unread (0 = 64 KiB)
	ReadDelayMs int        `json:"read_delay,omitempty"` // the client starts reading this late
	CloseAtMs   int        `json:"close_at,omitempty"`   // after dialling; 0 = after everything
	Reset       bool       `json:"reset,omitempty"`      // tear down instead of closing
}

type IngFrame struct {
	AfterMs int   `json:"after"` // after the previous frame (or the dial)
	Op      IngOp `json:"op"`
	Split   int   `json:"split,omitempty"` // >0: written in two pieces, the first this many bytes long
}

// ingFrameRec is what happened to one frame.
type ingFrameRec struct {
	Conn, Seq int
	Idx       int // global token
	Op        IngOp
	Raw       []byte
	QName     string
	WellFormed bool
	SentAt    time.Duration
	Written   bool
}

type ingConnRec struct {
	Conn     IngConn
	Frames   []*ingFrameRec
	Replies  [][]byte        // whole frames received, in order
	ReplyAt  []time.Duration
	Partial  int             // bytes of an incomplete frame at EOF
	ReadErr  string
	ClosedAt time.Duration
}

// name table: index -> (zone family, host number)
const (
	ingHosts     = 24 // host0..host23.uniqzone.test. with unique A records
	ingNameSlow  = 24 // + k: slowK.slowzone.test. (answers after a delay)
	ingNameDead  = 28 // deadK.deadzone.test. (servers silent)
	ingNameGarb  = 32 // garbK.garbzone.test. (garbage / wrong question / truncation+reset)
	ingNameNX    = 36 // nxK.uniqzone.test.
	ingNameBig   = 40 // big.uniqzone.test. TXT (does not fit 512)
	ingNameHuge  = 41 // huge.uniqzone.test. TXT (larger than the stream path's 8 KiB staging buffer)
	ingNameLag   = 42 // bigslow.slowzone.test. TXT: truncated over UDP, fetched over TCP, both legs slow (about 2.4 s in all)
	ingNameCount = 43
	ingNameWild  = 1000 // + k: wK.slowzone.test., answered from a wildcard (distinct lookups in one slow zone)
	// sized TXT answers for frame-boundary arithmetic on stream transports: 2000 = sz.uniqzone.test.
	// (a 1998-byte reply to a query without OPT), 2001+k = pNNN.uniqzone.test. (reply of 158+k bytes)
	ingNameSized = 2000
	ingSizedN    = 80
)

// ingNameAlias + k: alK.uniqzone.test., a CNAME to t(k%2).stallzone.test. - different questions
// whose resolution meets in one upstream lookup
const ingNameAlias = 5000

func ingName(i int) string {
	if i >= ingNameAlias {
		return fmt.Sprintf("al%d.uniqzone.test.", (i-ingNameAlias)%4)
	}
	if i == ingNameSized {
		return "sz.uniqzone.test."
	}
	if i > ingNameSized {
		return fmt.Sprintf("p%03d.uniqzone.test.", (i-ingNameSized-1)%ingSizedN)
	}
	if i >= ingNameWild {
		return fmt.Sprintf("w%d.slowzone.test.", i-ingNameWild) // any number of distinct names in the slow zone
	}
	switch {
	case i < ingNameSlow:
		return fmt.Sprintf("host%d.uniqzone.test.", i)
	case i < ingNameDead:
		return fmt.Sprintf("slow%d.slowzone.test.", i-ingNameSlow)
	case i < ingNameGarb:
		return fmt.Sprintf("dead%d.deadzone.test.", i-ingNameDead)
	case i < ingNameNX:
		return fmt.Sprintf("garb%d.garbzone.test.", i-ingNameGarb)
	case i < ingNameBig:
		return fmt.Sprintf("nx%d.uniqzone.test.", i-ingNameNX)
	case i == ingNameBig:
		return "big.uniqzone.test."
	case i == ingNameLag:
		return "bigslow.slowzone.test."
	default:
		return "huge.uniqzone.test."
	}
}

func ingHostAddr(i int) string { return fmt.Sprintf("10.7.%d.%d", i/200, i%200+1) }

// ingCase writes token into the letter case of name (bit k = k-th letter upper case).
func ingCase(name string, token int) string {
	b := []byte(name)
	k := 0
	for i := range b {
		if b[i] >= 'a' && b[i] <= 'z' {
			if token>>uint(k)&1 == 1 {
				b[i] -= 32
			}
			k++
			if k >= 14 {
				break
			}
		}
	}
	return string(b)
}

func ingClientAddr(c int) netip.AddrPort {
	// clients 2k and 2k+1 share an address and differ in the port
	return netip.AddrPortFrom(netip.AddrFrom4([4]byte{10, 2, byte(c / 2), 1}), uint16(40000+c))
}

func ingSpecZones() []world.ZoneSpec {
	var recs []string
	for i := 0; i < ingHosts; i++ {
		recs = append(recs, fmt.Sprintf("host%d.uniqzone.test. 300 IN A %s", i, ingHostAddr(i)))
	}
	recs = append(recs, fmt.Sprintf("big.uniqzone.test. 300 IN TXT \"%s\" \"%s\" \"%s\" \"%s\"", strings.Repeat("a", 250), strings.Repeat("b", 250), strings.Repeat("c", 250), strings.Repeat("d", 250)))
	{
		var parts []string
		for i := 0; i < 44; i++ {
			parts = append(parts, fmt.Sprintf("\"%s\"", strings.Repeat(string(rune('a'+i%26)), 250)))
		}
		recs = append(recs, "huge.uniqzone.test. 300 IN TXT "+strings.Join(parts, " "))
	}
	txtOf := func(n int) string { // TXT rdata of exactly n octets
		var parts []string
		for n > 0 {
			k := n - 1
			if k > 255 {
				k = 255
			}
			parts = append(parts, "\""+strings.Repeat("s", k)+"\"")
			n -= k + 1
		}
		return strings.Join(parts, " ")
	}
	recs = append(recs, "sz.uniqzone.test. 300 IN TXT "+txtOf(1952))
	for k := 0; k < ingSizedN; k++ {
		recs = append(recs, fmt.Sprintf("p%03d.uniqzone.test. 300 IN TXT %s", k, txtOf(110+k)))
	}
	var slow, garb []string
	for i := 0; i < 4; i++ {
		slow = append(slow, fmt.Sprintf("slow%d.slowzone.test. 300 IN A 10.8.0.%d", i, i+1))
		if i == 0 {
			slow = append(slow, "*.slowzone.test. 300 IN A 10.8.1.1")
		}
		garb = append(garb, fmt.Sprintf("garb%d.garbzone.test. 300 IN A 10.9.0.%d", i, i+1))
	}
	slow = append(slow, "bigslow.slowzone.test. 300 IN TXT "+txtOf(1500))
	for k := 0; k < 4; k++ {
		recs = append(recs, fmt.Sprintf("al%d.uniqzone.test. 300 IN CNAME t%d.stallzone.test.", k, k%2))
	}
	return []world.ZoneSpec{
		{Name: "stallzone.test.", NSNames: []string{"ns.stallzone.test."}, Addrs: []string{ingStallAddr}, Records: []string{"t0.stallzone.test. 300 IN A 10.6.0.1", "t1.stallzone.test. 300 IN A 10.6.0.2"}},
		{Name: ".", NSNames: []string{"a.root-servers.net."}, Addrs: []string{"198.41.0.4"}},
		{Name: "test.", NSNames: []string{"ns.test."}, Addrs: []string{"192.0.9.1"}},
		{Name: "uniqzone.test.", NSNames: []string{"ns.uniqzone.test."}, Addrs: []string{"192.0.9.2"}, Records: recs},
		{Name: "slowzone.test.", NSNames: []string{"ns.slowzone.test."}, Addrs: []string{"192.0.9.3"}, Records: slow},
		{Name: "deadzone.test.", NSNames: []string{"ns.deadzone.test."}, Addrs: []string{"192.0.9.4"}},
		{Name: "garbzone.test.", NSNames: []string{"ns.garbzone.test."}, Addrs: []string{"192.0.9.5"}, Records: garb},
	}
}

// ingOpRec is what happened to one operation.
type ingOpRec struct {
	Op        IngOp
	Idx       int
	Raw       []byte
	QName     string // exact bytes (case) of the question name sent
	Queued    bool   // the kernel queued it (false = receive buffer overflow)
	SentAt    time.Duration
	Replies   []simsock.Sent
	WellFormed bool
}

type ingRun struct {
	sc       *IngScenario
	recs     []*ingOpRec
	conns    []*ingConnRec
	probes   []string // post-load probe results
	probeFail string
	idleShed  string
	stray    []simsock.Sent // datagrams attributable to no operation
	strayWhy []string
	g        *world.Ing
	counters map[string]int64 // deltas of the UDP ingress counters
	timeout  time.Duration
	loadEnd  time.Duration
	shutErr  error
	quiesced bool
	slabCap  int64
}

func errnoOf(s string) syscall.Errno {
	switch s {
	case "enosys":
		return syscall.ENOSYS
	case "eperm":
		return syscall.EPERM
	}
	return 0
}

func ingBuild(op IngOp, idx int) (raw []byte, qname string, wellFormed bool) {
	nidx := op.Name
	if nidx < ingNameWild {
		nidx %= ingNameCount
	}
	name := ingCase(ingName(nidx), idx)
	qt := op.Type
	if qt == 0 {
		qt = dns.TypeA
	}
	m := new(dns.Msg)
	m.SetQuestion(name, qt)
	m.Id = op.ID
	m.RecursionDesired = true
	if op.EDNS > 0 {
		m.SetEdns0(uint16(op.EDNS), op.DO)
		if op.Cookie {
			o := m.IsEdns0()
			o.Option = append(o.Option, &dns.EDNS0_COOKIE{Code: dns.EDNS0COOKIE, Cookie: fmt.Sprintf("%016x", uint64(idx)*0x9e3779b97f4a7c15|1)})
		}
	}
	b, err := m.Pack()
	if err != nil {
		panic(err)
	}
	switch op.Kind {
	case "short":
		return b[:7+idx%5], name, false
	case "response":
		b[2] |= 0x80
		return b, name, false
	case "notimp":
		b[2] = b[2]&^0x78 | 5<<3 // UPDATE
		return b, name, false
	case "formerr":
		binary.BigEndian.PutUint16(b[4:6], 2) // QDCOUNT 2 with one question
		return b, name, false
	case "badbody":
		return b[:len(b)-3], name, false // header fine, question cut
	}
	return b, name, true
}

// execIng runs the scenario and attributes every datagram the server sent.
func execIng(sc *IngScenario, tr *kit.Trace, res *kit.Result) *ingRun {
	x := &ingRun{sc: sc}
	to := sc.TimeoutS
	if to <= 0 {
		to = 6
	}
	x.timeout = time.Duration(to) * time.Second
	spec := &world.Spec{Zones: ingSpecZones(), Cfg: world.CfgSpec{DNSSECOff: true, QueryTimeoutS: to, TimeoutMs: 1500, ClientRate: sc.ClientRate, MaxConcurrent: sc.MaxConcurrent}}
	before := server.VerifUDPCounters()
	ingSpec := sc.Ing
	if len(sc.Conns) > 0 {
		ingSpec.TCP = true
	}
	g, err := world.NewIng(spec, ingSpec, 10, tr)
	if err != nil {
		res.Fail("ING/harness", "listener: %v", err)
		return nil
	}
	x.g = g
	defer g.Close()
	x.slabCap = server.VerifUDPSlabCap(g.L)
	// upstream behaviours
	faults := append([]simnet.Fault{
		{Kind: "delay", Suffix: "slowzone.test.", Addr: "192.0.9.3", Delay: 1200 * time.Millisecond},
		{Kind: "drop", Addr: "192.0.9.4"},
	}, sc.NetFaults...)
	if sc.Stall != nil {
		g.Net.SetFaults(append(append([]simnet.Fault(nil), faults...), simnet.Fault{Kind: "drop", Addr: ingStallAddr}))
	} else {
		g.Net.SetFaults(faults)
	}
	g.Hook = func(addr netip.Addr, q *simnet.Query, honest *authsim.Answer) []simnet.Reply {
		if addr.String() != "192.0.9.5" || q.Msg == nil || len(q.Msg.Question) == 0 {
			return nil
		}
		name := strings.ToLower(q.Msg.Question[0].Name)
		switch {
		case strings.HasPrefix(name, "garb0."):
			return []simnet.Reply{{Raw: []byte{0xde, 0xad, 0xbe, 0xef, 1, 2, 3}}} // garbage
		case strings.HasPrefix(name, "garb1."):
			// an answer to a different question
			m := honest.Msg.Copy()
			m.Question[0].Name = "other.garbzone.test."
			for _, rr := range m.Answer {
				rr.Header().Name = "other.garbzone.test."
			}
			return world.PackReply(m, q)
		case strings.HasPrefix(name, "garb2."):
			if q.Proto == "udp" {
				m := new(dns.Msg)
				m.SetReply(q.Msg)
				m.Truncated = true
				return world.PackReply(m, q)
			}
			return []simnet.Reply{} // TCP: nothing ever comes back
		}
		return nil
	}
	kit.SleepSettle(3 * time.Second)
	g.K.PartialSend = sc.PartialSend
	g.K.SendmmsgErr = errnoOf(sc.SendmmsgErr)
	g.K.RecvmmsgErr = errnoOf(sc.RecvmmsgErr)
	if sc.RecvErrAtMs > 0 {
		// recvmmsg worked for a while (slabs carry raw sockaddrs), then a filter denies it
		g.K.RecvmmsgErrFrom = g.Now() + time.Duration(len(sc.Warm))*400*time.Millisecond + 2*time.Second + time.Duration(sc.RecvErrAtMs)*time.Millisecond
	}
	if sc.Poison > 0 {
		g.K.PoisonDest[ingClientAddr(sc.Poison-1)] = true
	}
	if sc.Perturb != 0 {
		prng := kit.NewRNG(sc.Perturb)
		g.K.OnSend = func(simsock.Sent) {
			for i, n := 0, prng.Intn(3); i < n; i++ {
				runtime.Gosched()
			}
		}
	}
	// warm-up: names resolved and cached before the load (served inline afterwards)
	warmClient := netip.MustParseAddrPort("10.3.0.1:39999")
	for i, n := range sc.Warm {
		m := new(dns.Msg)
		if n >= ingNameSized {
			m.SetQuestion(ingName(n), dns.TypeTXT)
		} else {
			m.SetQuestion(ingName(n%ingNameCount), dns.TypeA)
		}
		m.Id = uint16(60000 + i)
		b, _ := m.Pack()
		g.Send(0, warmClient, b)
		kit.SleepSettle(400 * time.Millisecond)
	}
	kit.SleepSettle(2 * time.Second)
	warmOut := len(g.K.Out)
	loadStart := g.Now()
	// load
	ops := append([]IngOp(nil), sc.Ops...)
	order := make([]int, len(ops))
	for i := range order {
		order[i] = i
	}
	sort.SliceStable(order, func(a, b int) bool { return ops[order[a]].AtMs < ops[order[b]].AtMs })
	x.recs = make([]*ingOpRec, len(ops))
	// stream clients run as actors beside the datagram load
	var cmu sync.Mutex
	token := len(ops)
	for ci, cn := range sc.Conns {
		cr := &ingConnRec{Conn: cn}
		for fi, f := range cn.Frames {
			raw, qn, wf := ingBuild(f.Op, token)
			cr.Frames = append(cr.Frames, &ingFrameRec{Conn: ci, Seq: fi, Idx: token, Op: f.Op, Raw: raw, QName: qn, WellFormed: wf})
			token++
		}
		x.conns = append(x.conns, cr)
		go func(cr *ingConnRec) {
			time.Sleep(time.Duration(cr.Conn.AtMs) * time.Millisecond)
			dialAt := g.Now()
			c := g.DialTCP(ingClientAddr(cr.Conn.Client), cr.Conn.Window)
			go func() { // reader
				if cr.Conn.ReadDelayMs > 0 {
					time.Sleep(time.Duration(cr.Conn.ReadDelayMs) * time.Millisecond)
				}
				var buf []byte
				tmp := make([]byte, 4096)
				for {
					n, err := c.Read(tmp)
					cmu.Lock()
					buf = append(buf, tmp[:n]...)
					for len(buf) >= 2 {
						l := int(buf[0])<<8 | int(buf[1])
						if len(buf) < 2+l {
							break
						}
						cr.Replies = append(cr.Replies, append([]byte(nil), buf[2:2+l]...))
						cr.ReplyAt = append(cr.ReplyAt, g.Now())
						buf = buf[2+l:]
					}
					if err != nil {
						cr.Partial = len(buf)
						cr.ReadErr = err.Error()
						cmu.Unlock()
						return
					}
					cmu.Unlock()
				}
			}()
			for _, f := range cr.Frames {
				time.Sleep(time.Duration(cr.Conn.Frames[f.Seq].AfterMs) * time.Millisecond)
				if cr.Conn.CloseAtMs > 0 && g.Now()-dialAt >= time.Duration(cr.Conn.CloseAtMs)*time.Millisecond {
					break
				}
				frame := append([]byte{byte(len(f.Raw) >> 8), byte(len(f.Raw))}, f.Raw...)
				cmu.Lock()
				f.SentAt = g.Now()
				cmu.Unlock()
				_ = c.SetWriteDeadline(time.Now().Add(3 * time.Second))
				var werr error
				if sp := cr.Conn.Frames[f.Seq].Split; sp > 0 && sp < len(frame) {
					if _, werr = c.Write(frame[:sp]); werr == nil {
						time.Sleep(20 * time.Millisecond)
						_, werr = c.Write(frame[sp:])
					}
				} else {
					_, werr = c.Write(frame)
				}
				cmu.Lock()
				f.Written = werr == nil
				cmu.Unlock()
				if werr != nil {
					break
				}
			}
			if cr.Conn.CloseAtMs > 0 {
				if d := time.Duration(cr.Conn.CloseAtMs)*time.Millisecond - (g.Now() - dialAt); d > 0 {
					time.Sleep(d)
				}
			} else {
				time.Sleep(x.timeout + 4*time.Second)
			}
			if cr.Conn.Reset {
				c.Reset()
			} else {
				_ = c.Close()
			}
			cmu.Lock()
			cr.ClosedAt = g.Now()
			cmu.Unlock()
		}(cr)
	}
	if sc.Stall != nil {
		go func() {
			time.Sleep(time.Duration(sc.Stall.UntilMs) * time.Millisecond)
			g.Net.SetFaults(faults) // the stalled server is back
			tr.AddAt(g.Now(), "the server of stallzone.test. answers again")
		}()
	}
	for _, i := range order {
		op := ops[i]
		at := loadStart + time.Duration(op.AtMs)*time.Millisecond
		if d := at - g.Now(); d > 0 {
			time.Sleep(d) // no settle: a burst is queued while the engine runs
		}
		raw, qn, wf := ingBuild(op, i)
		rec := &ingOpRec{Op: op, Idx: i, Raw: raw, QName: qn, WellFormed: wf, SentAt: g.Now()}
		sock := op.Sock % len(g.K.Socks)
		rec.Queued = g.Send(sock, ingClientAddr(op.Client), raw)
		x.recs[i] = rec
	}
	x.loadEnd = g.Now()
	kit.SleepSettle(x.timeout + 6*time.Second)
	// let every stream client finish (dial + frames + its closing rule)
	for _, cn := range sc.Conns {
		end := time.Duration(cn.AtMs) * time.Millisecond
		for _, f := range cn.Frames {
			end += time.Duration(f.AfterMs+25) * time.Millisecond
		}
		if cn.CloseAtMs > 0 {
			end = time.Duration(cn.AtMs+cn.CloseAtMs) * time.Millisecond
		}
		end += x.timeout + 12*time.Second
		if d := loadStart + end - g.Now(); d > 0 {
			kit.SleepSettle(d)
		}
	}
	// attribute
	out := append([]simsock.Sent(nil), g.K.Out[warmOut:]...)
	for _, s := range out {
		if s.To == warmClient || s.To == netip.MustParseAddrPort("10.3.0.9:39998") {
			continue
		}
		why := x.attribute(s)
		if why != "" {
			x.stray = append(x.stray, s)
			x.strayWhy = append(x.strayWhy, why)
		}
	}
	// after the load: the zones that can answer must answer again (no leaked slots, nothing wedged).
	// Faults have stopped: the slow zone answers promptly now, so that a client with any
	// configured budget can be served; only the dead zone stays dead.
	g.Net.SetFaults([]simnet.Fault{{Kind: "drop", Addr: "192.0.9.4"}})
	probeClient := netip.MustParseAddrPort("10.3.0.9:39998")
	for pi, name := range []string{"host3.uniqzone.test.", "probe.slowzone.test."} {
		rc := -1
		for attempt := 0; attempt < 2 && rc == -1; attempt++ {
			m := new(dns.Msg)
			m.SetQuestion(name, dns.TypeA)
			m.Id = uint16(61000 + pi*2 + attempt)
			b, _ := m.Pack()
			before := len(g.K.Out)
			fullBefore := server.VerifUDPCounters()["drop_full"]
			g.Send(0, probeClient, b)
			kit.SleepSettle(x.timeout + 2*time.Second)
			for _, s := range g.K.Out[before:] {
				if s.To == probeClient && len(s.Data) > 3 && int(s.Data[0])<<8|int(s.Data[1]) == int(m.Id) {
					rc = int(s.Data[3] & 0xf)
				}
			}
			leased, inflight := server.VerifUDPState(g.L)
			shedNow := server.VerifUDPCounters()["drop_full"] - fullBefore
			tr.Add("probe %s attempt %d -> rcode %d (leased %d inflight %d, shed during the probe %d)", name, attempt, rc, leased, inflight, shedNow)
			if rc == -1 && attempt == 0 && shedNow > 0 && inflight == 0 {
				// the lone datagram was discarded as "ring full" by a reader that had parked in its
				// shedding read while the ring WAS full, long before this datagram arrived
				x.idleShed = fmt.Sprintf("%s: a lone query sent %v after the last load packet, with nothing in flight, was discarded by the ingress as overload (drop_full +%d)", name, g.Now()-x.loadEnd, shedNow)
			}
		}
		x.probes = append(x.probes, fmt.Sprintf("%s=%d", name, rc))
		if rc != dns.RcodeSuccess {
			x.probeFail = fmt.Sprintf("%s answered rcode %d", name, rc)
		}
	}
	x.shutErr = g.Shutdown()
	kit.Settle()
	x.quiesced = g.Srv.Quiesced()
	after := server.VerifUDPCounters()
	x.counters = map[string]int64{}
	for k, v := range after {
		x.counters[k] = v - before[k]
	}
	for _, rec := range x.recs {
		tr.Add("op %d t=%v c%d s%d %s %s id=%d queued=%v replies=%d%s", rec.Idx, rec.SentAt-loadStart, rec.Op.Client, rec.Op.Sock, rec.Op.Kind, rec.QName, rec.Op.ID, rec.Queued, len(rec.Replies), ingReplyTimes(rec, loadStart))
	}
	for ci, cr := range x.conns {
		tr.Add("conn %d c%d at=%dms frames=%d window=%d readdelay=%d closeat=%d reset=%v -> %d whole replies, %d stray bytes, closed at %v", ci, cr.Conn.Client, cr.Conn.AtMs, len(cr.Frames), cr.Conn.Window, cr.Conn.ReadDelayMs, cr.Conn.CloseAtMs, cr.Conn.Reset, len(cr.Replies), cr.Partial, cr.ClosedAt)
		for _, f := range cr.Frames {
			tr.Add("  frame %d.%d %s %s id=%d written=%v", ci, f.Seq, f.Op.Kind, f.QName, f.Op.ID, f.Written)
		}
		res.Probes["tcp:connections"]++
		res.Probes["tcp:replies"] += len(cr.Replies)
	}
	tr.Add("kernel batchrecv=%d single=%d batchsend=%d direct=%d maxbatch=%d kdrops=%d counters=%v slabcap=%d", g.K.BatchRecv, g.K.SingleRecv, g.K.BatchSends, g.K.DirectSends, g.K.MaxBatch, g.K.KernelDrops, ingCounterStr(x.counters), x.slabCap)
	res.SimTime = g.Now()
	for k, v := range x.counters {
		if v > 0 {
			res.Probes["udp:"+k] += int(v)
		}
	}
	res.Probes["kernel:batch-recv"] += g.K.BatchRecv
	res.Probes["kernel:batch-send"] += g.K.BatchSends
	res.Probes["kernel:direct-send"] += g.K.DirectSends
	if g.K.MaxBatch > 1 {
		res.Probes["kernel:multi-datagram-batch"]++
	}
	if g.K.KernelDrops > 0 {
		res.Fault("kernel:rcvbuf-overflow")
	}
	for _, f := range []struct {
		on   bool
		name string
	}{{sc.PartialSend > 0, "kernel:partial-sendmmsg"}, {sc.SendmmsgErr != "", "kernel:sendmmsg-" + sc.SendmmsgErr}, {sc.RecvmmsgErr != "", "kernel:recvmmsg-" + sc.RecvmmsgErr}, {sc.Poison > 0, "kernel:poisoned-destination"}, {sc.Ing.NoRawConn, "kernel:no-raw-descriptor"}} {
		if f.on {
			res.Fault(f.name)
		}
	}
	for k, v := range g.Net.Fired {
		res.Faults["net:"+k] += v
	}
	return x
}

func ingCounterStr(m map[string]int64) string {
	var ks []string
	for k, v := range m {
		if v != 0 {
			ks = append(ks, fmt.Sprintf("%s=%d", k, v))
		}
	}
	sort.Strings(ks)
	return strings.Join(ks, " ")
}

func ingReplyTimes(rec *ingOpRec, start time.Duration) string {
	s := ""
	for _, r := range rec.Replies {
		rc := -1
		if len(r.Data) >= 4 {
			rc = int(r.Data[3] & 0xf)
		}
		ede := ""
		m := new(dns.Msg)
		if m.Unpack(r.Data) == nil {
			if o := m.IsEdns0(); o != nil {
				for _, opt := range o.Option {
					if e, ok := opt.(*dns.EDNS0_EDE); ok {
						ede += fmt.Sprintf(" ede=%d:%q", e.InfoCode, e.ExtraText)
					}
				}
			}
		}
		if rc == dns.RcodeServerFailure {
			// which of two failure texts a SERVFAIL carries is decided by a same-instant race
			// (deadline vs last upstream timeout): kept out of the hashed trace
			_ = ede
			s += fmt.Sprintf(" [+%v SERVFAIL batch=%v]", r.At-(rec.SentAt), r.Batch)
			continue
		}
		s += fmt.Sprintf(" [+%v rcode=%d %dB batch=%v%s]", r.At-(rec.SentAt), rc, len(r.Data), r.Batch, ede)
	}
	return s
}

// attribute assigns a sent datagram to the operation it answers; a non-empty return says
// why it answers none.
func (x *ingRun) attribute(s simsock.Sent) string {
	if len(s.Data) < 12 {
		return fmt.Sprintf("a %d-byte datagram", len(s.Data))
	}
	id := binary.BigEndian.Uint16(s.Data[0:2])
	if s.Data[2]&0x80 == 0 {
		return "QR clear"
	}
	qd := binary.BigEndian.Uint16(s.Data[4:6])
	var qname string
	if qd >= 1 {
		off := 12
		var labels []string
		for off < len(s.Data) {
			l := int(s.Data[off])
			if l == 0 {
				off++
				break
			}
			if l&0xc0 != 0 || off+1+l > len(s.Data) {
				return "question name does not parse"
			}
			labels = append(labels, string(s.Data[off+1:off+1+l]))
			off += 1 + l
		}
		qname = strings.Join(labels, ".") + "."
	}
	// candidates: operations of the destination client with this ID (and question)
	var best *ingOpRec
	for _, rec := range x.recs {
		if rec == nil || !rec.Queued || ingClientAddr(rec.Op.Client) != s.To || rec.Op.ID != id {
			continue
		}
		if rec.SentAt > s.At {
			continue // a reply cannot precede its query
		}
		if rec.Op.Kind == "short" {
			continue // no header to answer: a reply can only belong to another operation
		}
		if qd >= 1 && qname != rec.QName {
			continue
		}
		if qd == 0 && rec.WellFormed {
			continue // a bare-header reply answers only a rejected packet
		}
		// preference: a well-formed query, then a packet that is rejected with a reply
		// (NOTIMP/FORMERR), last a packet that must be ignored; fewer replies first
		rank := func(r *ingOpRec) int {
			switch {
			case r.WellFormed:
				return 0
			case r.Op.Kind == "response":
				return 2
			}
			return 1
		}
		if best == nil || rank(rec) < rank(best) || (rank(rec) == rank(best) && len(rec.Replies) < len(best.Replies)) {
			best = rec
		}
	}
	if best == nil {
		return fmt.Sprintf("no query from %v has ID %d and question %q", s.To, id, qname)
	}
	best.Replies = append(best.Replies, s)
	return ""
}

// ingMsgEnd walks a DNS message and returns the offset just past its last record
// (-1 = does not parse).
func ingMsgEnd(b []byte) int {
	if len(b) < 12 {
		return -1
	}
	skipName := func(off int) int {
		for off < len(b) {
			l := int(b[off])
			switch {
			case l == 0:
				return off + 1
			case l&0xc0 == 0xc0:
				if off+2 > len(b) {
					return -1
				}
				return off + 2
			case l&0xc0 != 0:
				return -1
			default:
				off += 1 + l
			}
		}
		return -1
	}
	off := 12
	qd := int(binary.BigEndian.Uint16(b[4:6]))
	rrs := int(binary.BigEndian.Uint16(b[6:8])) + int(binary.BigEndian.Uint16(b[8:10])) + int(binary.BigEndian.Uint16(b[10:12]))
	for i := 0; i < qd; i++ {
		off = skipName(off)
		if off < 0 || off+4 > len(b) {
			return -1
		}
		off += 4
	}
	for i := 0; i < rrs; i++ {
		off = skipName(off)
		if off < 0 || off+10 > len(b) {
			return -1
		}
		rdl := int(binary.BigEndian.Uint16(b[off+8 : off+10]))
		off += 10 + rdl
		if off > len(b) {
			return -1
		}
	}
	return off
}

// ---------------------------------------------------------------- generator

func genIng(r *kit.RNG, flavour string) *IngScenario {
	sc := &IngScenario{}
	sc.Ing = world.IngSpec{Workers: r.Range(1, 4), Queue: r.Range(1, 8), Sockets: r.Range(1, 2), Spare: int64(r.Intn(9)), NoRawConn: r.Chance(0.2)}
	if r.Chance(0.15) {
		sc.Ing.RcvBuf = r.Range(4, 24)
	}
	sc.TimeoutS = kit.Pick(r, []int{4, 6, 8})
	for i, n := 0, r.Intn(8); i < n; i++ {
		sc.Warm = append(sc.Warm, r.Intn(ingHosts))
	}
	nclients := r.Range(2, 8)
	nops := r.Range(4, 40)
	at := 0
	var pool []int // names this scenario concentrates on
	for i, n := 0, r.Range(2, 6); i < n; i++ {
		switch {
		case flavour == "c11" && r.Chance(0.5):
			pool = append(pool, ingNameSlow+r.Intn(12)) // slow, dead, garbage
		case r.Chance(0.15):
			pool = append(pool, ingNameNX+r.Intn(5))
		default:
			if len(sc.Warm) > 0 && r.Chance(0.6) {
				pool = append(pool, kit.Pick(r, sc.Warm))
			} else {
				pool = append(pool, r.Intn(ingHosts))
			}
		}
	}
	burst := kit.Pick(r, []float64{0.3, 0.7, 0.95})
	for i := 0; i < nops; i++ {
		if i > 0 && !r.Chance(burst) {
			at += kit.Pick(r, []int{1, 1, 3, 10, 50, 300, 1500})
		}
		op := IngOp{AtMs: at, Client: r.Intn(nclients), Sock: r.Intn(2), Name: kit.Pick(r, pool), ID: uint16(r.Range(1, 3))}
		if r.Chance(0.5) {
			op.EDNS = kit.Pick(r, []int{512, 1232, 4096})
			op.DO = r.Chance(0.3)
			op.Cookie = r.Chance(0.2)
		}
		if r.Chance(0.06) {
			op.Name = ingNameBig
			op.Type = dns.TypeTXT
		}
		if r.Chance(0.1) {
			op.Kind = kit.Pick(r, []string{"short", "response", "notimp", "formerr", "badbody"})
		}
		sc.Ops = append(sc.Ops, op)
	}
	if flavour != "c11" && r.Chance(0.15) {
		// cached-failure recipe: a name in the dead zone fails (query timeout or all servers
		// failed, whichever comes first); while the failure is remembered the name is asked
		// again, each time right behind answered questions of other clients, so that the failure
		// reply is built in a buffer that has just carried somebody else's records
		dead := ingNameDead + r.Intn(4)
		t0 := r.Intn(at + 1)
		sc.Ops = append(sc.Ops, IngOp{AtMs: t0, Client: r.Intn(nclients), Sock: r.Intn(2), Name: dead, ID: uint16(r.Range(1, 3))})
		for _, off := range []int{300, 900, 1800, 2600, 3500} {
			tt := t0 + sc.TimeoutS*1000 + off
			for k, n := 0, r.Range(1, 3); k < n; k++ {
				h := r.Intn(ingHosts)
				sc.Warm = append(sc.Warm, h)
				sc.Ops = append(sc.Ops, IngOp{AtMs: tt, Client: r.Intn(nclients), Sock: r.Intn(2), Name: h, ID: uint16(r.Range(1, 3)), EDNS: kit.Pick(r, []int{0, 1232})})
			}
			op := IngOp{AtMs: tt + r.Intn(2), Client: r.Intn(nclients), Sock: r.Intn(2), Name: dead, ID: uint16(r.Range(1, 3))}
			if r.Chance(0.6) {
				op.EDNS = kit.Pick(r, []int{512, 1232})
			}
			sc.Ops = append(sc.Ops, op)
		}
		if at < t0+sc.TimeoutS*1000+3600 {
			at = t0 + sc.TimeoutS*1000 + 3600
		}
	}
	if flavour == "c11" && r.Chance(0.1) {
		// stalled-server recipe: two clients ask different aliases of one name whose zone's only
		// server is silent; their resolutions meet in one upstream lookup, led by the first. The
		// first client's time runs out while that lookup is still waiting for its first reply
		// (the query budget, 1 s, is shorter than one upstream attempt, 1.5 s, so nothing but
		// the client's own deadline ends it); the second client arrived later, after the
		// server had come back, and has time left. The first client's expiry is its own affair.
		// (A variant with a 4 s budget only adds reach: there the shared lookup can also end with
		// every attempt failed, which is a failure for both clients.)
		sc.TimeoutS = kit.Pick(r, []int{1, 1, 1, 4})
		sc.Ing.Workers, sc.Ing.Queue, sc.Ing.RcvBuf = r.Range(6, 10), 16, 0
		sc.MaxConcurrent = 0
		t0 := r.Intn(at + 1)
		k := r.Intn(2)
		a := IngOp{AtMs: t0, Client: 0, Sock: r.Intn(2), Name: ingNameAlias + k, ID: uint16(r.Range(1, 3)), EDNS: 1232}
		// (the server is back before the second client asks: alone, it would be answered at once)
		heal := t0 + r.Range(200, 500)
		b := IngOp{AtMs: heal + r.Range(40, 350), Client: 1, Sock: r.Intn(2), Name: ingNameAlias + k + 2, ID: uint16(r.Range(1, 3)), EDNS: 1232}
		sc.Stall = &IngStall{UntilMs: heal, A: len(sc.Ops), B: len(sc.Ops) + 1}
		if sc.TimeoutS > 1 {
			b.AtMs = t0 + sc.TimeoutS*1000 - r.Range(600, 1600)
			sc.Stall.UntilMs = t0 + sc.TimeoutS*1000 - r.Range(40, 300)
		}
		sc.Ops = append(sc.Ops, a, b)
		if at < b.AtMs {
			at = b.AtMs
		}
	}
	if flavour == "c11" && r.Chance(0.3) {
		// many distinct lookups in one slow zone at once: past the per-zone in-flight quota
		nb := r.Range(18, 48)
		bat := r.Intn(at + 1)
		sc.MaxConcurrent = kit.Pick(r, []int{64, 256, 0})
		for i := 0; i < nb; i++ {
			sc.Ops = append(sc.Ops, IngOp{AtMs: bat + r.Intn(3), Client: r.Intn(nclients), Sock: r.Intn(2), Name: ingNameWild + r.Intn(200), ID: uint16(r.Range(1, 3))})
		}
	}
	if flavour == "c11" && r.Chance(0.12) {
		// impatient clients: the query budget (1 s) is shorter than the slow zone's answer time,
		// so several distinct lookups in a row run out of time while their exchange with the
		// zone's only server is in flight; the pool is wide enough for them to overlap
		sc.TimeoutS = 1
		sc.Ing.Workers, sc.Ing.Queue = r.Range(6, 12), 16
		bat := r.Intn(at + 1)
		base := r.Intn(150)
		for i, nb := 0, r.Range(5, 12); i < nb; i++ {
			sc.Ops = append(sc.Ops, IngOp{AtMs: bat + r.Intn(40), Client: r.Intn(nclients), Sock: r.Intn(2), Name: ingNameWild + base + i, ID: uint16(r.Range(1, 3))})
		}
	}
	switch r.Intn(8) {
	case 0:
		sc.PartialSend = r.Range(1, 3)
	case 1:
		sc.SendmmsgErr = kit.Pick(r, []string{"enosys", "eperm"})
	case 2:
		sc.RecvmmsgErr = kit.Pick(r, []string{"enosys", "eperm"})
		if r.Chance(0.6) && at > 0 {
			sc.RecvErrAtMs = 1 + r.Intn(at)
		}
	case 3:
		sc.Poison = r.Range(1, nclients)
	}
	if r.Chance(0.5) {
		sc.Perturb = r.Uint64() | 1
		sc.PackGap = flavour == "c10" && r.Chance(0.7)
	}
	// stream clients
	if r.Chance(0.55) {
		for ci, nc := 0, r.Range(1, 3); ci < nc; ci++ {
			cn := IngConn{Client: r.Intn(nclients), AtMs: r.Intn(at + 500)}
			nf := r.Range(1, 7)
			pipelined := r.Chance(0.7)
			for fi := 0; fi < nf; fi++ {
				f := IngFrame{Op: IngOp{Client: cn.Client, Name: kit.Pick(r, pool), ID: uint16(r.Range(1, 3))}}
				if !pipelined {
					f.AfterMs = kit.Pick(r, []int{1, 30, 400, 2500})
				} else if fi == 0 {
					f.AfterMs = r.Intn(50)
				}
				if r.Chance(0.5) {
					f.Op.EDNS = kit.Pick(r, []int{512, 1232, 4096})
					f.Op.DO = r.Chance(0.3)
				}
				if r.Chance(0.2) {
					f.Op.Name, f.Op.Type = kit.Pick(r, []int{ingNameBig, ingNameHuge, ingNameHuge}), dns.TypeTXT
					if flavour == "c11" && r.Chance(0.5) {
						f.Op.Name = ingNameLag // resolves in more than the stream's per-query wait, well inside the query timeout
					}
					f.Op.EDNS = 4096
				}
				if r.Chance(0.06) {
					f.Op.Kind = kit.Pick(r, []string{"response", "notimp", "formerr", "badbody"})
				}
				if r.Chance(0.25) {
					f.Split = r.Range(1, 20)
				}
				cn.Frames = append(cn.Frames, f)
			}
			switch r.Intn(8) {
			case 0:
				cn.Window = kit.Pick(r, []int{64, 512, 2048})
			case 1:
				cn.ReadDelayMs = kit.Pick(r, []int{500, 3000})
			case 2:
				cn.CloseAtMs = r.Range(1, 3000)
			case 3:
				cn.CloseAtMs, cn.Reset = r.Range(1, 3000), true
			}
			sc.Conns = append(sc.Conns, cn)
		}
	}
	if r.Chance(0.12) {
		// frame-boundary arithmetic: four cached 1998-byte replies staged on one connection fill
		// the stream's 8 KiB drain buffer to 8000 bytes; the fifth reply's size sweeps across
		// what is left (with and without its two-octet length prefix), a sixth follows it.
		// Every reply must arrive whole, framed by its own length.
		sc.Warm = append(sc.Warm, ingNameSized)
		for i, n := 0, r.Range(3, 5); i < n; i++ {
			k := r.Range(24, 44)
			sc.Warm = append(sc.Warm, ingNameSized+1+k)
			cn := IngConn{Client: r.Intn(nclients), AtMs: r.Intn(at + 500)}
			for fi := 0; fi < 4; fi++ {
				cn.Frames = append(cn.Frames, IngFrame{Op: IngOp{Client: cn.Client, Name: ingNameSized, Type: dns.TypeTXT, ID: uint16(r.Range(1, 3))}})
			}
			cn.Frames = append(cn.Frames, IngFrame{Op: IngOp{Client: cn.Client, Name: ingNameSized + 1 + k, Type: dns.TypeTXT, ID: uint16(r.Range(1, 3))}},
				IngFrame{Op: IngOp{Client: cn.Client, Name: r.Intn(ingHosts), ID: uint16(r.Range(1, 3))}})
			sc.Conns = append(sc.Conns, cn)
		}
	}
	return sc
}

func shrinkIng(sc any, fails func(any) bool) any {
	cur := sc.(*IngScenario)
	budget := 120
	cur.Ops = kit.DDMin(cur.Ops, &budget, func(xs []IngOp) bool { c := *cur; c.Ops = xs; return (len(xs) > 0 || len(c.Conns) > 0) && fails(&c) })
	cur.Conns = kit.DDMin(cur.Conns, &budget, func(xs []IngConn) bool { c := *cur; c.Conns = xs; return fails(&c) })
	for ci := range cur.Conns {
		ci := ci
		fr := kit.DDMin(cur.Conns[ci].Frames, &budget, func(xs []IngFrame) bool {
			c := *cur
			c.Conns = append([]IngConn(nil), cur.Conns...)
			c.Conns[ci].Frames = xs
			return len(xs) > 0 && fails(&c)
		})
		cur.Conns = append([]IngConn(nil), cur.Conns...)
		cur.Conns[ci].Frames = fr
	}
	cur.Warm = kit.DDMin(cur.Warm, &budget, func(xs []int) bool { c := *cur; c.Warm = xs; return fails(&c) })
	for _, f := range []func(c *IngScenario){
		func(c *IngScenario) { c.Perturb = 0; c.PackGap = false },
		func(c *IngScenario) { c.PackGap = false },
		func(c *IngScenario) { c.PartialSend = 0 },
		func(c *IngScenario) { c.SendmmsgErr = "" },
		func(c *IngScenario) { c.RecvmmsgErr = ""; c.RecvErrAtMs = 0 },
		func(c *IngScenario) { c.Poison = 0 },
		func(c *IngScenario) { c.Ing.RcvBuf = 0 },
		func(c *IngScenario) { c.Ing.NoRawConn = false },
		func(c *IngScenario) { c.Ing.Sockets = 1 },
	} {
		c := *cur
		f(&c)
		if fails(&c) {
			cur = &c
		}
	}
	return cur
}

// ingWarmup touches every upstream behaviour and both I/O paths once, so that whatever
// sdns initialises lazily per process (pools, TCP dialling, background flushers) is
// initialised before the first scenario that counts.
func ingWarmup() any {
	sc := &IngScenario{Ing: world.IngSpec{Workers: 2, Queue: 2, Sockets: 2, Spare: 2}, TimeoutS: 4, Warm: []int{0, 1}}
	names := []int{0, 1, 2, ingNameSlow, ingNameDead, ingNameGarb, ingNameGarb + 1, ingNameGarb + 2, ingNameGarb + 3, ingNameNX, ingNameBig}
	for i, n := range names {
		op := IngOp{AtMs: i * 40, Client: i % 3, Sock: i % 2, Name: n, ID: uint16(1 + i%3), EDNS: []int{0, 512, 1232}[i%3]}
		if n == ingNameBig {
			op.Type = dns.TypeTXT
		}
		sc.Ops = append(sc.Ops, op)
	}
	for i, k := range []string{"short", "response", "notimp", "formerr", "badbody"} {
		sc.Ops = append(sc.Ops, IngOp{AtMs: 600 + i, Client: i % 3, Name: i, ID: 2, Kind: k})
	}
	return sc
}
