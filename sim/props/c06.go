package props

import (
	"encoding/binary"
	"fmt"
	"net"
	"net/netip"
	"time"

	"github.com/miekg/dns"

	"verifsim/authsim"
	"verifsim/kit"
	"verifsim/simnet"
	"verifsim/simsock"
	"verifsim/world"
)

// C06 — every reply respects what the client sent and negotiated (DESIGN.md §3 C06).
//
// The C05 packet generator drives the real UDP transport (wire path, inline and replay)
// and, for the same packets, Server.ServeMsg with a UDP-like and a TCP-like transport;
// every reply is judged against its own query by the property's rules alone.

type C06Scenario struct {
	C05Scenario
	Mangle map[int]string `json:"mangle,omitempty"` // op index -> response | response-op | notimp | qd2 | qd0 | an2 | badbody | short
	// UpOpts: EDNS options every authoritative server adds to the OPT of its responses
	// (keepalive | cookie | padding | unknown | ecs): what an upstream volunteers is not
	// something the client negotiated.
	UpOpts []string `json:"up_opts,omitempty"`
}

// c06UpstreamKeepalive is the idle timeout the simulated upstreams advertise; the server's own
// advertisement to its stream clients is some other value.
const c06UpstreamKeepalive = 54321

// c06Upstream decorates the honest authoritative responses with the scenario's options.
func c06Upstream(sc *C06Scenario, res *kit.Result) func(addr netip.Addr, q *simnet.Query, honest *authsim.Answer) []simnet.Reply {
	if len(sc.UpOpts) == 0 {
		return nil
	}
	return func(addr netip.Addr, q *simnet.Query, honest *authsim.Answer) []simnet.Reply {
		o := honest.Msg.IsEdns0()
		if o == nil {
			return nil
		}
		for _, k := range sc.UpOpts {
			switch k {
			case "keepalive":
				o.Option = append(o.Option, &dns.EDNS0_TCP_KEEPALIVE{Code: dns.EDNS0TCPKEEPALIVE, Timeout: c06UpstreamKeepalive})
			case "cookie":
				o.Option = append(o.Option, &dns.EDNS0_COOKIE{Code: dns.EDNS0COOKIE, Cookie: "a1a2a3a4a5a6a7a8b1b2b3b4b5b6b7b8"})
			case "padding":
				o.Option = append(o.Option, &dns.EDNS0_PADDING{Padding: make([]byte, 11)})
			case "unknown":
				o.Option = append(o.Option, &dns.EDNS0_LOCAL{Code: 65002, Data: []byte{0xbe, 0xef}})
			case "ecs":
				o.Option = append(o.Option, &dns.EDNS0_SUBNET{Code: dns.EDNS0SUBNET, Family: 1, SourceNetmask: 24, SourceScope: 24, Address: net.IPv4(203, 0, 113, 0)})
			}
		}
		res.Probes["upstream-volunteered-options"]++
		return world.PackReply(honest.Msg, q)
	}
}

func init() {
	kit.Register(&kit.Prop{
		ID:    "C06",
		Level: "exploration",
		Rule: "Scenario = the C05 scenario (configuration + packet sequence with generated header bits and EDNS) + per-packet mangling (QR set, " +
			"non-query opcode, QDCOUNT 0/2, ANCOUNT 2, truncated body, truncated header). Each packet is sent through the UDP engine and, when it " +
			"decodes, through Server.ServeMsg over a UDP-like and a TCP-like transport. Non-trivial = a reply carried DNSSEC records or an OPT, " +
			"was truncated, or a packet was rejected. Distinct = hash of per-operation (mangling, EDNS shape, rcode, TC, has-OPT, has-sigs).",
		Assumptions: []string{
			"type NSEC/NSEC3 are not asked explicitly (the rule about denial records would need an exception the property does not state)",
			"the owned UDP and TCP listeners are simulated (header-level rejection is checked on both); TLS, DoH and DoQ are not, and 'ID 0 over DoQ' is not checked",
		},
		Components: kit.Components{
			Real: []string{"server UDP engine (acceptHeader, rejectInPlace, ServeRaw/Inline/Replay)", "server TCP engine (frames, rejectInPlace)", "Server.ServeMsg", "whole chain (edns, cache, resolver, DNSSEC)"},
			Stub: []string{"kernel sockets/syscalls (simsock)", "upstream network and authoritative servers (simnet/authsim)", "TLS/DoH/DoQ listeners"},
		},
		Gen:      func(r *kit.RNG, tier string) any { return genC06(r) },
		Blank:    func() any { return &C06Scenario{} },
		Run:      func(sc any, tr *kit.Trace) *kit.Result { return runC06(sc.(*C06Scenario), tr) },
		Shrink:   shrinkC06,
		Warmup:   true,
		PerChunk: 8,
		Quick:    1600,
		Thorough: 120000,
	})
}

func genC06(r *kit.RNG) *C06Scenario {
	sc := &C06Scenario{C05Scenario: *genC05(r), Mangle: map[int]string{}}
	for i := range sc.Ops {
		if sc.Ops[i].Type == dns.TypeNSEC || sc.Ops[i].Type == dns.TypeNSEC3 {
			sc.Ops[i].Type = dns.TypeA
		}
		if r.Chance(0.12) {
			sc.Mangle[i] = kit.Pick(r, []string{"response", "notimp", "qd2", "qd0", "an2", "badbody", "short", "response-op"})
		}
	}
	if r.Chance(0.35) {
		sc.UpOpts = []string{kit.Pick(r, []string{"keepalive", "keepalive", "keepalive", "cookie", "padding", "unknown", "ecs"})}
		if r.Chance(0.3) {
			if k := kit.Pick(r, []string{"keepalive", "cookie", "padding", "unknown"}); k != sc.UpOpts[0] {
				sc.UpOpts = append(sc.UpOpts, k)
			}
		}
	}
	return sc
}

func c06Packet(sc *C06Scenario, i int) []byte {
	b := c05Packet(sc.Ops[i], i)
	switch sc.Mangle[i] {
	case "response":
		b[2] |= 0x80
	case "notimp":
		b[2] = b[2]&^0x78 | 5<<3
	case "response-op": // a response of another opcode (an UPDATE or STATUS acknowledgement): still a response
		b[2] = b[2]&^0x78 | byte([]int{5, 2}[i%2])<<3 | 0x80
	case "qd2":
		binary.BigEndian.PutUint16(b[4:6], 2)
	case "qd0":
		binary.BigEndian.PutUint16(b[4:6], 0)
	case "an2":
		binary.BigEndian.PutUint16(b[6:8], 2)
	case "badbody":
		if len(b) > 16 {
			b = b[:15]
		}
	case "short":
		b = b[:9]
	}
	return b
}

// c06Judge checks one reply against its query. q may be nil when the query does not decode.
func c06Judge(raw []byte, qraw []byte, mangle string, proto string) (string, string) {
	if len(qraw) < 12 {
		return "C06/reply-to-unparsable-header", fmt.Sprintf("a %d-byte packet has no header to answer, yet %d bytes came back", len(qraw), len(raw))
	}
	if len(raw) < 12 {
		return "C06/malformed-reply", fmt.Sprintf("a %d-byte reply", len(raw))
	}
	qid, rid := binary.BigEndian.Uint16(qraw[0:2]), binary.BigEndian.Uint16(raw[0:2])
	qop, rop := qraw[2]>>3&0xf, raw[2]>>3&0xf
	if qraw[2]&0x80 != 0 {
		return "C06/response-answered", "the packet had QR set and must never be answered"
	}
	if raw[2]&0x80 == 0 {
		return "C06/qr-clear", "the reply has QR clear"
	}
	if qid != rid {
		return "C06/id-not-echoed", fmt.Sprintf("query ID %d, reply ID %d", qid, rid)
	}
	if qop != rop {
		return "C06/opcode-not-echoed", fmt.Sprintf("query opcode %d, reply opcode %d", qop, rop)
	}
	rcode := int(raw[3] & 0xf)
	m := new(dns.Msg)
	if err := m.Unpack(raw); err != nil {
		return "C06/malformed-reply", err.Error()
	}
	if o := m.IsEdns0(); o != nil {
		rcode |= int(o.ExtendedRcode()) &^ 0xf
		rcode = int(raw[3]&0xf) | int(o.Hdr.Ttl>>24)<<4
	}
	switch mangle {
	case "notimp":
		if rcode != dns.RcodeNotImplemented {
			return "C06/wrong-rejection", fmt.Sprintf("a non-query opcode must get NOTIMP, got %s", dns.RcodeToString[rcode])
		}
		return "", ""
	case "qd2", "qd0", "an2", "badbody":
		if rcode != dns.RcodeFormatError {
			return "C06/wrong-rejection", fmt.Sprintf("a packet with %s must get FORMERR, got %s", mangle, dns.RcodeToString[rcode])
		}
		return "", ""
	}
	q := new(dns.Msg)
	if err := q.Unpack(qraw); err != nil {
		if rcode != dns.RcodeFormatError {
			return "C06/wrong-rejection", fmt.Sprintf("an undecodable packet (%v) must get FORMERR, got %s", err, dns.RcodeToString[rcode])
		}
		return "", ""
	}
	bare := len(m.Question) == 0 && (rcode == dns.RcodeFormatError || rcode == dns.RcodeNotImplemented)
	if !bare {
		if len(m.Question) != 1 || len(q.Question) != 1 || m.Question[0] != q.Question[0] {
			return "C06/question-not-echoed", fmt.Sprintf("query question %v, reply question %v", q.Question, m.Question)
		}
	}
	qopt, ropt := q.IsEdns0(), m.IsEdns0()
	if qopt == nil && ropt != nil {
		return "C06/opt-without-opt", "the query carried no OPT but the reply does:\n" + m.String()
	}
	if qopt != nil && qopt.Version() != 0 && rcode != dns.RcodeBadVers {
		return "C06/wrong-rejection", fmt.Sprintf("EDNS version %d must get BADVERS, got %s", qopt.Version(), dns.RcodeToString[rcode])
	}
	do := qopt != nil && qopt.Do()
	qtype := q.Question[0].Qtype
	if !do && qtype != dns.TypeRRSIG {
		for _, rr := range append(append([]dns.RR(nil), m.Answer...), m.Ns...) {
			switch rr.Header().Rrtype {
			case dns.TypeRRSIG, dns.TypeNSEC, dns.TypeNSEC3:
				return "C06/dnssec-records-without-do", fmt.Sprintf("the query (%s %s) did not set DO, yet the reply carries %s", q.Question[0].Name, dns.TypeToString[qtype], rr.String())
			}
		}
	}
	if m.AuthenticatedData && (q.CheckingDisabled || (!do && !q.AuthenticatedData)) {
		return "C06/ad-not-negotiated", fmt.Sprintf("AD is set although the query had CD=%v DO=%v AD=%v", q.CheckingDisabled, do, q.AuthenticatedData)
	}
	if ropt != nil {
		hadCookie := false
		var qcookie string
		for _, o := range qopt.Option {
			if l, ok := o.(*dns.EDNS0_LOCAL); ok && l.Code == dns.EDNS0COOKIE {
				hadCookie = true
				qcookie = fmt.Sprintf("%x", l.Data)
			}
			if c, ok := o.(*dns.EDNS0_COOKIE); ok {
				hadCookie = true
				qcookie = c.Cookie
			}
		}
		for _, o := range ropt.Option {
			switch o.Option() {
			case dns.EDNS0COOKIE:
				if !hadCookie {
					return "C06/option-reflected", "a cookie is returned although the query sent none"
				}
				ck := o.(*dns.EDNS0_COOKIE).Cookie
				if len(qcookie) >= 16 && (len(ck) < 16 || ck[:16] != qcookie[:16]) {
					return "C06/option-reflected", fmt.Sprintf("the returned cookie %s does not start with the client cookie %s", ck, qcookie[:16])
				}
			case dns.EDNS0NSID, dns.EDNS0EDE:
				if o.Option() == dns.EDNS0NSID {
					asked := false
					for _, x := range qopt.Option {
						if x.Option() == dns.EDNS0NSID {
							asked = true
						}
					}
					if !asked {
						return "C06/option-reflected", "NSID is returned although the query did not ask for it"
					}
				}
			case dns.EDNS0TCPKEEPALIVE:
				if proto == "udp" {
					return "C06/option-reflected", "a keepalive option is returned over UDP"
				}
				asked := false
				for _, x := range qopt.Option {
					if x.Option() == dns.EDNS0TCPKEEPALIVE {
						asked = true
					}
				}
				if !asked {
					return "C06/option-reflected", "a keepalive option is returned to a stream client that sent none"
				}
				if ka, ok := o.(*dns.EDNS0_TCP_KEEPALIVE); ok && ka.Timeout == c06UpstreamKeepalive {
					return "C06/option-reflected", "the upstream's keepalive timeout is returned to the client"
				}
			case dns.EDNS0PADDING:
			default:
				return "C06/option-reflected", fmt.Sprintf("option %d is returned to the client: %s", o.Option(), o.String())
			}
		}
	}
	if proto == "udp" {
		adv := 512
		if qopt != nil {
			adv = int(qopt.UDPSize())
		}
		limit := adv
		if limit > 1232 {
			limit = 1232
		}
		if limit < 512 {
			limit = 512
		}
		if len(raw) > limit {
			onlyQOpt := m.Truncated && len(m.Answer) == 0 && len(m.Ns) == 0
			for _, rr := range m.Extra {
				if rr.Header().Rrtype != dns.TypeOPT {
					onlyQOpt = false
				}
			}
			if !onlyQOpt || len(raw) > 1232 {
				return "C06/udp-reply-too-large", fmt.Sprintf("the query advertised %d; the reply is %d bytes (limit %d) TC=%v an=%d ns=%d ar=%d", adv, len(raw), limit, m.Truncated, len(m.Answer), len(m.Ns), len(m.Extra))
			}
		}
		if m.Truncated && (len(m.Answer) != 0 || len(m.Ns) != 0) {
			return "C06/truncated-reply-with-records", fmt.Sprintf("TC=1 with an=%d ns=%d", len(m.Answer), len(m.Ns))
		}
	}
	return "", ""
}

func runC06(sc *C06Scenario, tr *kit.Trace) *kit.Result {
	res := kit.NewResult()
	nontrivial := false
	for _, mode := range []string{"wire", "stream", "udp", "tcp"} {
		mode := mode
		kit.Bubble(func() {
			spec := c05Spec(&sc.C05Scenario)
			faults := []simnet.Fault{{Kind: "drop", Addr: "192.0.9.4"}}
			replies := make([][][]byte, len(sc.Ops))
			raws := make([][]byte, len(sc.Ops))
			for i := range sc.Ops {
				raws[i] = c06Packet(sc, i)
			}
			if mode == "stream" {
				// the owned TCP listener: one connection per packet, one frame each
				g, err := world.NewIng(spec, world.IngSpec{Workers: 4, Queue: 4, Sockets: 1, Spare: 4, TCP: true, TCPConns: 256}, 6, tr)
				if err != nil {
					res.Fail("C06/harness", "listener: %v", err)
					return
				}
				defer g.Close()
				g.Hook = c06Upstream(sc, res)
				g.Net.SetFaults(faults)
				kit.SleepSettle(6 * time.Second)
				conns := make([]*simsock.StreamConn, len(sc.Ops))
				for i, op := range sc.Ops {
					kit.SleepSettle(time.Duration(op.GapMs) * time.Millisecond)
					c := g.DialTCP(c05Client(op.Client), 0)
					conns[i] = c
					frame := append([]byte{byte(len(raws[i]) >> 8), byte(len(raws[i]))}, raws[i]...)
					_, _ = c.Write(frame)
					kit.Settle()
				}
				kit.SleepSettle(8 * time.Second)
				for i, c := range conns {
					var buf []byte
					tmp := make([]byte, 70000)
					for {
						_ = c.SetReadDeadline(time.Now().Add(10 * time.Millisecond))
						n, err := c.Read(tmp)
						buf = append(buf, tmp[:n]...)
						if err != nil {
							break
						}
					}
					for len(buf) >= 2 {
						l := int(buf[0])<<8 | int(buf[1])
						if len(buf) < 2+l {
							res.Fail("C06/malformed-reply", "op %d over the stream listener: a reply frame announces %d bytes, %d arrived", i, l, len(buf)-2)
							return
						}
						replies[i] = append(replies[i], append([]byte(nil), buf[2:2+l]...))
						buf = buf[2+l:]
					}
					_ = c.Close()
				}
				res.SimTime += g.Now()
			} else if mode == "wire" {
				g, err := world.NewIng(spec, world.IngSpec{Workers: 16, Queue: 16, Sockets: 1, Spare: 16, NoRawConn: len(sc.Ops)%3 == 0 /* portable reader, no inline pass */}, 6, tr)
				if err != nil {
					res.Fail("C06/harness", "listener: %v", err)
					return
				}
				defer g.Close()
				g.Hook = c06Upstream(sc, res)
				g.Net.SetFaults(faults)
				kit.SleepSettle(6 * time.Second)
				for i, op := range sc.Ops {
					kit.SleepSettle(time.Duration(op.GapMs) * time.Millisecond)
					g.Send(0, c05Client(op.Client), raws[i])
					kit.Settle()
				}
				kit.SleepSettle(8 * time.Second)
				for _, s := range g.K.Out {
					if len(s.Data) < 2 {
						res.Fail("C06/malformed-reply", "a %d-byte datagram to %v", len(s.Data), s.To)
						return
					}
					i := int(binary.BigEndian.Uint16(s.Data[0:2])) - 1000
					if i < 0 || i >= len(sc.Ops) || s.To != c05Client(sc.Ops[i].Client) {
						res.Fail("C06/id-not-echoed", "a datagram to %v with ID %d answers no query of that client", s.To, binary.BigEndian.Uint16(s.Data[0:2]))
						return
					}
					replies[i] = append(replies[i], s.Data)
				}
				res.SimTime += g.Now()
			} else {
				r := world.NewRes(spec, 6, tr)
				defer r.Close()
				r.Hook = c06Upstream(sc, res)
				r.Net.SetFaults(faults)
				kit.SleepSettle(6 * time.Second)
				clients := make([]*world.Client, len(sc.Ops))
				for i, op := range sc.Ops {
					kit.SleepSettle(time.Duration(op.GapMs) * time.Millisecond)
					if sc.Mangle[i] != "" {
						continue // header-level handling belongs to the listeners
					}
					m := new(dns.Msg)
					if m.Unpack(raws[i]) != nil {
						continue
					}
					c := r.NewClient(c05Client(op.Client), mode)
					clients[i] = c
					go r.Srv.ServeMsg(nil, c, m) //nolint:staticcheck
					kit.Settle()
				}
				kit.SleepSettle(8 * time.Second)
				for i, c := range clients {
					if c != nil {
						replies[i] = c.Raw
					}
				}
				res.SimTime += r.Now()
			}
			for i, op := range sc.Ops {
				for _, raw := range replies[i] {
					proto := "udp"
					if mode == "tcp" || mode == "stream" {
						proto = "tcp"
					}
					class, detail := c06Judge(raw, raws[i], sc.Mangle[i], proto)
					rc, tc, hasOpt := -1, false, false
					if len(raw) >= 12 {
						rc, tc = int(raw[3]&0xf), raw[2]&2 != 0
						hasOpt = binary.BigEndian.Uint16(raw[10:12]) > 0
					}
					if mode == "wire" {
						tr.Add("op %d %s %s/%s mangle=%q edns=%v size=%d do=%v -> %dB rcode=%d tc=%v", i, mode, c05Names[op.Name%len(c05Names)], dns.TypeToString[op.Type], sc.Mangle[i], op.EDNS, op.Size, op.DO, len(raw), rc, tc)
					}
					tr.Shape(fmt.Sprintf("%s:%s:%v:%v:%d:%v:%v", mode, sc.Mangle[i], op.EDNS, op.DO, rc, tc, hasOpt))
					if tc || hasOpt || sc.Mangle[i] != "" {
						nontrivial = true
					}
					if class != "" {
						res.Fail(class, "op %d via %s (%s/%s, mangle=%q): %s", i, mode, c05Names[op.Name%len(c05Names)], dns.TypeToString[op.Type], sc.Mangle[i], detail)
						return
					}
				}
				if len(replies[i]) > 1 {
					res.Fail("C06/two-replies", "op %d via %s got %d replies", i, mode, len(replies[i]))
					return
				}
				if (mode == "wire" || mode == "stream") && (sc.Mangle[i] == "response" || sc.Mangle[i] == "response-op" || sc.Mangle[i] == "short") && len(replies[i]) > 0 {
					res.Fail("C06/response-answered", "op %d (%s) must not be answered", i, sc.Mangle[i])
					return
				}
				if (mode == "wire" || mode == "stream") && len(replies[i]) == 0 {
					switch sc.Mangle[i] {
					case "notimp", "qd2", "qd0", "an2", "badbody":
						res.Fail("C06/wrong-rejection", "op %d (%s) must be rejected with a reply, got none", i, sc.Mangle[i])
						return
					}
				}
			}
		})
		if res.Viol != nil {
			return res
		}
	}
	res.Nontrivial = nontrivial
	return res
}

func shrinkC06(sc any, fails func(any) bool) any {
	cur := sc.(*C06Scenario)
	budget := 60
	// drop operations from the end first (mangle indexes stay valid)
	for len(cur.Ops) > 1 && budget > 0 {
		budget--
		c := *cur
		c.Ops = cur.Ops[:len(cur.Ops)-1]
		if !fails(&c) {
			break
		}
		cur = &c
	}
	for _, f := range []func(c *C06Scenario){
		func(c *C06Scenario) { c.NSID = "" },
		func(c *C06Scenario) { c.Blocklist = nil },
		func(c *C06Scenario) { c.ClientRate = 0 },
		func(c *C06Scenario) { c.Prefetch = 0 },
	} {
		c := *cur
		f(&c)
		if fails(&c) {
			cur = &c
		}
	}
	return cur
}
