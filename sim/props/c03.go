package props

import (
	"encoding/hex"
	"fmt"
	"hash/fnv"
	"net/netip"
	"strings"
	"time"

	"github.com/miekg/dns"
	"github.com/semihalev/sdns/config"
	"github.com/semihalev/sdns/middleware"
	"github.com/semihalev/sdns/verifx/verifxxhash"

	"verifsim/authsim"
	"verifsim/kit"
	"verifsim/simnet"
	"verifsim/world"
)

// C03 — a cached response only answers the exact question it was stored for
// (DESIGN.md §3 C03).
//
// One zone answers every name below it with data computed from the question itself (the
// lower-cased wire form of the name, the type and the CD bit of the upstream query), so a
// reply that was built from another question's cache entry shows in its data. Questions
// are drawn from families that differ in one respect only (letter case, a dot inside a
// label versus a label boundary, non-printable octets, type, CD bit), arrive through both
// ingress paths (raw packets through the UDP engine, decoded messages through ServeMsg,
// also with non-canonical presentation text), and the cache-key hash can be narrowed to a
// few bits so that unrelated questions share a key all the time.

type C03Op struct {
	GapMs  int      `json:"gap"`
	Labels []string `json:"l"`               // hex of each label's octets (below uq.test.)
	Type   uint16   `json:"t"`
	CD     bool     `json:"cd,omitempty"`
	Wire   bool     `json:"wire,omitempty"`   // through the UDP engine; else Server.ServeMsg
	Odd    bool     `json:"odd,omitempty"`    // decoded ingress with \DDD escapes for printable octets
	Upper  uint32   `json:"upper,omitempty"`
	Purge  bool     `json:"purge,omitempty"`  // purge this question instead of asking it
	// Cut recipe (signed zone sq.test.): "deny" asks nx.sq.test. (validated NXDOMAIN, a subtree
	// cut), "grow" creates below.nx.sq.test. in the zone, "below" asks it.
	Cut string `json:"cut,omitempty"`
	Sub int    `json:"sub,omitempty"` // 1-based index into c03Subnets: the client-subnet option the query carries
	Pre bool   `json:"pre,omitempty"` // a COOKIE option precedes the client-subnet option in the OPT record
	// Alias: the question is alias.<labels>.uq.test.; the zone answers it with a CNAME to
	// tgt.<labels>.uq.test. and nothing else, so the target leg is completed by the cache's own
	// chase — which has to stay in the client's CD partition like any other lookup.
	Alias bool `json:"alias,omitempty"`
}

var c03AliasLabel, c03TargetLabel = hex.EncodeToString([]byte("alias")), hex.EncodeToString([]byte("tgt"))

type C03Scenario struct {
	MaskBits int     `json:"mask_bits,omitempty"` // 0 = full 64-bit keys
	// ECS: "" = client-subnet forwarding off; otherwise forwarding is on (ceilings /24, /56) and
	// the test zone declares a scope: "same" (= source length), "fixed24", "wider" (source-8), "zero".
	ECS string `json:"ecs,omitempty"`
	// Prefetch threshold (percent); with ECS on, a shared entry refreshed in the background must
	// stay shared whoever's hit triggered the refresh.
	Prefetch uint32 `json:"prefetch,omitempty"`
	Ops      []C03Op `json:"ops"`
}

func init() {
	kit.Register(&kit.Prop{
		ID:    "C03",
		Level: "exploration",
		Rule: "Scenario = cache-key width (64 bits, or 3-10 bits so that keys collide) + 10-60 operations: questions from confusable families " +
			"(case variants; 'a.b' as one label vs two; 'ab' vs 'a','b'; octets 0x00/0x20/0xff/'*'/'\\\\'; names below and beside a denied name; " +
			"types A/TXT/AAAA; CD on/off; in a third of the scenarios client-subnet options of both families whose prefixes share network addresses at different lengths, against a zone that scopes its answers) through the wire ingress or the decoded ingress (canonical or \\DDD-escaped text), and purges. " +
			"Non-trivial = a question was answered from cache after a confusable sibling had been cached, or two cached questions shared a key. " +
			"Distinct = hash of per-operation (family, type, CD, ingress, from-cache, rcode).",
		Assumptions: []string{
			"collisions on the 64-bit key are produced by narrowing the hash result (verifxxhash shim in internal/cache/key.go and key_wire.go); the collision handling under test is unchanged",
			"client-subnet scoping is exercised with forwarding on at the default ceilings (/24, /56) and four scope modes; policy variations are C19's; subtree cuts are exercised with one recipe (a signed zone that gains a name below a denied one: the CD=1 partition must see it)",
		},
		Components: kit.Components{
			Real: []string{"server UDP engine + wire cache ladder", "Server.ServeMsg + Msg cache ladder", "internal/cache key functions (string, wire), full-preimage verification", "purgers", "resolver"},
			Stub: []string{"kernel sockets (simsock)", "network (simnet)", "authoritative servers (authsim; the test zone answers with data computed from the question)", "64-bit hash width (mask)"},
		},
		Gen:      func(r *kit.RNG, tier string) any { return genC03(r) },
		Blank:    func() any { return &C03Scenario{} },
		Run:      func(sc any, tr *kit.Trace) *kit.Result { return runC03(sc.(*C03Scenario), tr) },
		Shrink:   shrinkC03,
		Warmup:   true,
		PerChunk: 10,
		Quick:    2000,
		Thorough: 150000,
	})
}

// c03Subnets: client-subnet options. Several share a network address at different lengths
// (198.51.7.7/16 and 198.51.0.9/24 both start at 198.51.0.0), so an entry scoped to the longer
// one sits exactly where a careless probe for the shorter one would look.
var c03Subnets = []struct {
	addr string
	bits int
}{{"198.51.0.9", 24}, {"198.51.7.7", 16}, {"198.51.7.7", 24}, {"198.51.100.77", 24}, {"198.51.100.200", 32}, {"198.48.0.1", 20}, {"198.48.9.9", 12},
	{"2001:db8:1::7", 56}, {"2001:db8:1:2::9", 48}, {"2001:db8:1:2::9", 56}}

// c03Forwarded is the subnet sdns may forward for option sub (ceilings /24 and /56, host bits zeroed).
func c03Forwarded(sub int) (netip.Prefix, bool) {
	if sub <= 0 || sub > len(c03Subnets) {
		return netip.Prefix{}, false
	}
	a := netip.MustParseAddr(c03Subnets[sub-1].addr)
	bits := c03Subnets[sub-1].bits
	if a.Is4() && bits > 24 {
		bits = 24
	}
	if a.Is6() && bits > 56 {
		bits = 56
	}
	pf, _ := a.Prefix(bits)
	return pf, true
}

// c03Made is one answer the test zone produced: whose question, for which audience.
type c03Made struct {
	ident string
	aud   netip.Prefix // zero: produced without a client subnet
	scope int
}

var c03LabelPool = [][]byte{[]byte("a"), []byte("b"), []byte("ab"), []byte("a.b"), []byte("c"), {'a', 0}, []byte("a b"), []byte("*"), {0xff}, []byte("a\\b"), []byte("nx"), []byte("a.nx"), []byte("xnx"), []byte("0")}

func genC03(r *kit.RNG) *C03Scenario {
	sc := &C03Scenario{}
	if r.Chance(0.5) {
		sc.MaskBits = r.Range(3, 10)
	}
	if r.Chance(0.3) {
		sc.ECS = kit.Pick(r, []string{"same", "same", "fixed24", "wider", "zero"})
	}
	// a few base names, then siblings derived from them
	var bases [][]string
	for i, n := 0, r.Range(2, 4); i < n; i++ {
		var ls []string
		for j, m := 0, r.Range(1, 3); j < m; j++ {
			ls = append(ls, hex.EncodeToString(kit.Pick(r, c03LabelPool)))
		}
		bases = append(bases, ls)
	}
	sibling := func(ls []string) []string {
		out := append([]string(nil), ls...)
		switch r.Intn(6) {
		case 0: // merge two labels into one containing a dot
			if len(out) >= 2 {
				a, _ := hex.DecodeString(out[0])
				b, _ := hex.DecodeString(out[1])
				out = append([]string{hex.EncodeToString(append(append(a, '.'), b...))}, out[2:]...)
			}
		case 1: // split a label at a dot
			a, _ := hex.DecodeString(out[0])
			if i := strings.IndexByte(string(a), '.'); i > 0 && i < len(a)-1 {
				out = append([]string{hex.EncodeToString(a[:i]), hex.EncodeToString(a[i+1:])}, out[1:]...)
			}
		case 2: // concatenate two labels
			if len(out) >= 2 {
				a, _ := hex.DecodeString(out[0])
				b, _ := hex.DecodeString(out[1])
				out = append([]string{hex.EncodeToString(append(a, b...))}, out[2:]...)
			}
		case 3: // prepend a label
			out = append([]string{hex.EncodeToString(kit.Pick(r, c03LabelPool))}, out...)
		case 4: // drop the first label
			if len(out) >= 2 {
				out = out[1:]
			}
		}
		if len(out) > 4 {
			out = out[:4]
		}
		return out
	}
	n := r.Range(10, 60)
	for i := 0; i < n; i++ {
		ls := kit.Pick(r, bases)
		if r.Chance(0.4) {
			ls = sibling(ls)
		}
		op := C03Op{GapMs: kit.Pick(r, []int{5, 50, 300, 1000, 3000}), Labels: ls, Type: kit.Pick(r, []uint16{dns.TypeA, dns.TypeA, dns.TypeTXT, dns.TypeAAAA}),
			CD: r.Chance(0.25), Wire: r.Chance(0.5)}
		if r.Chance(0.3) {
			op.Upper = uint32(r.Uint64())
		}
		if !op.Wire && r.Chance(0.2) {
			op.Odd = true
		}
		if r.Chance(0.06) {
			op.Purge = true
		}
		if sc.ECS != "" && r.Chance(0.7) {
			op.Sub = 1 + r.Intn(len(c03Subnets))
		}
		sc.Ops = append(sc.Ops, op)
	}
	if sc.ECS != "" && sc.ECS != "zero" && r.Chance(0.5) {
		// prefetch recipe: a question answered for everyone (asked without a subnet) ages into its
		// prefetch window; the hit that triggers the background refresh comes from a client with
		// a subnet option (after another option in its OPT); the refreshed entry is still
		// everyone's, so the next client without a subnet must not get that client's answer
		sc.Prefetch = kit.Pick(r, []uint32{50, 50, 80})
		ls := kit.Pick(r, bases)
		qt := kit.Pick(r, []uint16{dns.TypeA, dns.TypeTXT})
		sub := 1 + r.Intn(len(c03Subnets))
		sc.Ops = append(sc.Ops, C03Op{GapMs: 500, Labels: ls, Type: qt, Wire: r.Chance(0.5)},
			C03Op{GapMs: kit.Pick(r, []int{200000, 250000}), Labels: ls, Type: qt, Wire: r.Chance(0.5), Sub: sub, Pre: r.Chance(0.7)},
			C03Op{GapMs: 3000, Labels: ls, Type: qt, Wire: r.Chance(0.5)},
			C03Op{GapMs: 1000, Labels: ls, Type: qt, Wire: r.Chance(0.5), Sub: sub})
	}
	if sc.ECS == "" && r.Chance(0.3) {
		// alias recipe: the target is cached in one CD partition, then the alias is asked in
		// the other (miss, then hit), then in the first
		ls := kit.Pick(r, bases)
		if len(ls) > 3 {
			ls = ls[:3]
		}
		if !c03Below(c03Wire(ls)) {
			qt := kit.Pick(r, []uint16{dns.TypeA, dns.TypeA, dns.TypeTXT})
			first := r.Chance(0.3)
			tgt := append([]string{c03TargetLabel}, ls...)
			at := r.Intn(len(sc.Ops) + 1)
			rec := []C03Op{{GapMs: 300, Labels: tgt, Type: qt, CD: first, Wire: r.Chance(0.5)},
				{GapMs: 500, Labels: ls, Type: qt, CD: !first, Wire: r.Chance(0.5), Alias: true},
				{GapMs: 500, Labels: ls, Type: qt, CD: !first, Wire: r.Chance(0.5), Alias: true},
				{GapMs: 500, Labels: ls, Type: qt, CD: first, Wire: r.Chance(0.5), Alias: true}}
			sc.Ops = append(sc.Ops[:at:at], append(rec, sc.Ops[at:]...)...)
		}
	}
	if r.Chance(0.35) {
		// a validated denial cached under CD=0 must not answer the CD=1 partition
		at := r.Intn(len(sc.Ops) + 1)
		rec := []C03Op{{GapMs: 300, Cut: "deny", Wire: r.Chance(0.5)}, {GapMs: 100, Cut: "dotted", Wire: r.Chance(0.5)}, {GapMs: 100, Cut: "grow"},
			{GapMs: 200, Cut: "below", CD: true, Wire: true}, {GapMs: 200, Cut: "below", CD: true, Wire: false}, {GapMs: 200, Cut: "below", CD: r.Chance(0.5), Wire: r.Chance(0.5)}}
		sc.Ops = append(sc.Ops[:at:at], append(rec, sc.Ops[at:]...)...)
	}
	if sc.MaskBits == 0 && r.Chance(0.3) {
		// failure route (full-width keys only: with narrowed keys delegations and failures of
		// unrelated zones collide and SERVFAILs abound, which the controls cannot tell apart): every server of dead.uq.test. is silent, so the zone's failure is
		// remembered; x\.dead.uq.test. (one label "x.dead" under uq.test.) is beside that zone,
		// not in it, and uq.test. answers for it
		at := r.Intn(len(sc.Ops) + 1)
		rec := []C03Op{{GapMs: 300, Cut: "fail", Wire: r.Chance(0.5)}, {GapMs: 200, Cut: "faildotted", Wire: r.Chance(0.5), CD: r.Chance(0.2)}}
		sc.Ops = append(sc.Ops[:at:at], append(rec, sc.Ops[at:]...)...)
	}
	return sc
}

// c03Wire returns the lower-cased wire form of the name (the identity of a question's name).
func c03Wire(labels []string) []byte {
	var w []byte
	for _, h := range labels {
		b, _ := hex.DecodeString(h)
		w = append(w, byte(len(b)))
		for _, c := range b {
			if c >= 'A' && c <= 'Z' {
				c += 32
			}
			w = append(w, c)
		}
	}
	return append(w, 2, 'u', 'q', 4, 't', 'e', 's', 't', 0)
}

// c03Text renders the name as presentation text; odd escapes every octet as \DDD.
func c03Text(labels []string, upper uint32, odd bool) string {
	var sb strings.Builder
	k := 0
	for _, h := range labels {
		b, _ := hex.DecodeString(h)
		for _, c := range b {
			if c >= 'a' && c <= 'z' {
				if upper>>uint(k%32)&1 == 1 {
					c -= 32
				}
				k++
			}
			switch {
			case odd:
				fmt.Fprintf(&sb, "\\%03d", c)
			case c == '.' || c == '\\' || c == '"' || c == '(' || c == ')' || c == ';' || c == '@' || c == '$':
				sb.WriteByte('\\')
				sb.WriteByte(c)
			case c < 0x21 || c > 0x7e:
				fmt.Fprintf(&sb, "\\%03d", c)
			default:
				sb.WriteByte(c)
			}
		}
		sb.WriteByte('.')
	}
	sb.WriteString("uq.test.")
	return sb.String()
}

func c03Data(wire []byte, qtype uint16, cd bool) (ip [4]byte, txt string) {
	h := fnv.New64a()
	h.Write(wire)
	h.Write([]byte{byte(qtype >> 8), byte(qtype)})
	v := h.Sum64()
	last := byte(v) &^ 1
	if cd {
		last |= 1
	}
	return [4]byte{10, byte(v >> 16), byte(v >> 8), last}, fmt.Sprintf("q=%x t=%d cd=%v", wire, qtype, cd)
}

// c03Below reports whether the name is nx.uq.test. or below it (whole labels).
func c03Below(wire []byte) bool {
	suffix := []byte{2, 'n', 'x', 2, 'u', 'q', 4, 't', 'e', 's', 't', 0}
	// walk labels
	for off := 0; off < len(wire); {
		if string(wire[off:]) == string(suffix) {
			return true
		}
		l := int(wire[off])
		if l == 0 {
			break
		}
		off += 1 + l
	}
	return false
}

func runC03(sc *C03Scenario, tr *kit.Trace) *kit.Result {
	res := kit.NewResult()
	kit.Bubble(func() { c03Run(sc, tr, res) })
	return res
}

func c03Run(sc *C03Scenario, tr *kit.Trace, res *kit.Result) {
	mask := ^uint64(0)
	if sc.MaskBits > 0 {
		mask = 1<<uint(sc.MaskBits) - 1
	}
	old := verifxxhash.SetMask(mask)
	defer verifxxhash.SetMask(old)
	spec := &world.Spec{
		Zones: []world.ZoneSpec{
			{Name: ".", Signed: true, Alg: dns.ED25519, KeyIdx: 1, NSNames: []string{"a.root-servers.net."}, Addrs: []string{"198.41.0.4"}},
			{Name: "test.", Signed: true, Secure: true, Alg: dns.ED25519, KeyIdx: 2, NSNames: []string{"ns.test."}, Addrs: []string{"192.0.9.1"}},
			{Name: "uq.test.", NSNames: []string{"ns.uq.test."}, Addrs: []string{"192.0.9.7"}},
			// dead.uq.test.: its only server never answers (fault below): a zone-wide failure
			{Name: "dead.uq.test.", NSNames: []string{"ns.dead.uq.test."}, Addrs: []string{"192.0.9.99"}, Records: []string{"www.dead.uq.test. 300 IN A 10.9.9.9"}},
			{Name: "sq.test.", Signed: true, Secure: true, Alg: dns.ED25519, KeyIdx: 4, NSNames: []string{"ns.sq.test."}, Addrs: []string{"192.0.9.8"},
				Records: []string{"keep.sq.test. 300 IN A 10.9.9.1", "zz.sq.test. 300 IN A 10.9.9.2", "a\\.nx.sq.test. 300 IN A 10.9.9.7"}},
		},
		Cfg: world.CfgSpec{QueryTimeoutS: 5, TimeoutMs: 1500, CacheSize: 4096},
	}
	if sc.ECS != "" {
		spec.Cfg.ECS = &config.ECSConfig{Enabled: true}
	}
	spec.Cfg.Prefetch = sc.Prefetch
	made := map[string]c03Made{} // answer data -> the question and audience it was produced for
	g, err := world.NewIng(spec, world.IngSpec{Workers: 32, Queue: 32, Sockets: 1, Spare: 32}, 3, tr)
	if err != nil {
		res.Fail("C03/harness", "listener: %v", err)
		return
	}
	defer g.Close()
	g.Res.Net.SetFaults([]simnet.Fault{{Kind: "drop", Addr: "192.0.9.99"}})
	upstream := map[string]int{} // question identity -> upstream queries seen
	g.Hook = func(addr netip.Addr, q *simnet.Query, honest *authsim.Answer) []simnet.Reply {
		if addr.String() != "192.0.9.7" || q.Msg == nil || len(q.Msg.Question) != 1 {
			return nil
		}
		qq := q.Msg.Question[0]
		if strings.EqualFold(qq.Name, "uq.test.") || qq.Qclass != dns.ClassINET || dns.IsSubDomain("dead.uq.test.", strings.ToLower(qq.Name)) {
			return nil // (names at or below dead.uq.test. get the zone's own answer: the referral)
		}
		buf := make([]byte, 300)
		n, err := dns.PackDomainName(strings.ToLower(qq.Name), buf, 0, nil, false)
		if err != nil {
			return nil
		}
		wire := buf[:n]
		identUp := fmt.Sprintf("%x/%d/%v", wire, qq.Qtype, q.Msg.CheckingDisabled)
		upstream[identUp]++
		m := new(dns.Msg)
		m.SetReply(q.Msg)
		m.Authoritative = true
		// the audience: the client subnet this query carries, and the scope declared for it
		var audOpt *dns.EDNS0_SUBNET
		var aud netip.Prefix
		scope := 0
		if o := q.Msg.IsEdns0(); o != nil {
			for _, e := range o.Option {
				if v, ok := e.(*dns.EDNS0_SUBNET); ok {
					if a, ok := netip.AddrFromSlice(v.Address); ok {
						audOpt = v
						aud, _ = a.Unmap().Prefix(int(v.SourceNetmask))
						switch sc.ECS {
						case "same":
							scope = int(v.SourceNetmask)
						case "fixed24":
							scope = 24
						case "wider":
							scope = int(v.SourceNetmask) - 8
							if scope < 0 {
								scope = 0
							}
						}
					}
				}
			}
		}
		audTag := ""
		if audOpt != nil {
			audTag = fmt.Sprintf(" aud=%s scope=%d", aud, scope)
		}
		soa := &dns.SOA{Hdr: dns.RR_Header{Name: "uq.test.", Rrtype: dns.TypeSOA, Class: dns.ClassINET, Ttl: 300}, Ns: "ns.uq.test.", Mbox: "h.uq.test.", Serial: 1, Refresh: 1, Retry: 1, Expire: 1, Minttl: 300}
		switch {
		case c03Below(wire):
			m.Rcode = dns.RcodeNameError
			m.Ns = []dns.RR{soa}
		case len(wire) > 6 && string(wire[:6]) == "\x05alias" && qq.Qtype != dns.TypeCNAME:
			// the alias and nothing else: the target leg is the resolver's business
			rest, _, _ := dns.UnpackDomainName(wire, 6)
			m.Answer = []dns.RR{&dns.CNAME{Hdr: dns.RR_Header{Name: qq.Name, Rrtype: dns.TypeCNAME, Class: dns.ClassINET, Ttl: 300}, Target: "tgt." + rest}}
		case qq.Qtype == dns.TypeA:
			ip, _ := c03Data(append(append([]byte(nil), wire...), audTag...), qq.Qtype, q.Msg.CheckingDisabled)
			m.Answer = []dns.RR{&dns.A{Hdr: dns.RR_Header{Name: qq.Name, Rrtype: dns.TypeA, Class: dns.ClassINET, Ttl: 300}, A: ip[:]}}
			made[netip.AddrFrom4(ip).String()] = c03Made{identUp, aud, scope}
		case qq.Qtype == dns.TypeTXT:
			_, txt := c03Data(wire, qq.Qtype, q.Msg.CheckingDisabled)
			txt += audTag
			m.Answer = []dns.RR{&dns.TXT{Hdr: dns.RR_Header{Name: qq.Name, Rrtype: dns.TypeTXT, Class: dns.ClassINET, Ttl: 300}, Txt: []string{txt}}}
			made[txt] = c03Made{identUp, aud, scope}
		default:
			m.Ns = []dns.RR{soa}
		}
		if o := q.Msg.IsEdns0(); o != nil {
			m.SetEdns0(1232, o.Do())
			if audOpt != nil && len(m.Answer) > 0 {
				ro := m.IsEdns0()
				ro.Option = append(ro.Option, &dns.EDNS0_SUBNET{Code: dns.EDNS0SUBNET, Family: audOpt.Family, SourceNetmask: audOpt.SourceNetmask, SourceScope: uint8(scope), Address: audOpt.Address})
			}
		}
		return world.PackReply(m, q)
	}
	kit.SleepSettle(3 * time.Second)
	client := netip.MustParseAddrPort("10.3.3.3:43333")
	cachedSibling, collided := 0, 0
	asked := map[string]bool{}
	keysSeen := map[uint64]string{}
	for i, op := range sc.Ops {
		kit.SleepSettle(time.Duration(op.GapMs) * time.Millisecond)
		if op.Cut != "" {
			if !c03Cut(g, op, i, client, tr, res) {
				return
			}
			continue
		}
		var tgtWire []byte
		if op.Alias {
			tgtWire = c03Wire(append([]string{c03TargetLabel}, op.Labels...))
			op.Labels = append([]string{c03AliasLabel}, op.Labels...)
		}
		wire := c03Wire(op.Labels)
		if len(wire) > 250 {
			continue
		}
		ident := fmt.Sprintf("%x/%d/%v", wire, op.Type, op.CD)
		text := c03Text(op.Labels, op.Upper, op.Odd && !op.Wire)
		if op.Purge {
			qq := dns.Question{Name: c03Text(op.Labels, 0, false), Qtype: op.Type, Qclass: dns.ClassINET}
			for _, p := range middleware.GlobalPipeline().Purgers() {
				p.Purge(qq)
			}
			tr.Add("op %d purge %s/%s", i, qq.Name, dns.TypeToString[op.Type])
			delete(asked, fmt.Sprintf("%x/%d/%v", wire, op.Type, false))
			delete(asked, fmt.Sprintf("%x/%d/%v", wire, op.Type, true))
			continue
		}
		q := new(dns.Msg)
		q.SetQuestion(text, op.Type)
		q.Id = uint16(3000 + i)
		q.CheckingDisabled = op.CD
		q.SetEdns0(1232, false)
		if op.Sub > 0 && op.Sub <= len(c03Subnets) {
			a := netip.MustParseAddr(c03Subnets[op.Sub-1].addr)
			fam := uint16(1)
			if a.Is6() {
				fam = 2
			}
			o := q.IsEdns0()
			if op.Pre {
				o.Option = append(o.Option, &dns.EDNS0_COOKIE{Code: dns.EDNS0COOKIE, Cookie: "0123456789abcdef"})
			}
			o.Option = append(o.Option, &dns.EDNS0_SUBNET{Code: dns.EDNS0SUBNET, Family: fam, SourceNetmask: uint8(c03Subnets[op.Sub-1].bits), Address: a.AsSlice()})
		}
		upBefore := upstream[ident]
		var reply *dns.Msg
		if op.Wire {
			raw, err := q.Pack()
			if err != nil {
				continue
			}
			outBefore := len(g.K.Out)
			g.Send(0, client, raw)
			kit.SleepSettle(6 * time.Second)
			for _, s := range g.K.Out[outBefore:] {
				if len(s.Data) > 2 && int(s.Data[0])<<8|int(s.Data[1]) == 3000+i {
					reply = new(dns.Msg)
					if err := reply.Unpack(s.Data); err != nil {
						res.Fail("C03/malformed-reply", "op %d: %v", i, err)
						return
					}
				}
			}
		} else {
			c := g.Res.Ask(client, "udp", q)
			kit.Settle()
			if len(c.Replies) == 1 {
				reply = c.Replies[0]
			}
		}
		fetched := upstream[ident] > upBefore
		ingress := map[bool]string{true: "wire", false: "decoded"}[op.Wire]
		if reply == nil {
			tr.Add("op %d %s %q/%s cd=%v: no reply", i, ingress, text, dns.TypeToString[op.Type], op.CD)
			continue
		}
		audNote := ""
		if sc.ECS != "" && len(reply.Answer) == 1 {
			if t, ok := reply.Answer[0].(*dns.TXT); ok {
				if j := strings.Index(strings.Join(t.Txt, ""), " aud="); j >= 0 {
					audNote = strings.Join(t.Txt, "")[j:]
				}
			}
		}
		tr.Add("op %d %s %q/%s cd=%v sub=%d -> %s an=%d fetched=%v%s", i, ingress, text, dns.TypeToString[op.Type], op.CD, op.Sub, dns.RcodeToString[reply.Rcode], len(reply.Answer), fetched, audNote)
		tr.Shape(fmt.Sprintf("%d:%d:%v:%s:%v:%d", len(op.Labels), op.Type, op.CD, ingress, fetched, reply.Rcode))
		if !fetched && len(asked) > 0 {
			cachedSibling++
		}
		asked[ident] = true
		want := dns.RcodeSuccess
		if c03Below(wire) {
			want = dns.RcodeNameError
		}
		if reply.Rcode == dns.RcodeServerFailure {
			continue // resolution trouble is not this property's business
		}
		if reply.Rcode != want {
			res.Fail("C03/answer-of-another-question", "op %d (%s ingress): %q/%s (wire %x) must be %s; the reply is %s — the denial (or answer) of another name was used\n%s", i, ingress, text, dns.TypeToString[op.Type], wire, dns.RcodeToString[want], dns.RcodeToString[reply.Rcode], reply)
			return
		}
		if want != dns.RcodeSuccess {
			continue
		}
		if op.Alias {
			// the alias itself, then the target's data for this type in this CD partition
			ip, txt := c03Data(tgtWire, op.Type, op.CD)
			okAlias, okData := false, op.Type != dns.TypeA && op.Type != dns.TypeTXT
			extra := ""
			for _, rr := range reply.Answer {
				switch x := rr.(type) {
				case *dns.CNAME:
					okAlias = true
				case *dns.A:
					if op.Type == dns.TypeA && x.A.To4() != nil && [4]byte(x.A.To4()) == ip {
						okData = true
					} else {
						extra = rr.String()
					}
				case *dns.TXT:
					if op.Type == dns.TypeTXT && strings.Join(x.Txt, "") == txt {
						okData = true
					} else {
						extra = rr.String()
					}
				default:
					extra = rr.String()
				}
			}
			if !okAlias || !okData || extra != "" {
				res.Fail("C03/answer-of-another-question", "op %d (%s ingress): alias %q/%s cd=%v must carry the CNAME and the target's data for this type and CD partition (%v / %q); the reply carries %s — data of a different name, type or CD partition (key mask %d bits)\n%s",
					i, ingress, text, dns.TypeToString[op.Type], op.CD, netip.AddrFrom4(ip), txt, extra, sc.MaskBits, reply)
				return
			}
			res.Probes["alias-completed-by-the-cache"]++
			continue
		}
		if sc.ECS != "" && (op.Type == dns.TypeA || op.Type == dns.TypeTXT) {
			// the zone's data depends on the audience too: attribute the reply through the
			// record of what the zone produced
			if len(reply.Answer) != 1 {
				res.Fail("C03/answer-of-another-question", "op %d (%s ingress): %q/%s expects one record, got:\n%s", i, ingress, text, dns.TypeToString[op.Type], reply)
				return
			}
			key := ""
			switch rr := reply.Answer[0].(type) {
			case *dns.A:
				if a, ok := netip.AddrFromSlice(rr.A.To4()); ok {
					key = a.String()
				}
			case *dns.TXT:
				key = strings.Join(rr.Txt, "")
			}
			mk, known := made[key]
			if !known || mk.ident != ident {
				res.Fail("C03/answer-of-another-question", "op %d (%s ingress): %q/%s cd=%v (wire %x) was answered with %s, which the zone produced for %q — data of a different name, type or CD partition (key mask %d bits)\n%s",
					i, ingress, text, dns.TypeToString[op.Type], op.CD, wire, reply.Answer[0].String(), mk.ident, sc.MaskBits, reply)
				return
			}
			eff := mk.scope
			if mk.aud.IsValid() && eff > mk.aud.Bits() {
				eff = mk.aud.Bits()
			}
			if mk.aud.IsValid() && eff > 0 {
				scopeNet, _ := mk.aud.Addr().Prefix(eff)
				want, has := c03Forwarded(op.Sub)
				// inside the scope = the whole subnet the client is identified by lies in it
				if !has || want.Addr().Is4() != scopeNet.Addr().Is4() || want.Bits() < scopeNet.Bits() || !scopeNet.Contains(want.Addr()) {
					who := "a client without a client-subnet option"
					if has {
						who = "a client identified by " + want.String()
					}
					res.Fail("C03/scoped-answer-outside-its-audience", "op %d (%s ingress): %q/%s from %s was answered with %s, which the authority produced for %s and scoped to %s\n%s",
						i, ingress, text, dns.TypeToString[op.Type], who, reply.Answer[0].String(), mk.aud, scopeNet, reply)
					return
				}
				if !fetched {
					res.Probes["scoped-entry-served-from-cache"]++
				}
			}
			continue
		}
		ip, txt := c03Data(wire, op.Type, op.CD)
		switch op.Type {
		case dns.TypeA:
			if len(reply.Answer) != 1 {
				res.Fail("C03/answer-of-another-question", "op %d (%s ingress): %q/A expects one A record, got:\n%s", i, ingress, text, reply)
				return
			}
			a, ok := reply.Answer[0].(*dns.A)
			if !ok || a.A.To4() == nil || [4]byte(a.A.To4()) != ip {
				// which question does the data belong to?
				res.Fail("C03/answer-of-another-question", "op %d (%s ingress): %q/A cd=%v (wire %x) must carry %v; the reply carries %s — data computed for a different name, type or CD partition (key mask %d bits)\n%s",
					i, ingress, text, op.CD, wire, netip.AddrFrom4(ip), reply.Answer[0].String(), sc.MaskBits, reply)
				return
			}
		case dns.TypeTXT:
			if len(reply.Answer) != 1 {
				res.Fail("C03/answer-of-another-question", "op %d (%s ingress): %q/TXT expects one TXT record, got:\n%s", i, ingress, text, reply)
				return
			}
			t, ok := reply.Answer[0].(*dns.TXT)
			if !ok || strings.Join(t.Txt, "") != txt {
				res.Fail("C03/answer-of-another-question", "op %d (%s ingress): %q/TXT cd=%v must carry %q; the reply carries %v (key mask %d bits)", i, ingress, text, op.CD, txt, reply.Answer[0].String(), sc.MaskBits)
				return
			}
		default:
			if len(reply.Answer) != 0 {
				res.Fail("C03/answer-of-another-question", "op %d (%s ingress): %q/%s has no data, yet the reply carries:\n%s", i, ingress, text, dns.TypeToString[op.Type], reply)
				return
			}
		}
		if sc.MaskBits > 0 {
			k := kit.Hash64(0, ident) // stand-in: count distinct questions against the key space
			_ = k
			if len(asked) > 1<<uint(sc.MaskBits) {
				collided++
			}
		}
		_ = keysSeen
	}
	res.SimTime = g.Now()
	res.Probes["served-without-fetch"] += cachedSibling
	if sc.MaskBits > 0 {
		res.Probes["narrow-key-scenarios"]++
	}
	if cachedSibling > 0 || sc.MaskBits > 0 {
		res.Nontrivial = true
	}
}

func shrinkC03(sc any, fails func(any) bool) any {
	cur := sc.(*C03Scenario)
	budget := 150
	cur.Ops = kit.DDMin(cur.Ops, &budget, func(xs []C03Op) bool { c := *cur; c.Ops = xs; return len(xs) > 0 && fails(&c) })
	if cur.MaskBits != 0 {
		c := *cur
		c.MaskBits = 0
		if fails(&c) {
			cur = &c
		}
	}
	return cur
}

// c03Cut runs one step of the subtree-cut recipe. The zone gains below.nx.sq.test. after
// nx.sq.test. was denied: a CD=0 client may keep getting the cached denial (RFC 8020), a
// CD=1 client is in another partition and must get what the zone says now.
func c03Cut(g *world.Ing, op C03Op, i int, client netip.AddrPort, tr *kit.Trace, res *kit.Result) bool {
	ask := func(name string) *dns.Msg {
		q := new(dns.Msg)
		q.SetQuestion(name, dns.TypeA)
		q.Id = uint16(3000 + i)
		q.CheckingDisabled = op.CD
		q.SetEdns0(1232, false)
		if op.Wire {
			raw, _ := q.Pack()
			before := len(g.K.Out)
			g.Send(0, client, raw)
			kit.SleepSettle(6 * time.Second)
			for _, s := range g.K.Out[before:] {
				if len(s.Data) > 2 && int(s.Data[0])<<8|int(s.Data[1]) == 3000+i {
					m := new(dns.Msg)
					if m.Unpack(s.Data) == nil {
						return m
					}
				}
			}
			return nil
		}
		c := g.Res.Ask(client, "udp", q)
		kit.Settle()
		if len(c.Replies) == 1 {
			return c.Replies[0]
		}
		return nil
	}
	ingress := map[bool]string{true: "wire", false: "decoded"}[op.Wire]
	switch op.Cut {
	case "fail":
		m := ask("www.dead.uq.test.")
		if m != nil {
			tr.Add("op %d %s fail www.dead.uq.test. cd=%v -> %s", i, ingress, op.CD, dns.RcodeToString[m.Rcode])
		}
	case "faildotted":
		// (asked once per scenario, between two control questions for fresh names of uq.test.:
		// a SERVFAIL that some other remembered failure explains - of uq.test., test. or the
		// root, whatever caused it - takes a control down with it and is not judged)
		c0 := ask(fmt.Sprintf("ctla%d.uq.test.", i))
		m := ask("x\\.dead.uq.test.")
		if m == nil {
			return true
		}
		tr.Add("op %d %s faildotted x\\.dead.uq.test. cd=%v -> %s an=%d", i, ingress, op.CD, dns.RcodeToString[m.Rcode], len(m.Answer))
		tr.Shape(fmt.Sprintf("faildot:%v:%s:%d", op.CD, ingress, m.Rcode))
		if m.Rcode == dns.RcodeServerFailure {
			c1 := ask(fmt.Sprintf("ctlb%d.uq.test.", i))
			if c0 == nil || c1 == nil || c0.Rcode != dns.RcodeSuccess || c1.Rcode != dns.RcodeSuccess {
				res.Probes["faildotted-servfail-with-failing-control"]++
				return true
			}
			res.Fail("C03/answer-of-another-question", "op %d (%s ingress): x\\.dead.uq.test./A (first label \"x.dead\", a name of uq.test. beside the zone dead.uq.test.) was answered SERVFAIL while fresh names of uq.test. asked just before and just after it were resolved: the remembered failure of dead.uq.test. was applied to a name that is not at or below it\n%s", i, ingress, m)
			return false
		}
		res.Probes["faildotted-answered"]++
	case "deny":
		m := ask("nx.sq.test.")
		if m != nil {
			tr.Add("op %d %s cut/deny nx.sq.test. cd=%v -> %s", i, ingress, op.CD, dns.RcodeToString[m.Rcode])
		}
	case "grow":
		z := g.World.Zones["sq.test."]
		if _, ok := z.Nodes["below.nx.sq.test."]; !ok {
			z.Add("below.nx.sq.test. 300 IN A 10.9.9.9")
		}
		tr.Add("op %d cut/grow below.nx.sq.test. now exists", i)
	case "dotted":
		// a\.nx.sq.test. is one label "a.nx" directly under the apex: a sibling of nx.sq.test.,
		// not a name below it, and the zone holds it
		m := ask("a\\.nx.sq.test.")
		if m == nil {
			return true
		}
		tr.Add("op %d %s cut/dotted a\\.nx.sq.test. cd=%v -> %s an=%d", i, ingress, op.CD, dns.RcodeToString[m.Rcode], len(m.Answer))
		tr.Shape(fmt.Sprintf("cutdot:%v:%s:%d", op.CD, ingress, m.Rcode))
		if m.Rcode == dns.RcodeNameError {
			res.Fail("C03/answer-of-another-question", "op %d (%s ingress): a\\.nx.sq.test./A (first label \"a.nx\", a sibling of nx.sq.test.) was answered NXDOMAIN although the zone holds the name: the subtree cut of nx.sq.test. was applied to a name that is not below it\n%s", i, ingress, m)
			return false
		}
	case "below":
		m := ask("below.nx.sq.test.")
		if m == nil {
			return true
		}
		grown := false
		if _, ok := g.World.Zones["sq.test."].Nodes["below.nx.sq.test."]; ok {
			grown = true
		}
		tr.Add("op %d %s cut/below below.nx.sq.test. cd=%v grown=%v -> %s an=%d", i, ingress, op.CD, grown, dns.RcodeToString[m.Rcode], len(m.Answer))
		tr.Shape(fmt.Sprintf("cut:%v:%s:%d", op.CD, ingress, m.Rcode))
		if grown && op.CD && m.Rcode == dns.RcodeNameError {
			res.Fail("C03/answer-of-another-partition", "op %d (%s ingress): below.nx.sq.test./A with CD=1 was answered NXDOMAIN although the zone holds the name: a denial validated and cached for the CD=0 partition (the subtree cut of nx.sq.test.) answered a CD=1 question\n%s", i, ingress, m)
			return false
		}
	}
	return true
}
