package props

import (
	"fmt"
	"net/netip"
	"strings"
	"time"

	"github.com/miekg/dns"

	mcache "github.com/semihalev/sdns/middleware/cache"

	"verifsim/kit"
	"verifsim/simnet"
	"verifsim/world"
)

// C04 — nothing is served past its lifetime; composed answers inherit the shortest part
// (DESIGN.md §3 C04).
//
// The authoritative servers stamp the instant they answer into the data itself: every host
// A record carries the serving second in its address, every SOA carries it in its serial,
// and signatures are made on the spot with an expiration a fixed number of seconds ahead.
// Whatever reaches a client therefore says how old it is, on any path through the caches
// (answer cache, alias chase, negative cache, subtree cuts, synthesised denials, prefetch).
// A reply whose data is older than the smallest applicable lifetime, whose TTL exceeds the
// time remaining, whose TTL grows between hits, or whose data is older than data already
// served for the same question, is a violation.

type C04Op struct {
	GapMs int    `json:"gap"`
	Name  int    `json:"n"`
	Type  uint16 `json:"t,omitempty"`
	DO    bool   `json:"do,omitempty"`
	CD    bool   `json:"cd,omitempty"`
}

type C04Scenario struct {
	TTL      []uint32 `json:"ttl"`      // per host name
	AliasTTL uint32   `json:"alias_ttl"`
	NSTTL    uint32   `json:"ns_ttl"`   // delegation and apex NS TTL of the leaf zones
	SOATTL   uint32   `json:"soa_ttl"`
	SOAMin   uint32   `json:"soa_min"`
	SigLifeS int      `json:"sig_life_s"` // signatures expire this many seconds after they are made
	Prefetch uint32   `json:"prefetch,omitempty"`
	NoNSEC   bool     `json:"rfc8198_off,omitempty"`
	SlowMs   int      `json:"slow_ms,omitempty"` // upstream latency of the leaf zones (prefetch races)
	// At SOADropAtS seconds of world time the leaf zones lower their SOA TTL and minimum to
	// SOATTL2/SOAMin2 (operators do change them): denial records handed out before carry the
	// old, longer TTL; a denial synthesised from them and the newer SOA inherits the shorter one.
	SOADropAtS int    `json:"soa_drop_at_s,omitempty"`
	SOATTL2    uint32 `json:"soa_ttl2,omitempty"`
	SOAMin2    uint32 `json:"soa_min2,omitempty"`
	Wire     bool     `json:"wire,omitempty"`    // queries enter as datagrams through the UDP engine (wire cache ladder) instead of Server.ServeMsg
	Ops      []C04Op  `json:"ops"`
}

const c04Hosts = 6

func init() {
	kit.Register(&kit.Prop{
		ID:    "C04",
		Level: "exploration",
		Rule: "Scenario = record TTLs (1 s .. 3 days, around the 5 s floor and the 24 h cap), alias TTL, NS TTL of the zone (delegation lease), SOA TTL and " +
			"minimum, signature lifetime (20 s .. days), prefetch threshold, RFC 8198 on/off, upstream latency, ingress (decoded at Server.ServeMsg, or datagrams through the UDP engine so that hits take the wire ladder) + 10-60 queries (hosts, in-zone and " +
			"cross-zone aliases, NXDOMAIN names and names below them, NODATA types; DO/CD variants) at gaps from 0.2 s to 30 h, over a signed and an " +
			"unsigned leaf zone. Non-trivial = at least one reply was served from cached data (no upstream query for it) and one entry expired " +
			"and was refetched. Distinct = hash of per-query (name family, type, from-cache, age bucket, rcode).",
		Assumptions: []string{
			"the serving second is encoded with 1 s resolution: ages are judged with 2 s of slack",
			"the delegation lease is bounded from above by max(5 s, smallest NS TTL on the chain); its exact value (time left on the cached delegation) is the business of C08",
			"signature expiration bounds data of the signed zone only",
		},
		Components: kit.Components{
			Real: []string{"server UDP engine + Server.ServeRaw and the cache wire ladder (about a third of the scenarios)", "whole chain: cache (Msg ladder), negative/denial caches, subtree cuts, alias chase, prefetch, resolver, DNSSEC validation"},
			Stub: []string{"network (simnet)", "authoritative servers (authsim, content stamped with the serving time)", "kernel sockets (simsock) in wire-mode scenarios; in the others the listeners (queries enter at Server.ServeMsg)"},
		},
		Gen:      func(r *kit.RNG, tier string) any { return genC04(r) },
		Blank:    func() any { return &C04Scenario{} },
		Run:      func(sc any, tr *kit.Trace) *kit.Result { return runC04(sc.(*C04Scenario), tr) },
		Shrink:   shrinkC04,
		Warmup:   true, // background prefetch workers run in parallel with more than one P
		PerChunk: 10,
		Quick:    1200,
		Thorough: 100000,
	})
}

func genC04(r *kit.RNG) *C04Scenario {
	sc := &C04Scenario{}
	ttls := []uint32{0, 1, 3, 5, 7, 12, 30, 60, 300, 3600, 86400, 90000, 259200}
	for i := 0; i < c04Hosts; i++ {
		sc.TTL = append(sc.TTL, kit.Pick(r, ttls))
	}
	sc.AliasTTL = kit.Pick(r, ttls)
	sc.NSTTL = kit.Pick(r, []uint32{3, 10, 30, 600, 3600, 86400, 172800})
	sc.SOATTL = kit.Pick(r, []uint32{1, 5, 30, 300, 3600, 90000})
	sc.SOAMin = kit.Pick(r, []uint32{0, 3, 10, 60, 300, 3600, 100000})
	sc.SigLifeS = kit.Pick(r, []int{20, 45, 120, 3600, 86400 * 30})
	if r.Chance(0.3) {
		sc.Prefetch = kit.Pick(r, []uint32{10, 50, 90})
	}
	sc.NoNSEC = r.Chance(0.4)
	sc.Wire = r.Chance(0.35)
	if r.Chance(0.3) {
		sc.SlowMs = kit.Pick(r, []int{300, 1200})
	}
	if r.Chance(0.15) {
		// denial recipe: a denial record cached with the zone's old, long negative TTL; the zone
		// lowers it; another denial brings the newer SOA; a third name is then denied from the
		// old record and the new SOA (RFC 8198), and must inherit the new SOA's short lifetime
		sc.SOATTL, sc.SOAMin, sc.SOADropAtS, sc.SOATTL2, sc.SOAMin2 = 3600, 3600, 60, 20, kit.Pick(r, []uint32{20, 12, 30})
		sc.NSTTL, sc.SigLifeS, sc.NoNSEC, sc.SlowMs = 86400, 86400*30, false, 0
		do := r.Chance(0.5)
		sc.Ops = append(sc.Ops, C04Op{GapMs: 1000, Name: 19, DO: do}, C04Op{GapMs: 61000, Name: 20, DO: do}, C04Op{GapMs: 2000, Name: 21, DO: do},
			C04Op{GapMs: kit.Pick(r, []int{4000, 11000}), Name: 21, DO: r.Chance(0.5)}, C04Op{GapMs: 31000, Name: 21, DO: do})
	}
	if r.Chance(0.15) {
		// composed-lifetime recipe: a short-lived target (host1.plain.test.) is cached through a
		// delegation whose lease ends at quite another time than the record; the cross-zone alias
		// far.sig.test. -> host1.plain.test. is then resolved fresh (its zone sends the CNAME
		// alone) and completed from the cache; asked again once the target has run out, the
		// composition must have run out with it, whatever the alias's own TTL and the lease say
		sc.TTL[1] = kit.Pick(r, []uint32{7, 12, 30})
		sc.AliasTTL = kit.Pick(r, []uint32{3600, 90000})
		sc.NSTTL = kit.Pick(r, []uint32{600, 3600, 86400})
		sc.SlowMs = 0
		do := r.Chance(0.5)
		sc.Ops = append(sc.Ops, C04Op{GapMs: 1000, Name: 7, DO: do}, C04Op{GapMs: kit.Pick(r, []int{900, 2000, 4000}), Name: 13, DO: do},
			C04Op{GapMs: int(sc.TTL[1])*1000 + kit.Pick(r, []int{200, 2000}), Name: 13, DO: do}, C04Op{GapMs: 4000, Name: 13, DO: r.Chance(0.5)})
	}
	if len(sc.Ops) == 0 && r.Chance(0.15) {
		// cut-completed alias recipe: nx.sig.test. is denied (validated, so the denial also cuts
		// the subtree below it) through a delegation with a short lease; while that is live the
		// alias cut.plain.test. -> a.b.nx.sig.test., of a zone whose own lease began later, is
		// resolved and completed from the cut. Asked again after the lease that granted the
		// denial has ended - the alias's TTL, the negative TTL and its own zone's lease all still
		// running - the composition must have ended with the cut.
		L := kit.Pick(r, []int{10, 30})
		sc.NSTTL, sc.SOATTL, sc.SOAMin, sc.SigLifeS, sc.AliasTTL, sc.SlowMs = uint32(L), 3600, 3600, 86400*30, 3600, 0
		do := r.Chance(0.5)
		sc.Ops = append(sc.Ops, C04Op{GapMs: 1000, Name: 15, DO: do}, C04Op{GapMs: L * 800, Name: 22, DO: do},
			C04Op{GapMs: L*200 + kit.Pick(r, []int{3500, 4500}), Name: 22, DO: do}, C04Op{GapMs: 1500, Name: 22, DO: r.Chance(0.5)})
	}
	if len(sc.Ops) == 0 && r.Chance(0.15) {
		// alias-to-no-data recipe: an alias with a long TTL whose target lacks the asked type, in
		// a zone whose SOA minimum is far below the SOA's own TTL. The reply is a success by
		// rcode, its "no data" half lives for the negative TTL only: asked again after that, the
		// composition must not still come from the cache with the old SOA.
		sc.SOATTL, sc.SOAMin, sc.AliasTTL, sc.NSTTL, sc.SigLifeS, sc.SlowMs = 3600, kit.Pick(r, []uint32{10, 20, 30}), 3600, 86400, 86400*30, 0
		do := r.Chance(0.5)
		nm := kit.Pick(r, []int{12, 13, 14})
		ty := kit.Pick(r, []uint16{dns.TypeTXT, dns.TypeAAAA, dns.TypeMX})
		sc.Ops = append(sc.Ops, C04Op{GapMs: 1000, Name: nm, Type: ty, DO: do}, C04Op{GapMs: 4000, Name: nm, Type: ty, DO: do},
			C04Op{GapMs: int(sc.SOAMin)*1000 + kit.Pick(r, []int{0, 3000}), Name: nm, Type: ty, DO: do}, C04Op{GapMs: 5000, Name: nm, Type: ty, DO: r.Chance(0.5)})
	}
	pool := []int{r.Intn(c04NameCount), r.Intn(c04NameCount), r.Intn(c04NameCount)}
	gaps := []int{200, 900, 1000, 2000, 4000, 4900, 5100, 6000, 11000, 29000, 31000, 61000, 299000, 301000, 3600000, 86390000, 86410000, 108000000}
	n := r.Range(10, 60)
	for i := 0; i < n; i++ {
		op := C04Op{GapMs: kit.Pick(r, gaps), Name: kit.Pick(r, pool), DO: r.Chance(0.5), CD: r.Chance(0.1)}
		if r.Chance(0.15) {
			op.Name = r.Intn(c04NameCount)
		}
		if r.Chance(0.6) {
			op.GapMs = kit.Pick(r, gaps[:9])
		}
		if r.Chance(0.15) {
			op.Type = kit.Pick(r, []uint16{dns.TypeAAAA, dns.TypeTXT, dns.TypeMX})
		}
		sc.Ops = append(sc.Ops, op)
	}
	return sc
}

// names: [0,6) hostK.sig.test. | [6,12) hostK.plain.test. | 12 alias.sig -> host0.sig | 13 far.sig -> host1.plain
// | 14 alias.plain -> host2.plain | 15 nx.sig | 16 a.b.nx.sig | 17 nx.plain | 18 a.nx.plain | 22 cut.plain -> a.b.nx.sig
const c04NameCount = 23

func c04Name(i int) string {
	switch {
	case i < 6:
		return fmt.Sprintf("host%d.sig.test.", i)
	case i < 12:
		return fmt.Sprintf("host%d.plain.test.", i-6)
	}
	// 19-21: absent names whose proofs use different NSEC records: x/y.host0 need only the one at
	// host0 (it also covers their wildcard), gg needs far->host0 and the apex record
	return []string{"alias.sig.test.", "far.sig.test.", "alias.plain.test.", "nx.sig.test.", "a.b.nx.sig.test.", "nx.plain.test.", "a.nx.plain.test.", "x.host0.sig.test.", "gg.sig.test.", "y.host0.sig.test.", "cut.plain.test."}[i-12]
}

func c04Clamp(ttl uint32) time.Duration {
	if ttl < 5 {
		ttl = 5
	}
	if ttl > 86400 {
		ttl = 86400
	}
	return time.Duration(ttl) * time.Second
}

func runC04(sc *C04Scenario, tr *kit.Trace) *kit.Result {
	res := kit.NewResult()
	kit.Bubble(func() { c04Run(sc, tr, res) })
	return res
}

func c04Run(sc *C04Scenario, tr *kit.Trace, res *kit.Result) {
	var sigRecs, plainRecs []string
	for i := 0; i < c04Hosts; i++ {
		ttl := sc.TTL[i%len(sc.TTL)]
		sigRecs = append(sigRecs, fmt.Sprintf("host%d.sig.test. %d IN A 10.0.0.0", i, ttl))
		plainRecs = append(plainRecs, fmt.Sprintf("host%d.plain.test. %d IN A 10.0.0.0", i, ttl))
	}
	sigRecs = append(sigRecs, fmt.Sprintf("alias.sig.test. %d IN CNAME host0.sig.test.", sc.AliasTTL), fmt.Sprintf("far.sig.test. %d IN CNAME host1.plain.test.", sc.AliasTTL))
	plainRecs = append(plainRecs, fmt.Sprintf("alias.plain.test. %d IN CNAME host2.plain.test.", sc.AliasTTL), fmt.Sprintf("cut.plain.test. %d IN CNAME a.b.nx.sig.test.", sc.AliasTTL))
	spec := &world.Spec{
		Zones: []world.ZoneSpec{
			{Name: ".", Signed: true, Alg: dns.ED25519, KeyIdx: 1, NSNames: []string{"a.root-servers.net."}, Addrs: []string{"198.41.0.4"}, NSTTL: 518400},
			{Name: "test.", Signed: true, Secure: true, Alg: dns.ED25519, KeyIdx: 2, NSNames: []string{"ns.test."}, Addrs: []string{"192.0.9.1"}, NSTTL: 172800, DSTTL: 86400},
			{Name: "sig.test.", Signed: true, Secure: true, Alg: dns.ED25519, KeyIdx: 3, NSNames: []string{"ns.sig.test."}, Addrs: []string{"192.0.9.2"},
				NSTTL: sc.NSTTL, DSTTL: sc.NSTTL, SOAMin: sc.SOAMin, Records: sigRecs},
			{Name: "plain.test.", NSNames: []string{"ns.plain.test."}, Addrs: []string{"192.0.9.3"}, NSTTL: sc.NSTTL, SOAMin: sc.SOAMin, Records: plainRecs},
		},
		Cfg: world.CfgSpec{Prefetch: sc.Prefetch, RFC8198Off: sc.NoNSEC, Expire: 600},
	}
	var r *world.Res
	var g *world.Ing
	if sc.Wire {
		// a pool that never queues: a reply delayed behind busy workers would carry older TTLs
		var err error
		g, err = world.NewIng(spec, world.IngSpec{Workers: 64, Queue: 64, Sockets: 1, Spare: 64}, 4, tr)
		if err != nil {
			res.Fail("C04/harness", "listener: %v", err)
			return
		}
		defer g.Close()
		r = g.Res
		wireBefore := mcache.VerifWireCounters()
		defer func() {
			for k, v := range mcache.VerifWireCounters() {
				if d := v - wireBefore[k]; d > 0 {
					res.Probes["wire-ladder:"+k] += int(d)
				}
			}
		}()
	} else {
		r = world.NewRes(spec, 4, tr)
		defer r.Close()
	}
	leaf := map[string]bool{"sig.test.": true, "plain.test.": true}
	for name := range leaf {
		z := r.World.Zones[name]
		z.SOATTL = sc.SOATTL
		if soa, ok := z.Nodes[name][dns.TypeSOA]; ok && len(soa) == 1 {
			soa[0].Header().Ttl = sc.SOATTL
			soa[0].(*dns.SOA).Minttl = sc.SOAMin
		}
	}
	if sc.SlowMs > 0 {
		r.Net.SetFaults([]simnet.Fault{{Kind: "delay", Addr: "192.0.9.2", Delay: time.Duration(sc.SlowMs) * time.Millisecond}, {Kind: "delay", Addr: "192.0.9.3", Delay: time.Duration(sc.SlowMs) * time.Millisecond}})
	}
	sigLife := time.Duration(sc.SigLifeS) * time.Second
	stamp := func() uint32 { return uint32(r.Now() / time.Second) }
	// upstream queries for leaf data, by question, with their time
	type fetch struct{ at time.Duration }
	fetched := map[string][]time.Duration{}
	r.PreServe = func(addr netip.Addr, q *simnet.Query) {
		now := stamp()
		for name := range leaf {
			z := r.World.Zones[name]
			for owner, types := range z.Nodes {
				if strings.HasPrefix(owner, "host") {
					for _, rr := range types[dns.TypeA] {
						rr.(*dns.A).A = []byte{10, byte(now >> 16), byte(now >> 8), byte(now)}
					}
				}
			}
			soaRR := z.Nodes[name][dns.TypeSOA][0].(*dns.SOA)
			if sc.SOADropAtS > 0 && int(now) >= sc.SOADropAtS {
				z.SOATTL, z.SOAMin = sc.SOATTL2, sc.SOAMin2
				soaRR.Hdr.Ttl, soaRR.Minttl = sc.SOATTL2, sc.SOAMin2
			}
			z.Nodes[name][dns.TypeSOA][0].(*dns.SOA).Serial = now
			z.SigFrom = kit.Epoch.Add(-time.Hour)
			z.SigTo = kit.Epoch.Add(time.Duration(now)*time.Second + sigLife)
		}
		if q.Msg != nil && len(q.Msg.Question) == 1 {
			k := strings.ToLower(q.Msg.Question[0].Name) + "/" + dns.TypeToString[q.Msg.Question[0].Qtype]
			fetched[k] = append(fetched[k], r.Now())
		}
	}
	kit.SleepSettle(3 * time.Second)
	client := netip.MustParseAddrPort("10.4.0.1:4444")
	type seen struct {
		stamp uint32
		ttl   uint32
		at    time.Duration
		hit   bool // served without any upstream packet
	}
	last := map[string]seen{} // per question partition: newest data served so far
	var deferred *kit.Violation // the known first-reply finding does not end the scenario
	cacheServed, refetched := 0, 0
	for i, op := range sc.Ops {
		kit.SleepSettle(time.Duration(op.GapMs) * time.Millisecond)
		name := c04Name(op.Name % c04NameCount)
		qt := op.Type
		if qt == 0 {
			qt = dns.TypeA
		}
		q := new(dns.Msg)
		q.SetQuestion(name, qt)
		q.Id = uint16(4000 + i)
		q.SetEdns0(1232, op.DO)
		q.CheckingDisabled = op.CD
		before := r.Net.SentCount()
		askStart := r.Now()
		netAskStart := r.Net.Now()
		var replies []*dns.Msg
		if g != nil {
			raw, err := q.Pack()
			if err != nil {
				res.Fail("C04/harness", "pack: %v", err)
				return
			}
			seenOut := len(g.K.Out)
			g.Send(0, client, raw)
			kit.Settle()
			for waited := 0; waited < 200 && len(g.K.Out) == seenOut; waited++ {
				kit.SleepSettle(100 * time.Millisecond) // the worker pool answers on its own goroutines
			}
			for _, s := range g.K.Out[seenOut:] {
				rm := new(dns.Msg)
				if s.To == client && rm.Unpack(s.Data) == nil && rm.Id == q.Id {
					replies = append(replies, rm)
				}
			}
		} else {
			replies = r.Ask(client, "udp", q).Replies
			kit.Settle()
		}
		now := r.Now()
		upstream := r.Net.SentCount() - before
		if len(replies) != 1 {
			tr.Add("op %d %s/%s: %d replies", i, name, dns.TypeToString[qt], len(replies))
			continue
		}
		m := replies[0]
		// the zone chain's smallest NS TTL bounds the lease from above
		lease := c04Clamp(sc.NSTTL)
		if sc.NSTTL > 86400 {
			lease = time.Duration(sc.NSTTL) * time.Second
		}
		if lease < 5*time.Second {
			lease = 5 * time.Second
		}
		judge := func(what string, st uint32, shown uint32, ttlZone uint32, sigBound bool) bool {
			age := now - time.Duration(st)*time.Second
			life := c04Clamp(ttlZone)
			if lease < life {
				life = lease
			}
			if sigBound && sigLife < life {
				life = sigLife
			}
			// 1 s of stamp resolution, and the time the answer spent on the wire: a resolver
			// starts an RRset's clock when it receives it, not when the authority sent it
			slack := 2*time.Second + time.Duration(sc.SlowMs)*time.Millisecond
			tr.Add("op %d t=%v %s/%s do=%v cd=%v -> %s: %s stamped %ds (age %v), TTL shown %d, lifetime %v, upstream=%d", i, now, name, dns.TypeToString[qt], op.DO, op.CD, dns.RcodeToString[m.Rcode], what, st, age.Round(time.Second), shown, life, upstream)
			tr.Shape(fmt.Sprintf("%d:%d:%v:%d:%d", op.Name, qt, upstream == 0, age/(5*time.Second), m.Rcode))
			if age > life+slack {
				res.Fail("C04/served-past-lifetime", "op %d at %v: %s/%s (DO=%v CD=%v) was answered with %s made at %ds, i.e. %v old; its lifetime is %v (record TTL %d -> %v, delegation lease <= %v, signatures %v%s)\n%s",
					i, now, name, dns.TypeToString[qt], op.DO, op.CD, what, st, age.Round(time.Second), life, ttlZone, c04Clamp(ttlZone), lease, sigLife, map[bool]string{true: "", false: " (not applicable)"}[sigBound], m)
				return false
			}
			// "just fetched" = the authority produced the data while this query was being served
			// (also true for a query that joined a lookup already in flight, e.g. a prefetch)
			if time.Duration(shown)*time.Second > life-age+slack && age <= now-askStart+slack {
				// the answer was just fetched: the reply relays the authority's TTL
				which := "the 24 h cap"
				switch {
				case sigBound && sigLife <= life:
					which = "the signature expiration"
				case lease <= life && lease < c04Clamp(ttlZone):
					which = "the delegation lease"
				case strings.Contains(what, "negative"):
					which = "the SOA negative TTL"
				}
				if deferred == nil {
					deferred = &kit.Violation{Class: "C04/fresh-answer-ttl-above-lifetime", Detail: fmt.Sprintf("op %d at %v: %s/%s was just resolved (%d upstream packets during the query); %s has lifetime %v (bounded by %s) yet the reply shows TTL %d", i, now, name, dns.TypeToString[qt], upstream, what, life, which, shown)}
				}
				shown = 0 // judged; the remaining rules see it as within bounds
			}
			if time.Duration(shown)*time.Second > life-age+slack {
				res.Fail("C04/ttl-exceeds-time-remaining", "op %d at %v: %s/%s: %s is %v old with lifetime %v, yet the reply shows TTL %d\n%s", i, now, name, dns.TypeToString[qt], what, age.Round(time.Second), life, shown, m)
				return false
			}
			part := fmt.Sprintf("%s/%d/%v/%v/%s", strings.ToLower(name), qt, op.CD, op.DO, what)
			// Monotonicity is a statement about one stored entry: it is judged for direct
			// questions only. A composed reply (alias + target) draws on two entries, and a
			// target record relayed inside a fresh alias answer is not stored under the
			// target's key, so a later composition may rightly show the older stored target.
			// The same goes for the "no data" at the end of an alias: it is the target's negative
			// entry (or a denial synthesised from cached proofs), composed under the alias's
			// question - two such pieces of different age can even appear side by side in one
			// reply, and the next reply may show only the older one. Each is within its lifetime.
			isAlias := strings.HasPrefix(strings.ToLower(name), "alias.") || strings.HasPrefix(strings.ToLower(name), "far.") || strings.HasPrefix(strings.ToLower(name), "cut.")
			direct := strings.Contains(what, strings.ToLower(name)) || (strings.Contains(what, "negative") && !isAlias)
			if prev, ok := last[part]; ok && direct {
				if st < prev.stamp {
					res.Fail("C04/older-data-after-newer", "op %d at %v: %s/%s: %s made at %ds was served after data made at %ds had been served for the same question (at %v)", i, now, name, dns.TypeToString[qt], what, st, prev.stamp, prev.at)
					return false
				}
				if st == prev.stamp && shown > prev.ttl && upstream == 0 && age > slack && prev.hit {
					res.Fail("C04/ttl-grew-between-hits", "op %d at %v: %s/%s: the same stored %s (made at %ds) showed TTL %d at %v and now shows %d", i, now, name, dns.TypeToString[qt], what, st, prev.ttl, prev.at, shown)
					return false
				}
				if st > prev.stamp {
					refetched++
				}
			}
			// a proven hit: no upstream packet during the query AND data too old to have come
			// from a lookup this query merely joined (another query's or a prefetch's)
			last[part] = seen{st, shown, now, upstream == 0 && age > slack}
			if upstream == 0 {
				cacheServed++
			}
			return true
		}
		ok := true
		for _, rr := range m.Answer {
			if a, isA := rr.(*dns.A); isA && strings.HasPrefix(strings.ToLower(a.Hdr.Name), "host") && len(a.A.To4()) == 4 {
				ip := a.A.To4()
				st := uint32(ip[1])<<16 | uint32(ip[2])<<8 | uint32(ip[3])
				var k int
				fmt.Sscanf(strings.ToLower(a.Hdr.Name), "host%d.", &k)
				ownerSigned := strings.HasSuffix(strings.ToLower(a.Hdr.Name), ".sig.test.")
				ok = judge("the address of "+strings.ToLower(a.Hdr.Name), st, a.Hdr.Ttl, sc.TTL[k%len(sc.TTL)], ownerSigned)
			}
			if !ok {
				return
			}
		}
		// composed answers: every record of the reply is bounded by the shortest piece
		if len(m.Answer) > 1 && m.Rcode == dns.RcodeSuccess {
			if c0, isC := m.Answer[0].(*dns.CNAME); isC {
				// An alias fetched by this very query and completed with a target that was already
				// in the cache: what is stored (and shown) for the alias inherits the target's
				// remaining lifetime, the shortest piece - not the alias's own TTL, nor the lease
				// of the delegation the target was learnt through.
				fetched := map[string]bool{}
				for _, sn := range r.Net.Canonical() {
					// (a query that left at the very instant the reply was seen is a background
					// refresh started by a cache hit, not what this reply was built from)
					if sn.At >= netAskStart && sn.Qtype == qt && sn.At < r.Net.Now()-time.Millisecond {
						fetched[strings.ToLower(sn.Name)] = true
					}
				}
				if last, isA := m.Answer[len(m.Answer)-1].(*dns.A); isA && strings.EqualFold(c0.Hdr.Name, name) &&
					fetched[strings.ToLower(c0.Hdr.Name)] && !fetched[strings.ToLower(last.Hdr.Name)] && strings.EqualFold(c0.Target, last.Hdr.Name) &&
					len(last.A.To4()) == 4 && time.Duration(uint32(last.A.To4()[1])<<16|uint32(last.A.To4()[2])<<8|uint32(last.A.To4()[3]))*time.Second < askStart-time.Second {
					// (the target's data carries the second it was made in: made before this query
					// began, so it did not arrive inside the alias's own upstream answer)
					res.Probes["fresh-alias-completed-from-cache"]++
					if c0.Hdr.Ttl > last.Hdr.Ttl+1 {
						res.Fail("C04/recached-alias-outlives-cached-piece", "op %d at %v: %s was fetched by this query and completed with %s from the cache, which has %d s left; the alias is shown (and kept) with TTL %d", i, now, c0.Hdr.Name, last.Hdr.Name, last.Hdr.Ttl, c0.Hdr.Ttl)
						return
					}
				}
				for _, rr := range m.Answer {
					if rr.Header().Rrtype == dns.TypeCNAME && time.Duration(rr.Header().Ttl)*time.Second > c04Clamp(sc.AliasTTL) && upstream > 0 {
						if deferred == nil {
							deferred = &kit.Violation{Class: "C04/fresh-answer-ttl-above-lifetime", Detail: fmt.Sprintf("op %d at %v: %s was just resolved (%d upstream packets); the alias %s has lifetime %v (bounded by the 24 h cap) yet the reply shows TTL %d", i, now, name, upstream, rr.Header().Name, c04Clamp(sc.AliasTTL), rr.Header().Ttl)}
						}
						continue
					}
					if rr.Header().Rrtype == dns.TypeCNAME && time.Duration(rr.Header().Ttl)*time.Second > c04Clamp(sc.AliasTTL) {
						res.Fail("C04/ttl-exceeds-time-remaining", "op %d: the alias %s has TTL %d in the zone (lifetime %v) but is shown with TTL %d", i, rr.Header().Name, sc.AliasTTL, c04Clamp(sc.AliasTTL), rr.Header().Ttl)
						return
					}
				}
			}
		}
		for _, rr := range m.Ns {
			if soa, isSOA := rr.(*dns.SOA); isSOA && leaf[strings.ToLower(soa.Hdr.Name)] {
				neg := sc.SOATTL
				if sc.SOAMin < neg {
					neg = sc.SOAMin
				}
				if sc.SOADropAtS > 0 && int(soa.Serial) >= sc.SOADropAtS {
					// this SOA was made after the zone lowered its negative TTLs
					neg = sc.SOATTL2
					if sc.SOAMin2 < neg {
						neg = sc.SOAMin2
					}
				}
				if !judge("the SOA of "+strings.ToLower(soa.Hdr.Name)+" (negative answer)", soa.Serial, soa.Hdr.Ttl, neg, strings.ToLower(soa.Hdr.Name) == "sig.test.") {
					return
				}
			}
		}
	}
	res.SimTime = r.Now()
	if res.Viol == nil && deferred != nil {
		res.Viol = deferred
	}
	res.Probes["served-from-cache"] += cacheServed
	res.Probes["refetched-after-expiry"] += refetched
	if cacheServed > 0 && refetched > 0 {
		res.Nontrivial = true
	}
}

func shrinkC04(sc any, fails func(any) bool) any {
	cur := sc.(*C04Scenario)
	budget := 150
	cur.Ops = kit.DDMin(cur.Ops, &budget, func(xs []C04Op) bool { c := *cur; c.Ops = xs; return len(xs) > 0 && fails(&c) })
	for _, f := range []func(c *C04Scenario){
		func(c *C04Scenario) { c.Prefetch = 0 },
		func(c *C04Scenario) { c.SlowMs = 0 },
		func(c *C04Scenario) { c.NoNSEC = true },
		func(c *C04Scenario) { c.SigLifeS = 86400 * 30 },
		func(c *C04Scenario) { c.NSTTL = 86400 },
	} {
		c := *cur
		f(&c)
		if fails(&c) {
			cur = &c
		}
	}
	return cur
}
