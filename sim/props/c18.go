package props

import (
	"fmt"
	"net/netip"
	"sort"
	"strings"
	"time"

	"github.com/anishathalye/porcupine"
	"github.com/miekg/dns"
	"github.com/semihalev/sdns/config"
	"github.com/semihalev/sdns/middleware"
	"github.com/semihalev/sdns/middleware/blocklist"
	"github.com/semihalev/sdns/verifx/verifos"
	"github.com/semihalev/sdns/verifx/verifsync"

	"verifsim/kit"
	"verifsim/simdisk"
	"verifsim/world"
)

// C18 — blocklist matching is exact and its persisted form converges to memory
// (DESIGN.md §3 C18).
//
// Phase 1 (W-res, sequential): the full middleware chain with a generated block/white
// list; API mutations and client queries alternate. Every reply is compared with a
// reference matcher written over label lists, and blocked queries must cause no upstream
// packet and leave nothing in the cache (the same question resolves for real as soon as
// the entry is removed, and is blocked as soon as an entry is added over a cached answer).
//
// Phase 2 (BlockList alone, cooperative scheduler + simulated disk): K tasks run API
// mutations concurrently under a seeded schedule while the disk injects errors or a crash
// at a chosen operation. The API history is checked for linearizability; the persisted
// file is compared with the memory states the critical sections left behind (read by the
// scheduler's release hook), and a fresh BlockList is loaded from the surviving directory.

type C18Op struct {
	Kind string   `json:"k"` // set remove setbatch removebatch exists
	Keys []string `json:"keys"`
}

type C18Step struct {
	Op   *C18Op `json:"op,omitempty"`
	Q    string `json:"q,omitempty"`
	Type uint16 `json:"t,omitempty"`
}

type C18Scenario struct {
	Block    []string        `json:"block,omitempty"`
	White    []string        `json:"white,omitempty"`
	Steps    []C18Step       `json:"steps,omitempty"`
	PreFile  []string        `json:"prefile,omitempty"`
	Tasks    [][]C18Op       `json:"tasks,omitempty"`
	Schedule []int           `json:"schedule,omitempty"`
	Faults   []simdisk.Fault `json:"faults,omitempty"`
	Flush    string          `json:"flush,omitempty"`
}

func init() {
	kit.Register(&kit.Prop{
		ID:    "C18",
		Level: "exploration",
		Rule: "Scenario = block/white lists over a 4-label alphabet (parents, children, wildcards, mixed case, rare escaped dots) + " +
			"a sequential script of API calls and client queries through the whole chain + a concurrent script (per-task API calls, " +
			"schedule, disk faults by operation index: eio/enospc/short/syncfail/renamefail/crash with lose/keep/torn). " +
			"Non-trivial = a blocked reply was served, or two tasks' persists overlapped (a snapshot was dropped as stale), or a fault fired. " +
			"Distinct = hash of (reply classes, API outcomes, persisted versions, fault kinds).",
		Assumptions: []string{
			"the entries '.' and '*.' (root as a list entry) are not generated: no deployment lists the root",
			"map iteration in the simulation binary is deterministic (fixed hash seeds), so the order of lines in the persisted file is a function of the scenario",
			"a crash loses exactly what simdisk's lose/keep/torn modes say (torn = half of the unsynced bytes)",
		},
		Components: kit.Components{
			Real: []string{"middleware/blocklist (matching, API mutations, snapshot/persist, loader)", "the whole middleware chain and resolver in phase 1"},
			Stub: []string{"disk (simdisk)", "goroutine scheduling in phase 2 (cooperative scheduler at lock granularity)", "authoritative servers (authsim)", "HTTP API layer (BlockList methods are called directly)"},
		},
		Gen:      func(r *kit.RNG, tier string) any { return genC18(r) },
		Blank:    func() any { return &C18Scenario{} },
		Run:      func(sc any, tr *kit.Trace) *kit.Result { return runC18(sc.(*C18Scenario), tr) },
		Shrink:   shrinkC18,
		PerChunk: 40,
		Quick:    6400,
		Thorough: 120000,
	})
}

// ---------------------------------------------------------------- generator

var c18Labels = []string{"a", "b", "ab", "c"}

func c18Name(r *kit.RNG) string {
	n := r.Range(1, 3)
	var ls []string
	for i := 0; i < n; i++ {
		l := kit.Pick(r, c18Labels)
		if r.Chance(0.03) {
			l = `a\.b` // one label containing a dot
		}
		ls = append(ls, l)
	}
	ls = append(ls, kit.Pick(r, []string{"test", "test", "test", "example"}))
	return strings.Join(ls, ".")
}

func c18Case(r *kit.RNG, s string) string {
	if !r.Chance(0.3) {
		return s
	}
	b := []byte(s)
	for i := range b {
		if b[i] >= 'a' && b[i] <= 'z' && r.Chance(0.4) {
			b[i] -= 32
		}
	}
	return string(b)
}

func c18Entry(r *kit.RNG) string {
	e := c18Name(r)
	if r.Chance(0.08) {
		e = kit.Pick(r, []string{"test", "example"})
	}
	if r.Chance(0.3) {
		e = "*." + e
	}
	e = c18Case(r, e)
	if r.Chance(0.5) {
		e += "."
	}
	return e
}

func c18GenOp(r *kit.RNG, pool []string) C18Op {
	pick := func() string {
		if len(pool) > 0 && r.Chance(0.6) {
			return kit.Pick(r, pool)
		}
		return c18Entry(r)
	}
	switch r.Intn(10) {
	case 0, 1, 2:
		return C18Op{Kind: "set", Keys: []string{pick()}}
	case 3, 4:
		return C18Op{Kind: "remove", Keys: []string{pick()}}
	case 5, 6:
		n := r.Range(2, 4)
		var ks []string
		for i := 0; i < n; i++ {
			ks = append(ks, pick())
		}
		return C18Op{Kind: "setbatch", Keys: ks}
	case 7:
		n := r.Range(2, 3)
		var ks []string
		for i := 0; i < n; i++ {
			ks = append(ks, pick())
		}
		return C18Op{Kind: "removebatch", Keys: ks}
	default:
		return C18Op{Kind: "exists", Keys: []string{c18Case(r, c18Name(r))}}
	}
}

func genC18(r *kit.RNG) *C18Scenario {
	sc := &C18Scenario{}
	var pool []string
	for i, n := 0, r.Intn(5); i < n; i++ {
		e := c18Entry(r)
		sc.Block = append(sc.Block, e)
		pool = append(pool, e)
	}
	for i, n := 0, r.Intn(3); i < n; i++ {
		e := c18Case(r, c18Name(r)) // whitelist entries are plain names
		if r.Chance(0.2) {
			e = "test"
		}
		sc.White = append(sc.White, e)
	}
	for i := 0; i < 4; i++ {
		pool = append(pool, c18Entry(r))
	}
	// phase 1
	types := []uint16{dns.TypeA, dns.TypeA, dns.TypeAAAA, dns.TypeTXT, dns.TypeMX, dns.TypeNS}
	for i, n := 0, r.Range(4, 14); i < n; i++ {
		if r.Chance(0.35) {
			op := c18GenOp(r, pool)
			sc.Steps = append(sc.Steps, C18Step{Op: &op})
			continue
		}
		q := c18Name(r)
		if len(pool) > 0 && r.Chance(0.5) {
			// a name at, below or beside a listed entry
			e := strings.TrimSuffix(strings.TrimPrefix(strings.ToLower(kit.Pick(r, pool)), "*."), ".")
			switch r.Intn(5) {
			case 0:
				q = e
			case 4:
				q = kit.Pick(r, c18Labels) + `\.` + e // one label with a dot in it: ends in the entry's text, is not below it
			case 1:
				q = kit.Pick(r, c18Labels) + "." + e
			case 2:
				q = kit.Pick(r, c18Labels) + "." + kit.Pick(r, c18Labels) + "." + e
			default:
				q = kit.Pick(r, c18Labels) + e // same suffix bytes, different label
			}
		}
		sc.Steps = append(sc.Steps, C18Step{Q: c18Case(r, q), Type: kit.Pick(r, types)})
	}
	// phase 2
	for i, n := 0, r.Intn(4); i < n; i++ {
		sc.PreFile = append(sc.PreFile, strings.ToLower(strings.TrimSuffix(c18Entry(r), "."))+".")
	}
	ntasks := r.Range(1, 4)
	for t := 0; t < ntasks; t++ {
		var ops []C18Op
		for i, n := 0, r.Range(1, 4); i < n; i++ {
			ops = append(ops, c18GenOp(r, pool))
		}
		sc.Tasks = append(sc.Tasks, ops)
	}
	p := kit.Pick(r, []float64{0.05, 0.3, 0.8})
	for i, n := 0, r.Range(10, 80); i < n; i++ {
		if r.Chance(p) {
			sc.Schedule = append(sc.Schedule, r.Range(1, ntasks))
		} else {
			sc.Schedule = append(sc.Schedule, 0)
		}
	}
	switch r.Intn(5) {
	case 0, 1: // fault-free
	case 2, 3: // a crash somewhere inside the persists
		sc.Faults = append(sc.Faults, simdisk.Fault{Op: r.Intn(40), Kind: "crash", Persist: kit.Pick(r, []string{"lose", "keep", "torn"})})
	default:
		for i, n := 0, r.Range(1, 3); i < n; i++ {
			sc.Faults = append(sc.Faults, simdisk.Fault{Op: r.Intn(40), Kind: kit.Pick(r, []string{"eio", "enospc", "short", "syncfail", "renamefail", "eacces"})})
		}
	}
	sc.Flush = "zz." + kit.Pick(r, c18Labels) + ".test"
	return sc
}

// ---------------------------------------------------------------- reference

type c18Ref struct {
	plain, wild, white map[string]bool // keys: canonical label lists joined with "\x00"
}

func c18Key(labels []string) string { return strings.Join(labels, "\x00") }

func c18Labelize(name string) []string {
	ls := dns.SplitDomainName(dns.CanonicalName(name))
	return ls
}

func newC18Ref(block, white []string) *c18Ref {
	m := &c18Ref{plain: map[string]bool{}, wild: map[string]bool{}, white: map[string]bool{}}
	for _, w := range white {
		m.white[c18Key(c18Labelize(w))] = true
	}
	for _, b := range block {
		m.set(b)
	}
	return m
}

func (m *c18Ref) whitelisted(ls []string) bool {
	for i := 0; i <= len(ls); i++ {
		if i < len(ls) && m.white[c18Key(ls[i:])] {
			return true
		}
	}
	return false
}

func (m *c18Ref) set(key string) bool {
	ls := c18Labelize(key)
	if len(ls) >= 2 && ls[0] == "*" {
		// the whitelist test is made on the entry as written
		if m.whitelisted(ls) {
			return false
		}
		m.wild[c18Key(ls[1:])] = true
		return true
	}
	if m.whitelisted(ls) {
		return false
	}
	m.plain[c18Key(ls)] = true
	return true
}

func (m *c18Ref) remove(key string) bool {
	ls := c18Labelize(key)
	if m.plain[c18Key(ls)] {
		delete(m.plain, c18Key(ls))
		return true
	}
	if len(ls) >= 2 && ls[0] == "*" && m.wild[c18Key(ls[1:])] {
		delete(m.wild, c18Key(ls[1:]))
		return true
	}
	return false
}

// blocked is the property's definition: the name or a parent is a plain entry, or a
// strict parent is a wildcard entry, and neither the name nor a parent is whitelisted.
func (m *c18Ref) blocked(name string) bool {
	ls := c18Labelize(name)
	if m.whitelisted(ls) {
		return false
	}
	for i := 0; i < len(ls); i++ {
		if m.plain[c18Key(ls[i:])] {
			return true
		}
		if i > 0 && m.wild[c18Key(ls[i:])] {
			return true
		}
	}
	return false
}

func (m *c18Ref) clone() *c18Ref {
	n := &c18Ref{plain: map[string]bool{}, wild: map[string]bool{}, white: m.white}
	for k := range m.plain {
		n.plain[k] = true
	}
	for k := range m.wild {
		n.wild[k] = true
	}
	return n
}

func (m *c18Ref) sig() string {
	var p, w []string
	for k := range m.plain {
		p = append(p, k)
	}
	for k := range m.wild {
		w = append(w, k)
	}
	sort.Strings(p)
	sort.Strings(w)
	return strings.Join(p, ",") + "|" + strings.Join(w, ",")
}

// apply runs one API call on the reference and returns its expected result.
func (m *c18Ref) apply(op C18Op) int {
	n := 0
	switch op.Kind {
	case "set", "setbatch":
		for _, k := range op.Keys {
			if m.set(k) {
				n++
			}
		}
	case "remove", "removebatch":
		for _, k := range op.Keys {
			if m.remove(k) {
				n++
			}
		}
	case "exists":
		if m.blocked(op.Keys[0]) {
			n = 1
		}
	}
	return n
}

func c18Call(b *blocklist.BlockList, op C18Op) int {
	bi := func(v bool) int {
		if v {
			return 1
		}
		return 0
	}
	switch op.Kind {
	case "set":
		return bi(b.Set(op.Keys[0]))
	case "remove":
		return bi(b.Remove(op.Keys[0]))
	case "setbatch":
		return b.SetBatch(op.Keys)
	case "removebatch":
		return b.RemoveBatch(op.Keys)
	default:
		return bi(b.Exists(op.Keys[0]))
	}
}

// ---------------------------------------------------------------- zone data of phase 1

// c18Zone: every name of up to two labels over the alphabet below test. has an A record
// when its hash is even; deeper names and example. do not exist.
func c18Records() (recs []string, has map[string]string) {
	has = map[string]string{}
	i := 0
	add := func(n string) {
		i++
		if kit.Hash64(0, n)%3 != 0 {
			ip := fmt.Sprintf("192.0.2.%d", i%250+1)
			has[n] = ip
			recs = append(recs, fmt.Sprintf("%s 300 IN A %s", n, ip))
		}
	}
	for _, a := range c18Labels {
		add(a + ".test.")
		for _, b := range c18Labels {
			add(b + "." + a + ".test.")
		}
	}
	return
}

// ---------------------------------------------------------------- run

func runC18(sc *C18Scenario, tr *kit.Trace) *kit.Result {
	res := kit.NewResult()
	kit.Bubble(func() {
		t0 := time.Now()
		defer func() { res.SimTime = time.Since(t0) }()
		c18Phase1(sc, tr, res)
		if res.Viol == nil {
			c18Phase2(sc, tr, res)
		}
	})
	return res
}

func c18Phase1(sc *C18Scenario, tr *kit.Trace, res *kit.Result) {
	if len(sc.Steps) == 0 {
		return
	}
	recs, has := c18Records()
	spec := &world.Spec{
		Zones: []world.ZoneSpec{
			{Name: ".", NSNames: []string{"a.root-servers.net."}, Addrs: []string{"198.41.0.4"}},
			{Name: "test.", NSNames: []string{"ns.test."}, Addrs: []string{"192.0.9.1"}, Records: recs},
		},
		Cfg: world.CfgSpec{DNSSECOff: true, Blocklist: sc.Block, Whitelist: sc.White},
	}
	r := world.NewRes(spec, 18, tr)
	defer r.Close()
	kit.SleepSettle(3 * time.Second) // priming, blocklist refresh
	h := middleware.Get("blocklist")
	b, _ := h.(*blocklist.BlockList)
	if b == nil {
		res.Fail("C18/harness", "blocklist middleware not registered")
		return
	}
	ref := newC18Ref(sc.Block, sc.White)
	client := netip.MustParseAddrPort("10.9.8.7:40000")
	for i, st := range sc.Steps {
		if st.Op != nil {
			got, want := c18Call(b, *st.Op), ref.apply(*st.Op)
			tr.Add("p1 step %d api %s %v -> %d", i, st.Op.Kind, st.Op.Keys, got)
			tr.Shape(fmt.Sprintf("api:%s:%d", st.Op.Kind, got))
			if got != want {
				res.Fail("C18/api-result", "step %d: %s(%v) returned %d, the reference list says %d", i, st.Op.Kind, st.Op.Keys, got, want)
				return
			}
			continue
		}
		q := new(dns.Msg)
		q.SetQuestion(dns.Fqdn(st.Q), st.Type)
		q.Id = uint16(1000 + i)
		before := r.Net.SentCount()
		c := r.Ask(client, "udp", q)
		kit.Settle()
		sent := r.Net.SentCount() - before
		want := ref.blocked(st.Q)
		if len(c.Replies) != 1 {
			res.Fail("C18/reply-count", "step %d: %s/%s got %d replies", i, st.Q, dns.TypeToString[st.Type], len(c.Replies))
			return
		}
		m := c.Replies[0]
		class := c18ReplyClass(m, st.Type)
		tr.Add("p1 step %d query %s/%s blocked(ref)=%v -> %s upstream=%d", i, st.Q, dns.TypeToString[st.Type], want, class, sent)
		tr.Shape(fmt.Sprintf("q:%v:%s", want, class))
		if want {
			res.Nontrivial = true
			res.Probes["blocked-reply"]++
			if sent != 0 {
				res.Fail("C18/blocked-query-went-upstream", "step %d: %s/%s is blocked by the list but caused %d upstream packets", i, st.Q, dns.TypeToString[st.Type], sent)
				return
			}
			if class != "blocked" {
				res.Fail("C18/listed-name-not-blocked", "step %d: %s/%s is covered by the list (plain=%v wild=%v white=%v) but the reply is %s:\n%s", i, st.Q, dns.TypeToString[st.Type], keys(ref.plain), keys(ref.wild), keys(ref.white), class, m)
				return
			}
			continue
		}
		// not blocked: the reply is what the zone says
		if class == "blocked" {
			res.Fail("C18/unlisted-name-blocked", "step %d: %s/%s is not covered by the list (plain=%v wild=%v white=%v) but got the blocked reply:\n%s", i, st.Q, dns.TypeToString[st.Type], keys(ref.plain), keys(ref.wild), keys(ref.white), m)
			return
		}
		name := dns.CanonicalName(st.Q)
		ip, exists := has[name]
		switch {
		case exists && st.Type == dns.TypeA:
			ok := m.Rcode == dns.RcodeSuccess && len(m.Answer) == 1
			if ok {
				a, isA := m.Answer[0].(*dns.A)
				ok = isA && a.A.String() == ip
			}
			if !ok {
				res.Fail("C18/unlisted-name-altered", "step %d: %s/A is not listed and exists (%s) but the reply is:\n%s", i, st.Q, ip, m)
				return
			}
		case !strings.HasSuffix(name, ".test.") && name != "test.":
			if m.Rcode != dns.RcodeNameError {
				res.Fail("C18/unlisted-name-altered", "step %d: %s does not exist but the reply is %s", i, st.Q, dns.RcodeToString[m.Rcode])
				return
			}
		default:
			if (st.Type == dns.TypeA && len(m.Answer) != 0) || (m.Rcode != dns.RcodeSuccess && m.Rcode != dns.RcodeNameError) {
				res.Fail("C18/unlisted-name-altered", "step %d: %s/%s is not listed; expected an empty NOERROR/NXDOMAIN, got:\n%s", i, st.Q, dns.TypeToString[st.Type], m)
				return
			}
		}
	}
}

func keys(m map[string]bool) []string {
	var out []string
	for k := range m {
		out = append(out, strings.ReplaceAll(k, "\x00", "."))
	}
	sort.Strings(out)
	return out
}

// c18ReplyClass recognises the synthesised blocked reply: authoritative NOERROR with the
// null-route address (A/AAAA) or no answer and an SOA owned by the question name.
func c18ReplyClass(m *dns.Msg, qtype uint16) string {
	if m.Rcode != dns.RcodeSuccess || !m.Authoritative {
		return "rcode=" + dns.RcodeToString[m.Rcode]
	}
	switch qtype {
	case dns.TypeA:
		if len(m.Answer) == 1 {
			if a, ok := m.Answer[0].(*dns.A); ok && a.A.String() == "0.0.0.0" {
				return "blocked"
			}
		}
	case dns.TypeAAAA:
		if len(m.Answer) == 1 {
			if a, ok := m.Answer[0].(*dns.AAAA); ok && a.AAAA.String() == "::" {
				return "blocked"
			}
		}
	default:
		if len(m.Answer) == 0 {
			return "blocked"
		}
	}
	return "aa-noerror-other"
}

// ---------------------------------------------------------------- phase 2

type c18In struct {
	Op C18Op
}
type c18Out struct{ N int }

func c18Model(white []string) porcupine.Model {
	return porcupine.Model{
		Init: func() interface{} { return &c18Ref{plain: map[string]bool{}, wild: map[string]bool{}, white: map[string]bool{}} },
		Step: func(state, in, out interface{}) (bool, interface{}) {
			st := state.(*c18Ref).clone()
			n := st.apply(in.(c18In).Op)
			return n == out.(c18Out).N, st
		},
		Equal: func(a, b interface{}) bool { return a.(*c18Ref).sig() == b.(*c18Ref).sig() },
	}
}

const c18Dir = "/simdisk/c18"

func c18ParseFile(b []byte) (set string, lines int, garbage string) {
	var exact, wild []string
	for _, l := range strings.Split(string(b), "\n") {
		l = strings.TrimSpace(l)
		if l == "" || strings.HasPrefix(l, "#") {
			continue
		}
		lines++
		if strings.HasPrefix(l, "*.") {
			wild = append(wild, l[2:])
		} else {
			exact = append(exact, l)
		}
	}
	exact, wild = c18Uniq(exact), c18Uniq(wild)
	return strings.Join(exact, ",") + "|" + strings.Join(wild, ","), lines, ""
}

func c18MemSig(b *blocklist.BlockList) string {
	e, w, _ := b.VerifEntries()
	return strings.Join(e, ",") + "|" + strings.Join(w, ",")
}

func c18Phase2(sc *C18Scenario, tr *kit.Trace, res *kit.Result) {
	if len(sc.Tasks) == 0 {
		return
	}
	disk := simdisk.New(c18Dir)
	disk.NoOwner = true
	verifos.Install(disk)
	defer verifos.Install(nil)
	bldir := c18Dir + "/blacklists"
	disk.MkdirDurable(bldir)
	preSig := "|" // nothing persisted yet: a restart loads the empty list
	if len(sc.PreFile) > 0 {
		content := []byte("# The file generated by auto. DO NOT EDIT\n" + strings.Join(sc.PreFile, "\n") + "\n")
		disk.PutDurable(bldir+"/local", content)
		preSig, _, _ = c18ParseFile(content)
	}
	// what a restart loads from the previous file: its entries minus the whitelisted ones
	preLoad := "|"
	{
		wref := newC18Ref(nil, sc.White)
		var keep []string
		for _, l := range sc.PreFile {
			if !wref.whitelisted(c18Labelize(l)) {
				keep = append(keep, l)
			}
		}
		if len(keep) > 0 {
			preLoad, _, _ = c18ParseFile([]byte(strings.Join(keep, "\n")))
		}
	}
	cfg := &config.Config{Directory: c18Dir, BlockListDir: bldir, Nullroute: "0.0.0.0", Nullroutev6: "::0",
		Blocklist: sc.Block, Whitelist: sc.White}
	b := blocklist.New(cfg)
	// every name that was ever listed anywhere (for the "never listed" check)
	listed := map[string]bool{}
	note := func(k string) {
		k = dns.CanonicalName(k)
		listed[strings.TrimPrefix(k, "*.")] = true
	}
	for _, k := range sc.Block {
		note(k)
	}
	for _, k := range sc.PreFile {
		note(k)
	}
	for _, ops := range sc.Tasks {
		for _, op := range ops {
			if op.Kind != "exists" {
				for _, k := range op.Keys {
					note(k)
				}
			}
		}
	}
	note(sc.Flush)

	states := map[string]int{c18MemSig(b): 0} // complete lists memory has held -> first index
	order := []string{c18MemSig(b)}
	mu := b.VerifMu()
	verifsync.OnRelease = func(obj any) {
		if obj == mu {
			s := c18MemSig(b)
			if _, ok := states[s]; !ok {
				states[s] = len(order)
			}
			order = append(order, s)
		}
	}
	defer func() { verifsync.OnRelease = nil }()
	disk.SetPlan(sc.Faults, true)
	opsBefore := disk.Ops()

	s := verifsync.NewSched(sc.Schedule)
	s.MaxSteps = 100000
	var hist []porcupine.Operation
	// the initial list is applied to the model as one operation that precedes everything
	init0 := C18Op{Kind: "setbatch"}
	{
		e, w, _ := b.VerifEntries()
		init0.Keys = append(init0.Keys, e...)
		for _, x := range w {
			init0.Keys = append(init0.Keys, "*."+x)
		}
	}
	for ti, ops := range sc.Tasks {
		ti, ops := ti, ops
		s.Go(func() {
			for _, op := range ops {
				call := s.Step()
				n := c18Call(b, op)
				ret := s.Step()
				hist = append(hist, porcupine.Operation{ClientId: ti, Input: c18In{op}, Call: int64(call), Output: c18Out{n}, Return: int64(ret)})
			}
		})
	}
	okRun := s.Run()
	verifsync.OnRelease = nil
	crashed := disk.Crashed
	tr.Add("p2 run ok=%v crashed=%v decisions=%v switches=%d states=%d diskops=%d", okRun, crashed, s.Decisions, s.Switches, len(order), disk.Ops()-opsBefore)
	if s.Deadlock {
		res.Fail("C18/deadlock", "all API tasks blocked: decisions %v", s.Decisions)
		return
	}
	if len(s.Panics) > 0 && !crashed {
		res.Fail("C18/panic", "%v", s.Panics)
		return
	}
	for k, v := range disk.Fired {
		for i := 0; i < v; i++ {
			res.Fault("disk:" + k)
		}
	}
	if s.Switches > 0 {
		res.Probes["interleaved"]++
	}
	ver, pers := b.VerifVersions()
	_ = pers
	if renames := len(disk.Renames); renames < int(ver) && len(disk.Fired) == 0 {
		// can only be a stale snapshot dropped in favour of a newer one that is on disk
		res.Probes["stale-snapshot-dropped"]++
	}
	// the memory model (linearizability of the API over the white list)
	if !crashed {
		sort.SliceStable(hist, func(i, j int) bool { return hist[i].Call < hist[j].Call })
		full := append([]porcupine.Operation{{ClientId: 99, Input: c18In{init0}, Call: -2, Output: c18Out{len(init0.Keys)}, Return: -1}}, hist...)
		for _, hh := range hist {
			tr.Add("p2 [%d,%d] t%d %s %v -> %d", hh.Call, hh.Return, hh.ClientId, hh.Input.(c18In).Op.Kind, hh.Input.(c18In).Op.Keys, hh.Output.(c18Out).N)
			tr.Shape(fmt.Sprintf("%d%s%d", hh.ClientId, hh.Input.(c18In).Op.Kind, hh.Output.(c18Out).N))
		}
		model := c18Model(sc.White)
		wl := map[string]bool{}
		for _, w := range sc.White {
			wl[c18Key(c18Labelize(w))] = true
		}
		model.Init = func() interface{} { return &c18Ref{plain: map[string]bool{}, wild: map[string]bool{}, white: wl} }
		switch porcupine.CheckOperationsTimeout(model, full, 20*time.Second) {
		case porcupine.Illegal:
			res.Fail("C18/not-linearizable", "the API history of %d operations has no linearization against the list model", len(hist))
			return
		case porcupine.Unknown:
			res.Inconcl++
		}
	}
	if len(order) > 1 {
		res.Nontrivial = true
	}

	cand := map[string]bool{preSig: true, preLoad: true}
	for st := range states {
		cand[st] = true
	}
	localSig := func() (string, bool) {
		data, ok := disk.ReadCurrent(bldir + "/local")
		if !ok {
			return "", false
		}
		sg, _, _ := c18ParseFile(data)
		return sg, true
	}
	reload := func() (string, []string) {
		cfg2 := &config.Config{Directory: c18Dir, BlockListDir: bldir, Nullroute: "0.0.0.0", Nullroutev6: "::0", Whitelist: sc.White}
		nb := blocklist.New(cfg2)
		e, w, _ := nb.VerifEntries()
		var unknown []string
		for _, x := range append(append([]string(nil), e...), w...) {
			if !listed[x] {
				unknown = append(unknown, x)
			}
		}
		return strings.Join(e, ",") + "|" + strings.Join(w, ","), unknown
	}

	if crashed {
		disk.Restart("")
		disk.SetPlan(nil, false)
		tr.Shape("crash")
		if sg, ok := localSig(); ok && !cand[sg] {
			res.Fail("C18/partial-file-after-crash", "after a crash at disk op %d (%s) the local list holds %q, which is none of the %d complete lists memory held (nor the previous file %q)", sc.Faults[0].Op, sc.Faults[0].Persist, sg, len(states), preSig)
			return
		}
		rs, unknown := reload()
		tr.Add("p2 reload after crash -> %s", rs)
		if len(unknown) > 0 {
			res.Fail("C18/never-listed-name-after-crash", "after a crash at disk op %d (%s) a restart loads %v, which no configuration, file or API call ever listed (directory: %v)", sc.Faults[0].Op, sc.Faults[0].Persist, unknown, disk.Names())
			return
		}
		if !cand[rs] {
			// the list a restart loads must be one of the complete lists (modulo entries
			// the loader finds redundant, which is judged in the fault-free branch)
			if !c18Covered(rs, cand) {
				res.Fail("C18/partial-list-after-crash", "after a crash at disk op %d (%s) a restart loads %q, which is none of the complete lists memory held %v (directory: %v)", sc.Faults[0].Op, sc.Faults[0].Persist, rs, keysOf(cand), disk.Names())
				return
			}
		}
		res.Probes["crash-recovered"]++
		return
	}

	faulty := len(disk.Fired) > 0
	mem := c18MemSig(b)
	if sg, ok := localSig(); ok {
		if !cand[sg] {
			res.Fail("C18/partial-file", "the local list holds %q, which is none of the complete lists memory held", sg)
			return
		}
		if !faulty && ver > 0 && sg != mem {
			res.Fail("C18/file-behind-memory", "all API calls returned, no disk fault, yet the local list %q differs from memory %q (snapshot version %d, persisted %d; decisions %v)", sg, mem, ver, pers, s.Decisions)
			return
		}
	} else if !faulty && ver > 0 {
		res.Fail("C18/file-behind-memory", "all API calls returned, no disk fault, yet no local list exists (snapshot version %d)", ver)
		return
	}
	// faults stopped: the next mutation must bring the file up to date
	disk.SetPlan(nil, false)
	if sc.Flush != "" {
		if !b.Set(sc.Flush) {
			sc2 := dns.CanonicalName(sc.Flush)
			_ = sc2 // whitelisted flush key: nothing to persist
		} else {
			mem = c18MemSig(b)
			sg, ok := localSig()
			if !ok || sg != mem {
				res.Fail("C18/file-not-converged", "after the faults stopped one more Set(%s) left the local list at %q, memory is %q", sc.Flush, sg, mem)
				return
			}
			res.Probes["converged-after-faults"]++
		}
	}
	rs, unknown := reload()
	tr.Add("p2 reload -> %s", rs)
	if len(unknown) > 0 {
		res.Fail("C18/never-listed-name-loaded", "a restart loads %v, which no configuration, file or API call ever listed (directory: %v)", unknown, disk.Names())
		return
	}
	if sg, ok := localSig(); ok && sg == mem && rs != mem {
		res.Fail("C18/reload-differs", "the local list equals memory %q but loading it yields %q", mem, rs)
		return
	}
}

// c18Covered reports whether rs equals some candidate after removing from the candidate
// the entries that another entry of it already covers (what the loader skips).
func c18Covered(rs string, cand map[string]bool) bool {
	for c := range cand {
		if c18Reduce(c) == c18Reduce(rs) {
			return true
		}
	}
	return false
}

func c18Reduce(sig string) string {
	parts := strings.SplitN(sig, "|", 2)
	if len(parts) != 2 {
		return sig
	}
	var exact, wild []string
	if parts[0] != "" {
		exact = strings.Split(parts[0], ",")
	}
	if parts[1] != "" {
		wild = strings.Split(parts[1], ",")
	}
	m := &c18Ref{plain: map[string]bool{}, wild: map[string]bool{}, white: map[string]bool{}}
	for _, e := range exact {
		m.plain[c18Key(c18Labelize(e))] = true
	}
	for _, w := range wild {
		m.wild[c18Key(c18Labelize(w))] = true
	}
	var ke, kw []string
	for _, e := range exact {
		ls := c18Labelize(e)
		red := false
		for i := 1; i < len(ls); i++ {
			if m.plain[c18Key(ls[i:])] || m.wild[c18Key(ls[i:])] {
				red = true
			}
		}
		if !red {
			ke = append(ke, e)
		}
	}
	for _, w := range wild {
		ls := c18Labelize(w)
		red := m.plain[c18Key(ls)]
		for i := 1; i < len(ls); i++ {
			if m.plain[c18Key(ls[i:])] || m.wild[c18Key(ls[i:])] {
				red = true
			}
		}
		if !red {
			kw = append(kw, w)
		}
	}
	return strings.Join(ke, ",") + "|" + strings.Join(kw, ",")
}

func keysOf(m map[string]bool) []string {
	var out []string
	for k := range m {
		out = append(out, k)
	}
	sort.Strings(out)
	return out
}

// ---------------------------------------------------------------- shrink

func shrinkC18(sc any, fails func(any) bool) any {
	cur := sc.(*C18Scenario)
	try := func(f func(c *C18Scenario)) {
		c := *cur
		c.Block = append([]string(nil), cur.Block...)
		c.White = append([]string(nil), cur.White...)
		c.Steps = append([]C18Step(nil), cur.Steps...)
		c.PreFile = append([]string(nil), cur.PreFile...)
		c.Tasks = nil
		for _, t := range cur.Tasks {
			c.Tasks = append(c.Tasks, append([]C18Op(nil), t...))
		}
		c.Schedule = append([]int(nil), cur.Schedule...)
		c.Faults = append([]simdisk.Fault(nil), cur.Faults...)
		f(&c)
		if fails(&c) {
			cur = &c
		}
	}
	try(func(c *C18Scenario) { c.Tasks, c.Schedule, c.Faults, c.PreFile = nil, nil, nil, nil })
	try(func(c *C18Scenario) { c.Steps = nil })
	budget := 400
	cur.Steps = kit.DDMin(cur.Steps, &budget, func(xs []C18Step) bool { c := *cur; c.Steps = xs; return fails(&c) })
	cur.Block = kit.DDMin(cur.Block, &budget, func(xs []string) bool { c := *cur; c.Block = xs; return fails(&c) })
	cur.White = kit.DDMin(cur.White, &budget, func(xs []string) bool { c := *cur; c.White = xs; return fails(&c) })
	cur.PreFile = kit.DDMin(cur.PreFile, &budget, func(xs []string) bool { c := *cur; c.PreFile = xs; return fails(&c) })
	for ti := range cur.Tasks {
		ti := ti
		ops := kit.DDMin(cur.Tasks[ti], &budget, func(xs []C18Op) bool {
			c := *cur
			c.Tasks = append([][]C18Op(nil), cur.Tasks...)
			c.Tasks[ti] = xs
			return fails(&c)
		})
		cur.Tasks = append([][]C18Op(nil), cur.Tasks...)
		cur.Tasks[ti] = ops
	}
	cur.Schedule = kit.DDMin(cur.Schedule, &budget, func(xs []int) bool { c := *cur; c.Schedule = xs; return fails(&c) })
	try(func(c *C18Scenario) { c.Flush = "" })
	return cur
}

func c18Uniq(xs []string) []string {
	sort.Strings(xs)
	var out []string
	for i, x := range xs {
		if i == 0 || x != xs[i-1] {
			out = append(out, x)
		}
	}
	return out
}
