package props

import (
	"net"
	"fmt"
	"net/netip"
	"strings"
	"time"

	"github.com/miekg/dns"

	"verifsim/authsim"
	"verifsim/kit"
	"verifsim/simnet"
	"verifsim/world"
)

// C07 — authoritative data is trusted only inside the sender's bailiwick
// (DESIGN.md §3 C07). An unsigned world (so nothing but bailiwick rules protects the
// victim), one zone Z whose legitimately authoritative server turns adversarial, spoofed
// datagrams ahead of genuine replies, then questions for victim names.

type C07Op struct {
	Name  string `json:"name"`
	Type  uint16 `json:"type"`
	GapMs int    `json:"gap_ms,omitempty"`
}

type C07Scenario struct {
	Seed       uint64     `json:"seed"`
	World      world.Spec `json:"world"`
	Adversary  string     `json:"adversary"`  // zone whose servers misbehave
	Victim     string     `json:"victim"`     // zone whose names the adversary lies about
	Behaviours []string   `json:"behaviours"` // see c07Behaviours
	Spoof      []string   `json:"spoof,omitempty"` // wrong-id wrong-question right-id-wrong-question
	OwnerCase  uint32     `json:"owner_case,omitempty"` // letter-case mask of the owner names in the adversary's authority sections
	SlowSelfMs int        `json:"slow_self_ms,omitempty"` // the adversary delays its self-referrals by this much (lease-expiry race)
	Ops        []C07Op    `json:"ops"`
}

var c07Behaviours = []string{
	"pad-answer",        // victim RRset appended to the answer section
	"pad-authority",     // victim NS set + glue for it in authority/additional
	"pad-additional",    // victim address record in additional
	"cname-continue",    // CNAME into the victim zone with the target's data in the same message
	"referral-sideways", // referral for the victim zone
	"referral-up",       // referral for the common parent
	"referral-self",     // non-progressing referral for Z itself with new servers
	"referral-mixed",    // one authority section with NS sets of two owners
	"referral-class",    // a referral for a child of Z, coherent and on the path, whose NS set is in class CH (the question is class IN)
	"glue-local-interface", // in-zone glue that is an address of one of this host's own network interfaces
	"glue-loopback",     // a child delegation whose glue points at loopback / this host
	"glue-out-of-zone",  // a child delegation served by a victim-zone host name with forged glue
	"glue-lookalike",    // a child delegation served by a host of a sibling zone whose spelling merely ends in the adversary zone's text (ns.xZ), with forged glue: in bailiwick by string suffix, not by labels
	"ns-in-answer-pad",  // answers carry Z's NS set naming a victim-zone host with forged glue
}

const c07Evil = "203.0.113.66"

func init() {
	kit.Register(&kit.Prop{
		ID:    "C07",
		Level: "exploration",
		Rule: "Scenario = unsigned zone hierarchy + one zone Z whose authoritative servers apply a subset of 14 adversarial behaviours (records for names " +
			"outside Z in any section, CNAME continued out of zone in one message, sideways/upward/self/mixed-owner/other-class referrals, glue for out-of-zone or " +
			"loopback/local hosts) + spoofed datagrams (wrong ID, wrong question) ahead of genuine replies + a history of trigger questions under Z " +
			"followed by questions for victim names and their name servers, repeated after caches fill. Oracle = ground truth for every name outside Z, " +
			"attacker-marked rdata never attached to a name outside Z, no dial to loopback/local addresses, no non-Z question sent to the attacker's " +
			"address. Non-trivial = an adversarial response or spoofed datagram was delivered; distinct = hash of (behaviour fired, victim reply class) sequence.",
		Assumptions: []string{
			"DNSSEC is off in this world so that only bailiwick rules stand between the adversary and the victim's names",
			"names inside Z are the adversary's to define: replies for them are not judged",
		},
		Components: kit.Components{
			Real: []string{"full default middleware chain", "resolver referral/glue handling", "dnsclient.Conn ID and question guard", "cache"},
			Stub: []string{"kernel sockets (simnet)", "authoritative servers (authsim + adversary)", "disk (simdisk)"},
		},
		Gen:      func(r *kit.RNG, tier string) any { return genC07(r) },
		Blank:    func() any { return &C07Scenario{} },
		Run:      func(sc any, tr *kit.Trace) *kit.Result { return runC07(sc.(*C07Scenario), tr) },
		Shrink:   shrinkC07,
		PerChunk: 40,
		Quick:    3000,
		Thorough: 120000,
	})
}

func genC07(r *kit.RNG) *C07Scenario {
	sc := &C07Scenario{Seed: r.Uint64()}
	// no shared servers: an adversary on its parent's server would speak with the parent's authority
	sc.World.Zones = world.GenHierarchy(r, world.GenOpt{NoDNSSEC: true, OutOfBailiwickNS: true})
	sc.World.Zones[0].Records = append(sc.World.Zones[0].Records, "a.root-servers.net. 518400 IN A 198.41.0.4")
	sc.World.Cfg.DNSSECOff = true
	sc.World.Cfg.QnameMin = kit.Pick(r, []int{0, 3, 5})
	var slds []string
	for _, z := range sc.World.Zones {
		if dns.CountLabel(z.Name) == 2 {
			slds = append(slds, dns.CanonicalName(z.Name))
		}
	}
	if len(slds) < 2 {
		// make sure there is a victim next to the adversary
		sc.World.Zones = append(sc.World.Zones, world.ZoneSpec{Name: "victim2.com.", NSNames: []string{"ns1.victim2.com."}, Addrs: []string{"192.0.2.201"},
			Records: []string{"ns1.victim2.com. 3600 IN A 192.0.2.201", "www.victim2.com. 300 IN A 192.0.2.202", "victim2.com. 300 IN A 192.0.2.203"}})
		if !hasZone(sc.World.Zones, "com.") {
			sc.World.Zones = append(sc.World.Zones, world.ZoneSpec{Name: "com.", NSNames: []string{"ns.com."}, Addrs: []string{"192.0.2.200"}, Records: []string{"ns.com. 3600 IN A 192.0.2.200"}})
		}
		slds = append(slds, "victim2.com.")
	}
	kit.Shuffle(r, slds)
	sc.Adversary, sc.Victim = slds[0], slds[1]
	for _, b := range c07Behaviours {
		if r.Chance(0.3) {
			sc.Behaviours = append(sc.Behaviours, b)
		}
	}
	if len(sc.Behaviours) == 0 {
		sc.Behaviours = []string{kit.Pick(r, c07Behaviours)}
	}
	if r.Chance(0.35) {
		sc.OwnerCase = uint32(r.Uint64()) // names are case-insensitive: ExAmPlE.com. is example.com.
	}
	for _, s := range []string{"wrong-id", "wrong-question", "right-id-wrong-question"} {
		if r.Chance(0.25) {
			sc.Spoof = append(sc.Spoof, s)
		}
	}
	trig := []string{"www." + sc.Adversary, sc.Adversary, "x." + sc.Adversary, "cn." + sc.Adversary, "child." + sc.Adversary, "www.child." + sc.Adversary, "nx." + sc.Adversary, "k.child." + sc.Adversary}
	vict := []string{"www." + sc.Victim, sc.Victim, "ns1." + sc.Victim, "nx." + sc.Victim, "mail." + sc.Victim, parentOf(sc.Victim)}
	n := r.Range(5, 18)
	for i := 0; i < n; i++ {
		op := C07Op{Type: uint16(kit.Pick(r, []int{1, 1, 1, 2, 28, 15})), GapMs: kit.Pick(r, []int{0, 10, 1000, 6000, 61000})}
		if i < 2 || r.Chance(0.45) {
			op.Name = kit.Pick(r, trig)
		} else {
			op.Name = kit.Pick(r, vict)
		}
		sc.Ops = append(sc.Ops, op)
	}
	if r.Chance(0.2) {
		// lease-expiry race: Z's delegation is cached with a 10 s lease by a prompt answer; a
		// question sent to Z's servers shortly before the lease runs out is answered, after it
		// has run out, with a referral for Z itself. Nothing is cached for Z at that moment:
		// only the rule "strictly below the zone that was asked" stands between the sender's
		// own NS set and the delegation cache (ghost-domain re-delegation).
		for i := range sc.World.Zones {
			if dns.CanonicalName(sc.World.Zones[i].Name) == sc.Adversary {
				sc.World.Zones[i].NSTTL = 10
			}
		}
		sc.SlowSelfMs = 1200
		keep := sc.Behaviours[:0]
		for _, b := range sc.Behaviours {
			if b != "referral-sideways" && b != "referral-self" { // sideways shadows self on the same trigger
				keep = append(keep, b)
			}
		}
		sc.Behaviours = append(keep, "referral-self")
		race := []C07Op{{Name: "www." + sc.Adversary, Type: dns.TypeA, GapMs: 61000}, {Name: "x." + sc.Adversary, Type: dns.TypeA, GapMs: kit.Pick(r, []int{6100, 6350, 6600})},
			{Name: "x." + sc.Adversary, Type: dns.TypeA, GapMs: 1000}, {Name: "www." + sc.Adversary, Type: dns.TypeA, GapMs: 1000}}
		at := r.Intn(len(sc.Ops) + 1)
		sc.Ops = append(sc.Ops[:at:at], append(race, sc.Ops[at:]...)...)
	}
	return sc
}

func hasZone(zs []world.ZoneSpec, name string) bool {
	for _, z := range zs {
		if dns.CanonicalName(z.Name) == name {
			return true
		}
	}
	return false
}

func evilA(name string, ttl uint32) dns.RR {
	return &dns.A{Hdr: dns.RR_Header{Name: name, Rrtype: dns.TypeA, Class: dns.ClassINET, Ttl: ttl}, A: netip.MustParseAddr(c07Evil).AsSlice()}
}
// c07LocalIface is a non-loopback IPv4 address of one of this host's interfaces (invalid if
// there is none): the resolver reads the host's interfaces itself, so the behaviour
// "glue-local-interface" can only be exercised with a real one.
var c07LocalIface = func() netip.Addr {
	addrs, err := net.InterfaceAddrs()
	if err != nil {
		return netip.Addr{}
	}
	for _, a := range addrs {
		if ipn, ok := a.(*net.IPNet); ok {
			if ip, ok := netip.AddrFromSlice(ipn.IP); ok {
				ip = ip.Unmap()
				if ip.Is4() && !ip.IsLoopback() && !ip.IsLinkLocalUnicast() {
					return ip
				}
			}
		}
	}
	return netip.Addr{}
}()

func nsRR(owner, host string) dns.RR {
	return &dns.NS{Hdr: dns.RR_Header{Name: owner, Rrtype: dns.TypeNS, Class: dns.ClassINET, Ttl: 86400}, Ns: host}
}

func runC07(sc *C07Scenario, tr *kit.Trace) *kit.Result {
	res := kit.NewResult()
	kit.Bubble(func() { execC07(sc, tr, res) })
	return res
}

func execC07(sc *C07Scenario, tr *kit.Trace, res *kit.Result) {
	w := world.NewRes(&sc.World, sc.Seed, tr)
	defer w.Close()
	defer func() { res.SimTime = w.Now(); res.Steps = w.Net.SentCount() }()
	Z, V := dns.CanonicalName(sc.Adversary), dns.CanonicalName(sc.Victim)
	has := func(b string) bool {
		for _, x := range sc.Behaviours {
			if x == b {
				return true
			}
		}
		return false
	}
	evilHost := "ns.evil." + Z
	// The attacker's own server at c07Evil answers every question with attacker data.
	evilQueries := 0
	var evilNonZ []string
	w.Net.AddServer(c07Evil, simnet.ServerFunc(func(q *simnet.Query) []simnet.Reply {
		if q.Msg == nil || len(q.Msg.Question) == 0 {
			return nil
		}
		evilQueries++
		qn := dns.CanonicalName(q.Msg.Question[0].Name)
		if !dns.IsSubDomain(Z, qn) {
			evilNonZ = append(evilNonZ, qn+"/"+dns.TypeToString[q.Msg.Question[0].Qtype])
		}
		m := new(dns.Msg)
		m.SetReply(q.Msg)
		m.Authoritative = true
		if q.Msg.Question[0].Qtype == dns.TypeA {
			m.Answer = append(m.Answer, evilA(q.Msg.Question[0].Name, 86400))
		}
		return world.PackReply(m, q)
	}))
	w.Hook = func(addr netip.Addr, q *simnet.Query, honest *authsim.Answer) []simnet.Reply {
		if honest.Zone == nil || honest.Zone.Name != Z || len(q.Msg.Question) == 0 {
			return nil
		}
		qu := q.Msg.Question[0]
		qn := dns.CanonicalName(qu.Name)
		m := honest.Msg.Copy()
		fired := func(b string) { res.Fault("adv:" + b); tr.AddAt(w.Now(), "adversary %s on %s/%s", b, qn, dns.TypeToString[qu.Qtype]) }
		nsRR := func(owner, host string) dns.RR { return nsRR(c20Case(owner, sc.OwnerCase), host) }
		switch {
		case has("referral-sideways") && strings.HasPrefix(qn, "x."):
			m.Answer, m.Ns, m.Extra = nil, []dns.RR{nsRR(V, evilHost)}, []dns.RR{evilA(evilHost, 86400)}
			m.Authoritative = false
			m.Rcode = dns.RcodeSuccess
			fired("referral-sideways")
		case has("referral-up") && strings.HasPrefix(qn, "nx."):
			m.Answer, m.Ns, m.Extra = nil, []dns.RR{nsRR(parentOf(Z), evilHost)}, []dns.RR{evilA(evilHost, 86400)}
			m.Authoritative = false
			m.Rcode = dns.RcodeSuccess
			fired("referral-up")
		case has("referral-self") && strings.HasPrefix(qn, "x."):
			m.Answer, m.Ns, m.Extra = nil, []dns.RR{nsRR(Z, evilHost)}, []dns.RR{evilA(evilHost, 86400)}
			m.Authoritative = false
			m.Rcode = dns.RcodeSuccess
			fired("referral-self")
			if sc.SlowSelfMs > 0 {
				rp := world.PackReply(m, q)
				for i := range rp {
					rp[i].Delay = time.Duration(sc.SlowSelfMs) * time.Millisecond
				}
				return rp
			}
		case has("referral-mixed") && strings.HasPrefix(qn, "www.child."):
			m.Answer, m.Ns = nil, []dns.RR{nsRR("child."+Z, evilHost), nsRR(V, evilHost)}
			m.Extra = []dns.RR{evilA(evilHost, 86400)}
			m.Authoritative = false
			m.Rcode = dns.RcodeSuccess
			fired("referral-mixed")
		case has("referral-class") && strings.HasPrefix(qn, "k.child."):
			// Only this referral names the attacker's server, and it is not of the question's
			// class: it must be refused like the sideways and upward ones.
			ns := nsRR("child."+Z, evilHost)
			ns.Header().Class = dns.ClassCHAOS
			glue := evilA(evilHost, 86400)
			if sc.OwnerCase&1 == 1 {
				glue.Header().Class = dns.ClassCHAOS
			}
			m.Answer, m.Ns, m.Extra = nil, []dns.RR{ns}, []dns.RR{glue}
			m.Authoritative = false
			m.Rcode = dns.RcodeSuccess
			fired("referral-class")
		case has("glue-loopback") && (strings.HasPrefix(qn, "child.") || strings.HasPrefix(qn, "www.child.")):
			m.Answer, m.Ns = nil, []dns.RR{nsRR("child."+Z, "ns.child."+Z), nsRR("child."+Z, "ns2.child."+Z)}
			m.Extra = []dns.RR{
				&dns.A{Hdr: dns.RR_Header{Name: "ns.child." + Z, Rrtype: dns.TypeA, Class: dns.ClassINET, Ttl: 3600}, A: netip.MustParseAddr("127.0.0.1").AsSlice()},
				&dns.A{Hdr: dns.RR_Header{Name: "ns2.child." + Z, Rrtype: dns.TypeA, Class: dns.ClassINET, Ttl: 3600}, A: netip.MustParseAddr("127.0.0.53").AsSlice()},
				&dns.AAAA{Hdr: dns.RR_Header{Name: "ns.child." + Z, Rrtype: dns.TypeAAAA, Class: dns.ClassINET, Ttl: 3600}, AAAA: netip.MustParseAddr("::1").AsSlice()},
			}
			m.Authoritative = false
			m.Rcode = dns.RcodeSuccess
			fired("glue-loopback")
		case has("glue-local-interface") && c07LocalIface.IsValid() && (strings.HasPrefix(qn, "child.") || strings.HasPrefix(qn, "www.child.")):
			m.Answer, m.Ns = nil, []dns.RR{nsRR("child."+Z, "ns.child."+Z)}
			m.Extra = []dns.RR{&dns.A{Hdr: dns.RR_Header{Name: "ns.child." + Z, Rrtype: dns.TypeA, Class: dns.ClassINET, Ttl: 3600}, A: c07LocalIface.AsSlice()}}
			m.Authoritative = false
			m.Rcode = dns.RcodeSuccess
			fired("glue-local-interface")
		case has("glue-out-of-zone") && (strings.HasPrefix(qn, "child.") || strings.HasPrefix(qn, "www.child.")):
			m.Answer, m.Ns = nil, []dns.RR{nsRR("child."+Z, "ns1."+V)}
			m.Extra = []dns.RR{evilA("ns1."+V, 86400)}
			m.Authoritative = false
			m.Rcode = dns.RcodeSuccess
			fired("glue-out-of-zone")
		case has("glue-lookalike") && (strings.HasPrefix(qn, "child.") || strings.HasPrefix(qn, "www.child.")):
			m.Answer, m.Ns = nil, []dns.RR{nsRR("child."+Z, "ns.x"+Z)}
			m.Extra = []dns.RR{evilA("ns.x"+Z, 86400)}
			m.Authoritative = false
			m.Rcode = dns.RcodeSuccess
			fired("glue-lookalike")
		case has("cname-continue") && strings.HasPrefix(qn, "cn."):
			m.Rcode = dns.RcodeSuccess
			m.Ns = nil
			m.Answer = []dns.RR{&dns.CNAME{Hdr: dns.RR_Header{Name: qu.Name, Rrtype: dns.TypeCNAME, Class: dns.ClassINET, Ttl: 300}, Target: "www." + V}, evilA("www."+V, 86400)}
			fired("cname-continue")
		}
		if has("pad-answer") && len(m.Answer) > 0 {
			m.Answer = append(m.Answer, evilA("www."+V, 86400))
			fired("pad-answer")
		}
		if has("pad-authority") {
			m.Ns = append(m.Ns, nsRR(V, evilHost))
			m.Extra = append([]dns.RR{evilA(evilHost, 86400)}, m.Extra...)
			fired("pad-authority")
		}
		if has("pad-additional") {
			m.Extra = append([]dns.RR{evilA("www."+V, 86400), evilA("ns1."+V, 86400)}, m.Extra...)
			fired("pad-additional")
		}
		if has("ns-in-answer-pad") && len(m.Answer) > 0 {
			m.Ns = append(m.Ns, nsRR(Z, "ns1."+V))
			m.Extra = append([]dns.RR{evilA("ns1."+V, 86400)}, m.Extra...)
			fired("ns-in-answer-pad")
		}
		return world.PackReply(m, q)
	}
	if len(sc.Spoof) > 0 {
		w.Net.Spoof = func(q *simnet.Query) [][]byte {
			if q.Msg == nil || len(q.Msg.Question) == 0 {
				return nil
			}
			qn := dns.CanonicalName(q.Msg.Question[0].Name)
			if !dns.IsSubDomain(V, qn) && !dns.IsSubDomain(Z, qn) {
				return nil
			}
			var out [][]byte
			for _, s := range sc.Spoof {
				m := new(dns.Msg)
				m.SetReply(q.Msg)
				m.Authoritative = true
				switch s {
				case "wrong-id":
					m.Id = q.Msg.Id + 1
					m.Answer = []dns.RR{evilA(q.Msg.Question[0].Name, 86400)}
				case "wrong-question":
					m.Id = q.Msg.Id + 7
					m.Question[0].Name = "www." + V
					m.Answer = []dns.RR{evilA("www."+V, 86400)}
				case "right-id-wrong-question":
					m.Question[0].Name = "other." + V
					m.Answer = []dns.RR{evilA("other."+V, 86400), evilA("www."+V, 86400)}
				}
				if b, err := m.Pack(); err == nil {
					out = append(out, b)
					res.Faults["spoof:"+s]++
					res.Nontrivial = true
				}
			}
			return out
		}
	}
	kit.SleepSettle(5 * time.Second)
	for i, op := range sc.Ops {
		if res.Viol != nil {
			return
		}
		kit.SleepSettle(time.Duration(op.GapMs)*time.Millisecond + 50*time.Millisecond)
		q := new(dns.Msg)
		q.SetQuestion(op.Name, op.Type)
		q.RecursionDesired = true
		q.SetEdns0(1232, false)
		nonZBefore := len(evilNonZ)
		evilBefore := evilQueries
		dialsBefore := len(w.Net.Dials)
		c := w.Ask(netip.MustParseAddrPort("10.9.0.1:40000"), "udp", q)
		kit.SleepSettle(3 * time.Second)
		if len(c.Replies) != 1 {
			res.Fail("C07/reply-count", "op %d: %d replies", i, len(c.Replies))
			return
		}
		m := c.Replies[0]
		name := dns.CanonicalName(op.Name)
		inZ := dns.IsSubDomain(Z, name)
		ctx := fmt.Sprintf("op %d %s/%s: reply %s", i, op.Name, dns.TypeToString[op.Type], dns.RcodeToString[m.Rcode])
		tr.AddAt(w.Now(), "%s ans=%d inZ=%v", ctx, len(m.Answer), inZ)
		tr.Shape(fmt.Sprintf("%v|%s|%d", inZ, dns.RcodeToString[m.Rcode], len(res.Faults)))
		// (c) never dial loopback / local addresses
		for _, d := range w.Net.Dials[dialsBefore:] {
			hp := d[strings.Index(d, "/")+1:]
			ap, err := netip.ParseAddrPort(hp)
			if err == nil && (ap.Addr().IsLoopback() || ap.Addr().IsUnspecified() || ap.Addr().IsLinkLocalUnicast() || (c07LocalIface.IsValid() && ap.Addr() == c07LocalIface)) {
				res.Fail("C07/dialled-loopback", "%s: sdns dialled %s, an address learnt from glue", ctx, d)
				return
			}
		}
		// (d) no question for a name outside Z goes to the attacker's address
		if evilQueries > evilBefore && len(evilNonZ) == nonZBefore && !has("referral-mixed") {
			// The attacker's server is named only by referrals that must be refused: for the
			// victim (sideways), for the parent (upward), for Z itself (not strictly below the
			// zone that was asked, whatever the letter case of the owner), and as glue for a
			// host outside Z. (A mixed-owner referral contains a set for child.Z, which Z may
			// delegate to whom it likes; scenarios with it are not judged here.)
			res.Fail("C07/refused-referral-followed", "%s: the attacker's server %s received %d queries although no acceptable referral names it (behaviours %v, owner-case mask %#x): a self, upward, sideways or other-class referral was followed",
				ctx, c07Evil, evilQueries-evilBefore, sc.Behaviours, sc.OwnerCase)
			return
		}
		if len(evilNonZ) > nonZBefore {
			res.Fail("C07/victim-question-to-attacker", "%s: questions for names outside %s were sent to the attacker's server %s: %v", ctx, Z, c07Evil, evilNonZ[nonZBefore:])
			return
		}
		// (a) attacker-marked data never attached to a name outside Z, in any section
		for _, sec := range [][]dns.RR{m.Answer, m.Ns, m.Extra} {
			for _, rr := range sec {
				owner := dns.CanonicalName(rr.Header().Name)
				if strings.Contains(rr.String(), c07Evil) && !dns.IsSubDomain(Z, owner) {
					res.Fail("C07/out-of-bailiwick-record-relayed", "%s: the reply carries %q, data the servers of %s supplied for a name outside their zone", ctx, rr.String(), Z)
					return
				}
				if ns, ok := rr.(*dns.NS); ok && strings.Contains(ns.Ns, "evil.") && !dns.IsSubDomain(Z, owner) {
					res.Fail("C07/out-of-bailiwick-record-relayed", "%s: the reply carries %q", ctx, rr.String())
					return
				}
			}
		}
		if inZ {
			continue
		}
		// (b) names outside Z: ground truth
		truth := w.World.Truth(op.Name, op.Type)
		if m.Rcode == dns.RcodeServerFailure {
			res.Probes["victim-servfail"]++
			continue
		}
		if truth.Loop {
			continue
		}
		if m.Rcode != truth.Rcode {
			res.Fail("C07/victim-answer-altered", "%s, the authoritative data says %s", ctx, dns.RcodeToString[truth.Rcode])
			return
		}
		got := strings.Join(authsim.RRKeys(m.Answer, dns.TypeRRSIG), "\n")
		want := strings.Join(authsim.RRKeys(truth.Answer, dns.TypeRRSIG), "\n")
		if truth.Kind == "answer" && got != want {
			res.Fail("C07/victim-answer-altered", "%s: answer %q, the authoritative data says %q", ctx, got, want)
			return
		}
		res.Probes["victim-checked"]++
	}
}

func shrinkC07(sc0 any, fails func(any) bool) any {
	sc := sc0.(*C07Scenario)
	budget := 80
	c := *sc
	c.Ops = kit.DDMin(sc.Ops, &budget, func(o []C07Op) bool { t := *sc; t.Ops = o; return fails(&t) })
	c.Behaviours = kit.DDMin(c.Behaviours, &budget, func(o []string) bool { t := c; t.Behaviours = o; return fails(&t) })
	c.Spoof = kit.DDMin(c.Spoof, &budget, func(o []string) bool { t := c; t.Spoof = o; return fails(&t) })
	return &c
}
