package props

import (
	"os"
	"testing"
	"time"

	"verifsim/kit"
)

func TestProfileOne(t *testing.T) {
	id := os.Getenv("VERIF_PROFILE")
	if id == "" {
		t.Skip()
	}
	kit.T = t
	p := kit.Lookup(id)
	for i := 0; i < 5; i++ {
		sc := p.Gen(kit.NewRNG(kit.ScenarioSeed(1, id, i)), "quick")
		if c, ok := sc.(*C09Scenario); ok {
			c.Enumerate = 0
		}
		t0 := time.Now()
		tr := &kit.Trace{}
		res := p.Run(sc, tr)
		t.Logf("run %d: %v events=%d viol=%v simtime=%v probes=%v faults=%v", i, time.Since(t0), tr.Events(), res.Viol, res.SimTime, res.Probes, res.Faults)
	}
}
