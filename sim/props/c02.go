package props

import (
	"fmt"
	"strings"
	"time"

	"github.com/miekg/dns"

	"verifsim/authsim"
	"verifsim/kit"
	"verifsim/world"
)

// C02 — denial of existence is accepted or synthesised only when actually proven
// (DESIGN.md §3 C02). Same world and engine as C01; the faults are restricted to what a
// signature check cannot stop: wrong selections of genuine, correctly signed NSEC/NSEC3
// records, and the history then asks other names of the zone, which the aggressive
// (RFC 8198) and subtree-cut (RFC 8020) caches may answer without upstream traffic.

func init() {
	kit.Register(&kit.Prop{
		ID:    "C02",
		Level: "exploration",
		Rule: "Scenario = fully signed static hierarchy with denial structure (labels that sort at boundaries, wildcards, empty non-terminals, DNAME, " +
			"delegations, NSEC and NSEC3 with salt/iteration variety and opt-out) + sequential client questions dominated by absent names and types, " +
			"asked in phases so that later ones can be answered from cached proofs + substitutions of genuine denial records (other interval, subset, " +
			"duplicates/reordering, sibling/child zone records, NXDOMAIN/NODATA relabelling, no-DS claims for secure delegations). Oracle = zone model: " +
			"existence and type truth; upstream-free denials must have a live, untampered, CD=0 proof from that zone behind them and never rest on opt-out. " +
			"Non-trivial = a denial tampering was delivered or a denial was served without upstream traffic; distinct = hash of (truth class, reply class, " +
			"upstream-free, tamper fired) sequence.",
		Assumptions: []string{
			"zones are static within a scenario (aggressive use of a cached NSEC against a later-added name is RFC-legal)",
			"the pure arithmetic of the dnssec.Verify* entry points is exercised only through the pipeline; all subsets/orderings are sampled, not enumerated",
			"a proof's lifetime is taken as max(SOA minimum, 5 s) plus 6 s of slack (exact lifetimes are checked by C04)",
		},
		Components: kit.Components{
			Real: []string{"full default middleware chain", "resolver + dnssec NSEC/NSEC3/aggressive-negative", "cache denial-proof cache and NXDOMAIN cut cache", "server.ServeMsg"},
			Stub: []string{"kernel sockets (simnet)", "authoritative servers (authsim)", "disk (simdisk)"},
		},
		Gen:      func(r *kit.RNG, tier string) any { return genC02(r) },
		Blank:    func() any { return &C01Scenario{} },
		Run:      func(sc any, tr *kit.Trace) *kit.Result { return runC02(sc.(*C01Scenario), tr) },
		Shrink:   shrinkC01,
		PerChunk: 40,
		Quick:    3500,
		Thorough: 150000,
	})
}

var c02Labels = []string{"a", "aa", "b", "m", "w", "ww", "www", "wwww", "x", "z", "zz", "0", "-", "mail", "maim", "nx", "alias", "aliat", "dn", "dm", `\000`, "a\\.b"}

func genC02(r *kit.RNG) *C01Scenario {
	sc := &C01Scenario{Seed: r.Uint64()}
	sc.World.Zones = world.GenHierarchy(r, world.GenOpt{AllSigned: true, SharedServers: r.Chance(0.3), MaxZones: 7})
	sc.World.Zones[0].Records = append(sc.World.Zones[0].Records, "a.root-servers.net. 518400 IN A 198.41.0.4")
	sc.World.Cfg.QnameMin = kit.Pick(r, []int{0, 0, 3, 5})
	sc.World.Cfg.RFC8198Off = r.Chance(0.1)
	w := world.BuildWorld(sc.World.Zones)
	var zones []string
	for n := range w.Zones {
		if n != "." {
			zones = append(zones, n)
		}
	}
	sortStringsAsc(zones)
	qs := world.InterestingQuestions(w)
	nops := r.Range(6, 28)
	focus := kit.Pick(r, zones)
	for i := 0; i < nops; i++ {
		var q world.Question
		switch {
		case i > 2 && r.Chance(0.2):
			p := sc.Ops[r.Intn(len(sc.Ops))]
			q = world.Question{Name: p.Name, Qtype: p.Qtype}
		case r.Chance(0.6):
			zn := focus
			if r.Chance(0.25) {
				zn = kit.Pick(r, zones)
			}
			name := kit.Pick(r, c02Labels) + "." + zn
			if r.Chance(0.3) {
				name = kit.Pick(r, c02Labels) + "." + name
			}
			if r.Chance(0.15) {
				name = kit.Pick(r, []string{"y.z.", "z.", "w.", "x.w.", "sub.", "x.sub.", "dn.", "x.dn."}) + zn
			}
			q = world.Question{Name: name, Qtype: uint16(kit.Pick(r, []int{1, 1, 28, 16, 15, 43, 2}))}
		default:
			q = kit.Pick(r, qs)
		}
		op := C01Op{Name: q.Name, Qtype: q.Qtype, DO: r.Chance(0.6), AD: r.Chance(0.3), CD: r.Chance(0.12), NoEDNS: r.Chance(0.1),
			GapMs: kit.Pick(r, []int{0, 10, 1000, 4000, 6000, 31000, 61000, 400000})}
		if op.NoEDNS {
			op.DO = false
		}
		sc.Ops = append(sc.Ops, op)
	}
	if r.Chance(0.2) {
		// wildcard-replay template: the focus zone has an apex wildcard of type A and
		// existing names are asked while their answers are replaced by the replayed wildcard
		for i := range sc.World.Zones {
			z := &sc.World.Zones[i]
			if dns.CanonicalName(z.Name) != focus {
				continue
			}
			has := false
			for _, rec := range z.Records {
				if strings.HasPrefix(rec, "*."+focus) && strings.Contains(rec, " IN A ") {
					has = true
				}
			}
			if !has {
				z.Records = append(z.Records, fmt.Sprintf("*.%s 60 IN A 192.0.2.%d", focus, r.Range(1, 250)))
			}
		}
		for i := range sc.Ops {
			if r.Chance(0.5) {
				sc.Ops[i].Name = kit.Pick(r, []string{"www.", "ns1.", ""}) + focus
				sc.Ops[i].Qtype = dns.TypeA
			}
		}
		sc.Tampers = append(sc.Tampers, C01Tamper{Zone: focus, Kind: kit.Pick(r, []string{"wildcard-replay", "wildcard-replay-other-nsec", "wildcard-replay-forged-nsec", "wildcard-replay-forged-nsec"}),
			Step: "answer", FromOp: 0, ToOp: nops})
	} else if r.Chance(0.8) {
		nt := r.Range(1, 3)
		for i := 0; i < nt; i++ {
			from := r.Intn(nops)
			t := C01Tamper{Zone: focus, Kind: kit.Pick(r, authsim.DenialKinds), Step: "negative", FromOp: from, ToOp: from + r.Range(1, nops)}
			if r.Chance(0.3) {
				t.Zone = kit.Pick(r, zones)
			}
			switch t.Kind {
			case "nodata-wildcard-no-next-closer":
				// the tampered zone is an NSEC3 zone with a wildcard and, beside it, an existing
				// name holding a type the wildcard lacks; that name and type are asked
				t.Step = "answer"
				for i := range sc.World.Zones {
					z := &sc.World.Zones[i]
					if dns.CanonicalName(z.Name) != dns.CanonicalName(t.Zone) || !z.Signed {
						continue
					}
					z.NSEC3 = true
					hasW, hasH := false, false
					for _, rec := range z.Records {
						hasW = hasW || strings.HasPrefix(rec, "*.w."+z.Name+" ")
						hasH = hasH || strings.HasPrefix(rec, "host.w."+z.Name+" ")
					}
					if !hasW {
						z.Records = append(z.Records, fmt.Sprintf("*.w.%s 60 IN A 192.0.2.%d", z.Name, r.Range(1, 250)))
					}
					if !hasH {
						z.Records = append(z.Records, fmt.Sprintf("host.w.%s 300 IN TXT \"beside the wildcard\"", z.Name))
					}
					for j := range sc.Ops {
						if j >= t.FromOp && r.Chance(0.5) {
							sc.Ops[j].Name, sc.Ops[j].Qtype = "host.w."+z.Name, dns.TypeTXT
						}
					}
				}
			case "nx-below-dname":
				t.Step = "answer"
				// the zone must have its DNAME, and questions must go below it
				for zi := range sc.World.Zones {
					z := &sc.World.Zones[zi]
					if dns.CanonicalName(z.Name) != dns.CanonicalName(t.Zone) || !z.Signed {
						continue
					}
					has := false
					for _, rec := range z.Records {
						if strings.HasPrefix(rec, "dn."+z.Name+" ") {
							has = true
						}
					}
					if !has {
						z.Records = append(z.Records, fmt.Sprintf("dn.%s 300 IN DNAME w.%s", z.Name, z.Name))
					}
					for j := range sc.Ops {
						if j >= t.FromOp && r.Chance(0.5) {
							sc.Ops[j].Name, sc.Ops[j].Qtype = kit.Pick(r, []string{"x.dn.", "a.b.dn.", "www.dn."})+z.Name, kit.Pick(r, []uint16{dns.TypeA, dns.TypeA, dns.TypeTXT})
						}
					}
				}
			case "nx-for-existing", "nx-retired-salt", "nodata-for-existing", "forge-unsigned", "wildcard-replay", "wildcard-replay-other-nsec", "wildcard-replay-forged-nsec":
				t.Step = "answer"
			case "nx-below-delegation":
				t.Step = "referral"
				t.Zone = parentOf(t.Zone)
			case "ds-nodata-from-child":
				t.Step = kit.Pick(r, []string{"ds", "ds", "answer", "any"})
				// the parent's DS answers are replaced; pair it with forged unsigned data from the
				// child, which is what a validator fooled into "insecure delegation" would accept
				child := t.Zone
				t.Zone = parentOf(t.Zone)
				if r.Chance(0.7) {
					sc.Tampers = append(sc.Tampers, C01Tamper{Zone: child, Kind: "forge-unsigned", Step: "any", FromOp: t.FromOp, ToOp: t.ToOp})
				}
			case "nods-for-secure":
				t.Step = "referral"
				// pair it with forged unsigned data from the child
				t.Zone = parentOf(t.Zone)
				sc.Tampers = append(sc.Tampers, C01Tamper{Zone: focus, Kind: "forge-unsigned", Step: "any", FromOp: t.FromOp, ToOp: t.ToOp})
			case "foreign-denial", "denial-other-interval", "denial-subset", "denial-dup-reorder":
				t.Step = kit.Pick(r, []string{"negative", "negative", "referral", "ds", "any"})
			}
			sc.Tampers = append(sc.Tampers, t)
		}
	}
	return sc
}

func parentOf(name string) string {
	i, end := dns.NextLabel(name, 0)
	if end {
		return "."
	}
	return name[i:]
}

func sortStringsAsc(s []string) {
	for i := 1; i < len(s); i++ {
		for j := i; j > 0 && s[j] < s[j-1]; j-- {
			s[j], s[j-1] = s[j-1], s[j]
		}
	}
}

type c02State struct {
	asked map[string]time.Duration // exact question -> when a reply for it was last obtained with upstream traffic or from cache
}

func runC02(sc *C01Scenario, tr *kit.Trace) *kit.Result {
	res := kit.NewResult()
	st := &c02State{asked: map[string]time.Duration{}}
	kit.Bubble(func() {
		execRes(sc, tr, res, "C02", func(o *resOp) bool { return oracleC02(o, st) })
	})
	return res
}

func oracleC02(o *resOp, st *c02State) bool {
	op, m, truth, res, w := o.op, o.m, o.truth, o.res, o.w
	now := w.Now()
	qkey := fmt.Sprintf("%s/%d/%v", dns.CanonicalName(op.Name), op.Qtype, op.CD)
	_, askedBefore := st.asked[qkey]
	st.asked[qkey] = now
	if !askedBefore {
		// the exact question may have been resolved internally before (alias chase,
		// name-server address lookup): then an exact cached entry legitimately exists
		for _, s := range w.Net.Canonical() {
			if s.Qtype == op.Qtype && s.Name == strings.ToLower(dns.CanonicalName(op.Name)) && s.At < now-3*time.Second {
				askedBefore = true
				break
			}
		}
	}
	if len(o.fired) > 0 {
		res.Nontrivial = true
	}
	// final data present?
	finalData := false
	for _, rr := range m.Answer {
		if rr.Header().Rrtype == op.Qtype {
			finalData = true
		}
	}
	negative := m.Rcode == dns.RcodeNameError || (m.Rcode == dns.RcodeSuccess && !finalData)
	if evil := containsEvil(m); evil != "" && truth.Secure && !truth.Spoofable && !op.CD {
		res.Fail("C02/downgrade-accepted", "%s: forged unsigned data reached the client for a securely delegated name: %s", o.ctx, evil)
		return false
	}
	if op.CD {
		// CD=1 neither creates nor consumes shared denial state: a first-time CD question
		// answered negatively without upstream traffic consumed it.
		if negative && o.upstream == 0 && !askedBefore && m.Rcode != dns.RcodeServerFailure && truth.Zone != nil {
			res.Fail("C02/cd-consumed-shared-denial", "%s: a checking-disabled question asked for the first time was denied without any upstream traffic", o.ctx)
			return false
		}
		return true
	}
	if op.Qtype == dns.TypeANY || op.Qtype == dns.TypeRRSIG || op.Qtype == dns.TypeNSEC || truth.Loop || m.Rcode == dns.RcodeServerFailure {
		if m.Rcode == dns.RcodeServerFailure && !o.everTampered {
			res.Probes["selfcheck:faultfree-servfail"]++
		}
		return true
	}
	if !truth.Secure {
		return true
	}
	if truth.Spoofable {
		// not an owner of an opt-out zone: an attacker may place an insecure delegation
		// there; only "no AD" and "no shared synthesis" apply
		if m.AuthenticatedData && truth.Kind != "answer" {
			res.Fail("C02/ad-on-optout-proof", "%s: AD set on a denial that rests on an opt-out span", o.ctx)
			return false
		}
		if negative && o.upstream == 0 && !askedBefore && m.Rcode == dns.RcodeNameError {
			res.Fail("C02/synthesis-from-optout", "%s: denied without upstream traffic although the covering NSEC3 span is opt-out", o.ctx)
			return false
		}
		res.Probes["optout-span-name"]++
		return true
	}
	if m.AuthenticatedData && truth.OptOut && truth.Kind != "answer" {
		res.Fail("C02/ad-on-optout-proof", "%s: AD set on a denial that rests on an opt-out span", o.ctx)
		return false
	}
	// existence / type truth
	if negative && truth.Kind == "answer" {
		hit := ""
		for _, f := range o.fired {
			hit += fmt.Sprintf(" [tampering %s hit the %s response of %s]", f.kind, f.step, f.zone)
		}
		res.Fail("C02/false-denial", "%s: the zone holds data for this name and type (%v), but the client was told there is none%s", o.ctx, authsim.RRKeys(truth.Answer, dns.TypeRRSIG), hit)
		return false
	}
	if m.Rcode == dns.RcodeNameError && truth.Kind == "nodata" {
		res.Fail("C02/false-nxdomain", "%s: the name exists (other types, empty non-terminal, wildcard or delegation) but the client got NXDOMAIN", o.ctx)
		return false
	}
	if !negative && truth.Kind != "answer" && !(truth.OptOut && truth.Kind == "nxdomain") {
		res.Fail("C02/data-for-absent", "%s: the zone has no such data (%s) but the client got an answer %v", o.ctx, o.tclass, authsim.RRKeys(m.Answer, dns.TypeRRSIG))
		return false
	}
	if !negative && truth.Kind == "answer" {
		got := authsim.RRKeys(m.Answer, dns.TypeRRSIG)
		want := authsim.RRKeys(truth.Answer, dns.TypeRRSIG)
		if strings.Join(got, "\n") != strings.Join(want, "\n") {
			res.Fail("C02/wrong-data-accepted", "%s: the answer is not what the zone holds for this name (a wildcard or other RRset was substituted without a valid no-closer-match proof)\n got: %v\nwant: %v", o.ctx, got, want)
			return false
		}
	}
	// upstream-free denial of a question never asked before = synthesised from cached proofs
	if negative && o.upstream == 0 && !askedBefore && truth.Zone != nil {
		res.Nontrivial = true
		res.Probes["synthesised-denial"]++
		zn := truth.Zone.Name
		life := time.Duration(truth.Zone.SOAMin) * time.Second
		if life < 5*time.Second {
			life = 5 * time.Second
		}
		life += 6 * time.Second // slack: exact lifetimes are C04's subject; here only "some live proof existed"
		okProof := false
		var latest time.Duration = -1
		for _, h := range *o.hookLog {
			// proofs come from the zone itself, or from an ancestor that denied the subtree
			// Records substituted by the C02 tamperings are genuine signed records of the
			// zone, so even a tampered response can legitimately feed the proof caches;
			// what must not feed them is a checking-disabled resolution.
			if !(h.zone == zn || dns.IsSubDomain(h.zone, zn)) || h.cd {
				continue
			}
			if h.kind != "nxdomain" && h.kind != "nodata" && h.kind != "referral" && h.kind != "wildcard" {
				continue
			}
			if h.at > latest {
				latest = h.at
			}
			hl := life
			if h.zone != zn {
				if az := w.World.Zones[h.zone]; az != nil {
					hl = time.Duration(az.SOAMin)*time.Second + 7*time.Second
				}
			}
			if now-h.at <= hl {
				okProof = true
			}
		}
		if truth.OptOut && m.Rcode == dns.RcodeNameError {
			res.Fail("C02/synthesis-from-optout", "%s: denied without upstream traffic although the covering NSEC3 span is opt-out", o.ctx)
			return false
		}
		if !okProof {
			res.Fail("C02/synthesis-without-live-proof", "%s: denied without upstream traffic, but no CD=0 denial from %s (or an ancestor) was delivered within its lifetime (latest at %v, now %v)\n%s", o.ctx, zn, latest, now, m.String())
			return false
		}
	}
	if negative {
		res.Probes["denial:"+truth.Kind]++
	}
	_ = strings.Join
	return true
}
