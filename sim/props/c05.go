package props

import (
	"encoding/hex"
	"fmt"
	"net"
	"net/netip"
	"sort"
	"strconv"
	"strings"
	"time"

	"github.com/miekg/dns"
	mcache "github.com/semihalev/sdns/middleware/cache"
	"github.com/semihalev/sdns/server"

	"verifsim/kit"
	"verifsim/simnet"
	"verifsim/world"
)

// C05 — wire fast path and decoded path are observationally equivalent (DESIGN.md §3 C05).
//
// Twin runs with identical prior history: the same scenario (world, configuration, query
// packets at the same fake instants from the same clients) is executed twice, once with
// every packet entering through the owned UDP transport (strict wire path: raw-packet
// admission, wire cache ladder, byte-built OPT, inline serve and worker replay) and once
// with every packet decoded first and entering through Server.ServeMsg. Reply i of one run
// must decode to the same message as reply i of the other, and the two runs must agree on
// which packets get no reply.

type C05Opt struct {
	Code uint16 `json:"code"`
	Hex  string `json:"hex,omitempty"`
}

type C05Op struct {
	GapMs  int      `json:"gap"`
	Client int      `json:"c"`
	Name   int      `json:"n"`
	Type   uint16   `json:"t"`
	Class  uint16   `json:"cl,omitempty"`
	NoRD   bool     `json:"nord,omitempty"`
	CD     bool     `json:"cd,omitempty"`
	AD     bool     `json:"ad,omitempty"`
	EDNS   bool     `json:"edns,omitempty"`
	Ver    uint8    `json:"ver,omitempty"`
	Size   uint16   `json:"size,omitempty"`
	DO     bool     `json:"do,omitempty"`
	Opts   []C05Opt `json:"opts,omitempty"`
	Upper  uint32   `json:"upper,omitempty"` // letter-case mask of the question name
}

type C05Scenario struct {
	NSID       string   `json:"nsid,omitempty"`
	Cookie     string   `json:"cookie_secret,omitempty"`
	Blocklist  []string `json:"blocklist,omitempty"`
	ClientRate int      `json:"client_rate,omitempty"`
	Prefetch   uint32   `json:"prefetch,omitempty"`
	RFC8198Off bool     `json:"rfc8198_off,omitempty"`
	Ops        []C05Op  `json:"ops"`
}

func init() {
	kit.Register(&kit.Prop{
		ID:    "C05",
		Level: "exploration",
		Rule: "Scenario = configuration (NSID, cookie secret, blocklist, client rate limit, prefetch, RFC 8198) + 6-30 query packets over a signed " +
			"hierarchy (answers, in-zone and cross-zone aliases, wildcard expansions, NXDOMAIN and names below it, NODATA, empty zones, blocked " +
			"names, unreachable zones, CHAOS) with generated header bits and EDNS (version, size, DO, cookie of 8/24 bytes, NSID, keepalive, " +
			"padding, client subnet, unknown options), repeated so that later packets are served from what earlier ones cached. Each scenario " +
			"runs twice (wire ingress / decoded ingress). Non-trivial = at least one reply was served by the inline wire path from cached state. " +
			"Distinct = hash of per-operation (name family, type, EDNS shape, rcode, answer count).",
		Assumptions: []string{
			"'identical prior history' is realised by twin runs from the same seeds; the decoded run enters at Server.ServeMsg with a recording UDP-like transport, the wire run through the simulated socket and the real engine",
			"packets the engine rejects on the header alone (QR set, opcode, section counts) are not generated: they never reach either path",
			"hosts-file state is not generated",
		},
		Components: kit.Components{
			Real: []string{"server UDP engine + Server.ServeRaw/ServeRawInline/ServeRawReplay (wire run)", "Server.ServeMsg (decoded run)", "whole chain: edns, ratelimit, reflex, as112, blocklist, cache wire ladder and Msg ladder, resolver, DNSSEC validation"},
			Stub: []string{"kernel sockets/syscalls (simsock)", "upstream network and authoritative servers (simnet/authsim)"},
		},
		Gen:       func(r *kit.RNG, tier string) any { return genC05(r) },
		Blank:     func() any { return &C05Scenario{} },
		Run:       func(sc any, tr *kit.Trace) *kit.Result { return runC05(sc.(*C05Scenario), tr) },
		Shrink:    shrinkC05,
		Warmup:    true,
		PerChunk:  8,
		Quick:     1600,
		Thorough:  120000,
	})
}

var c05Names = []string{
	"www.sec.test.",      // 0 A, signed
	"alias.sec.test.",    // 1 CNAME -> www.sec.test.
	"far.sec.test.",      // 2 CNAME -> www.plain.test. (cross-zone, insecure target)
	"x.w.sec.test.",      // 3 wildcard expansion
	"nx.sec.test.",       // 4 NXDOMAIN
	"a.b.nx.sec.test.",   // 5 below a denied name
	"txt.sec.test.",      // 6 large TXT
	"www.plain.test.",    // 7 unsigned zone
	"nx.plain.test.",     // 8
	"host.dead.test.",    // 9 servers unreachable
	"1.0.0.10.in-addr.arpa.", // 10 empty zone (as112)
	"ads.blocked.test.",  // 11 blocklist
	"version.bind.",      // 12 CHAOS
	"ent.x.sec.test.",    // 13 below an empty non-terminal
	"sec.test.",          // 14 apex (SOA/NS/DNSKEY/DS)
	"two.sec.test.",      // 15 two A records
	"back.plain.test.",   // 16 CNAME -> www.sec.test. (insecure alias, secure target)
	"big.sec.test.",      // 17 TXT answer above the server's 1232-byte UDP ceiling, below 4096
}

// c05UnnamedType: a question type the DNS library has no mnemonic for (private use range).
const c05UnnamedType = 65280

// c05AliasTarget: alias name index -> index of the name its chain ends at.
var c05AliasTarget = map[int]int{1: 0, 2: 7, 16: 0}

func c05Spec(sc *C05Scenario) *world.Spec {
	return &world.Spec{
		Zones: []world.ZoneSpec{
			{Name: ".", Signed: true, Alg: dns.ED25519, KeyIdx: 1, NSNames: []string{"a.root-servers.net."}, Addrs: []string{"198.41.0.4"}},
			{Name: "test.", Signed: true, Secure: true, Alg: dns.ED25519, KeyIdx: 2, NSNames: []string{"ns.test."}, Addrs: []string{"192.0.9.1"}},
			{Name: "sec.test.", Signed: true, Secure: true, Alg: dns.ED25519, KeyIdx: 3, NSNames: []string{"ns.sec.test."}, Addrs: []string{"192.0.9.2"},
				Records: []string{"www.sec.test. 300 IN A 192.0.2.1", "www.sec.test. 300 IN AAAA 2001:db8::1", "alias.sec.test. 120 IN CNAME www.sec.test.",
					"far.sec.test. 200 IN CNAME www.plain.test.", "*.w.sec.test. 60 IN A 192.0.2.9", "a.ent.x.sec.test. 300 IN A 192.0.2.7",
					"two.sec.test. 90 IN A 192.0.2.21", "two.sec.test. 90 IN A 192.0.2.22",
					fmt.Sprintf("txt.sec.test. 300 IN TXT \"%s\" \"%s\" \"%s\"", strings.Repeat("t", 200), strings.Repeat("u", 200), strings.Repeat("v", 200)),
					"big.sec.test. 300 IN TXT " + strings.Repeat("\""+strings.Repeat("b", 200)+"\" ", 7)}},
			{Name: "plain.test.", NSNames: []string{"ns.plain.test."}, Addrs: []string{"192.0.9.3"}, Records: []string{"www.plain.test. 150 IN A 192.0.2.2", "back.plain.test. 100 IN CNAME www.sec.test."}},
			{Name: "dead.test.", NSNames: []string{"ns.dead.test."}, Addrs: []string{"192.0.9.4"}},
			{Name: "blocked.test.", NSNames: []string{"ns.blocked.test."}, Addrs: []string{"192.0.9.5"}, Records: []string{"ads.blocked.test. 300 IN A 192.0.2.66"}},
		},
		Cfg: world.CfgSpec{NSID: sc.NSID, CookieSecret: sc.Cookie, Blocklist: sc.Blocklist, ClientRate: sc.ClientRate, Prefetch: sc.Prefetch,
			RFC8198Off: sc.RFC8198Off, QueryTimeoutS: 5, TimeoutMs: 1500},
	}
}

func genC05(r *kit.RNG) *C05Scenario {
	sc := &C05Scenario{}
	if r.Chance(0.5) {
		sc.NSID = kit.Pick(r, []string{"6e73", "736572766572"})
	}
	if r.Chance(0.7) {
		sc.Cookie = "0123456789abcdef0123456789abcdef"
	}
	if r.Chance(0.5) {
		sc.Blocklist = []string{"blocked.test"}
	}
	if r.Chance(0.15) {
		sc.ClientRate = kit.Pick(r, []int{2, 10, 60})
	}
	if r.Chance(0.2) {
		sc.Prefetch = 50
	}
	sc.RFC8198Off = r.Chance(0.3)
	pool := []int{r.Intn(len(c05Names)), r.Intn(len(c05Names)), r.Intn(len(c05Names)), r.Intn(len(c05Names))}
	types := []uint16{dns.TypeA, dns.TypeA, dns.TypeA, dns.TypeAAAA, dns.TypeTXT, dns.TypeMX, dns.TypeNS, dns.TypeSOA, dns.TypeDS, dns.TypeDNSKEY, dns.TypeCNAME, dns.TypePTR, dns.TypeANY, dns.TypeRRSIG}
	if r.Chance(0.35) {
		// alias recipe: the target and the alias get cached, then the alias is asked again
		// with varying negotiation so that the reply is composed from cached pieces
		alias := kit.Pick(r, []int{1, 2, 16})
		target := map[int]int{1: 0, 2: 7, 16: 0}[alias]
		qt := kit.Pick(r, []uint16{dns.TypeA, dns.TypeA, dns.TypeAAAA, dns.TypeTXT})
		seq := []int{target, alias, alias, alias}
		if r.Chance(0.5) {
			seq = []int{alias, alias, target, alias}
		}
		for _, nm := range seq {
			op := C05Op{GapMs: kit.Pick(r, []int{5, 50, 400, 2000}), Client: r.Intn(3), Name: nm, Type: qt, AD: r.Chance(0.5), CD: r.Chance(0.15)}
			if r.Chance(0.7) {
				op.EDNS, op.Size, op.DO = true, kit.Pick(r, []uint16{512, 1232, 4096}), r.Chance(0.5)
			}
			sc.Ops = append(sc.Ops, op)
		}
	}
	if r.Chance(0.2) {
		// size recipe: an answer around the size ceilings gets cached, then clients advertising
		// sizes on both sides of the answer's size and of the server's own ceiling ask for it
		nm := kit.Pick(r, []int{17, 17, 6})
		for j, k := 0, r.Range(3, 5); j < k; j++ {
			op := C05Op{GapMs: kit.Pick(r, []int{5, 50, 400, 2000}), Client: r.Intn(3), Name: nm, Type: dns.TypeTXT, EDNS: j == 0 || r.Chance(0.85),
				Size: kit.Pick(r, []uint16{512, 660, 700, 720, 1232, 1233, 1400, 1480, 1500, 4096, 4096, 65535}), DO: r.Chance(0.4)}
			if r.Chance(0.3) {
				op.Upper = uint32(r.Uint64())
			}
			sc.Ops = append(sc.Ops, op)
		}
	}
	if r.Chance(0.15) {
		// unservable-type recipe: a denial (or a failure) that covers a whole subtree gets cached,
		// then a name under it is asked with a type the server has no mnemonic for: such a
		// packet is dropped, whatever is cached over the name
		lead, under := 4, kit.Pick(r, []int{5, 4, 5})
		if r.Chance(0.35) {
			lead, under = 9, 9
		}
		cd := lead == 9 && r.Chance(0.6)
		sc.Ops = append(sc.Ops, C05Op{GapMs: 5, Client: r.Intn(3), Name: lead, Type: dns.TypeA, CD: cd, EDNS: true, Size: 1232, DO: r.Chance(0.5)})
		for j, k := 0, r.Range(1, 3); j < k; j++ {
			op := C05Op{GapMs: kit.Pick(r, []int{5, 50, 400, 2000}), Client: r.Intn(3), Name: under, Type: c05UnnamedType, CD: cd, AD: r.Chance(0.3)}
			if r.Chance(0.7) {
				op.EDNS, op.Size, op.DO = true, kit.Pick(r, []uint16{512, 1232, 4096}), r.Chance(0.5)
			}
			sc.Ops = append(sc.Ops, op)
		}
	}
	n := r.Range(6, 30)
	for i := 0; i < n; i++ {
		op := C05Op{GapMs: kit.Pick(r, []int{1, 5, 50, 400, 2000, 7000, 31000, 70000}), Client: r.Intn(3), Name: kit.Pick(r, pool), Type: kit.Pick(r, types)}
		if r.Chance(0.03) {
			op.Type = c05UnnamedType
		}
		if r.Chance(0.2) {
			op.Name = r.Intn(len(c05Names))
		}
		if i > 0 && r.Chance(0.45) {
			// the same question again: served from what the first one left behind
			prev := sc.Ops[r.Intn(len(sc.Ops))]
			op.Name, op.Type, op.Class = prev.Name, prev.Type, prev.Class
		}
		if op.Name == 12 {
			op.Class, op.Type = dns.ClassCHAOS, dns.TypeTXT
		}
		if op.Name == 10 && r.Chance(0.7) {
			op.Type = dns.TypePTR
		}
		op.NoRD = r.Chance(0.08)
		op.CD = r.Chance(0.15)
		op.AD = r.Chance(0.25)
		if r.Chance(0.3) {
			op.Upper = uint32(r.Uint64())
		}
		if r.Chance(0.75) {
			op.EDNS = true
			op.Size = kit.Pick(r, []uint16{0, 100, 512, 700, 1232, 1232, 4096, 65535})
			op.DO = r.Chance(0.5)
			if r.Chance(0.05) {
				op.Ver = 1
			}
			hasCookie := false
			for j, m := 0, r.Intn(3); j < m; j++ {
				k := r.Intn(9)
				if k == 8 && !r.Chance(0.4) {
					k = 5
				}
				if k == 0 || k == 1 || k == 7 {
					if hasCookie {
						continue // one COOKIE option per query (RFC 7873 §5.2 leaves several undefined)
					}
					hasCookie = true
				}
				switch k {
				case 0:
					op.Opts = append(op.Opts, C05Opt{Code: dns.EDNS0COOKIE, Hex: fmt.Sprintf("%016x", 0x1122334455667700+uint64(op.Client))})
				case 1: // client+server cookie (the server part is whatever an earlier reply may have carried; here fixed bytes)
					op.Opts = append(op.Opts, C05Opt{Code: dns.EDNS0COOKIE, Hex: fmt.Sprintf("%016x", 0x1122334455667700+uint64(op.Client)) + "00112233445566778899aabbccddeeff"})
				case 2:
					op.Opts = append(op.Opts, C05Opt{Code: dns.EDNS0NSID})
				case 3:
					op.Opts = append(op.Opts, C05Opt{Code: dns.EDNS0TCPKEEPALIVE})
				case 4:
					op.Opts = append(op.Opts, C05Opt{Code: dns.EDNS0PADDING, Hex: strings.Repeat("00", r.Intn(20))})
				case 5:
					op.Opts = append(op.Opts, C05Opt{Code: dns.EDNS0SUBNET, Hex: "00011800c00002"}) // 192.0.2.0/24
				case 6:
					op.Opts = append(op.Opts, C05Opt{Code: 65001, Hex: "cafe"})
				case 8: // client subnet with a scope length beyond the family's address length: the packet does not decode
					op.Opts = append(op.Opts, C05Opt{Code: dns.EDNS0SUBNET, Hex: kit.Pick(r, []string{"00011821c00002", "000118ffc00002", "0002388120010db8000001"})})
				default:
					op.Opts = append(op.Opts, C05Opt{Code: dns.EDNS0COOKIE, Hex: "0102"}) // malformed cookie length
				}
			}
		}
		sc.Ops = append(sc.Ops, op)
	}
	return sc
}

func c05Packet(op C05Op, i int) []byte {
	name := c05Names[op.Name%len(c05Names)]
	if op.Upper != 0 {
		b := []byte(name)
		k := 0
		for j := range b {
			if b[j] >= 'a' && b[j] <= 'z' {
				if op.Upper>>uint(k%32)&1 == 1 {
					b[j] -= 32
				}
				k++
			}
		}
		name = string(b)
	}
	m := new(dns.Msg)
	cl := op.Class
	if cl == 0 {
		cl = dns.ClassINET
	}
	m.Question = []dns.Question{{Name: name, Qtype: op.Type, Qclass: cl}}
	m.Id = uint16(1000 + i)
	m.RecursionDesired = !op.NoRD
	m.CheckingDisabled = op.CD
	m.AuthenticatedData = op.AD
	if op.EDNS {
		o := &dns.OPT{Hdr: dns.RR_Header{Name: ".", Rrtype: dns.TypeOPT}}
		o.SetUDPSize(op.Size)
		o.SetVersion(op.Ver)
		if op.DO {
			o.SetDo()
		}
		for _, x := range op.Opts {
			data, _ := hex.DecodeString(x.Hex)
			o.Option = append(o.Option, &dns.EDNS0_LOCAL{Code: x.Code, Data: data})
		}
		m.Extra = append(m.Extra, o)
	}
	b, err := m.Pack()
	if err != nil {
		panic(err)
	}
	return b
}

func c05Client(c int) netip.AddrPort {
	return netip.AddrPortFrom(netip.AddrFrom4([4]byte{10, 5, 0, byte(1 + c)}), uint16(41000+c))
}

// c05World runs the scenario through one ingress and returns the raw reply (nil = none)
// of every operation.
func c05World(sc *C05Scenario, wire bool, tr *kit.Trace, res *kit.Result) (replies [][]byte, inline int64, ok bool) {
	kit.Bubble(func() {
		spec := c05Spec(sc)
		faults := []simnet.Fault{{Kind: "drop", Addr: "192.0.9.4"}}
		replies = make([][]byte, len(sc.Ops))
		start := 6 * time.Second
		if wire {
			inlineBefore := server.VerifUDPCounters()["inline_served"]
			wireBefore := mcache.VerifWireCounters()
			defer func() {
				for k, v := range mcache.VerifWireCounters() {
					if d := v - wireBefore[k]; d > 0 {
						res.Probes["wire-ladder:"+k] += int(d)
					}
				}
			}()
			g, err := world.NewIng(spec, world.IngSpec{Workers: 64, Queue: 64, Sockets: 1, Spare: 64} /* never queue: a reply delayed behind a busy pool has older TTLs */, 5, tr)
			if err != nil {
				res.Fail("C05/harness", "listener: %v", err)
				return
			}
			defer g.Close()
			g.Net.SetFaults(faults)
			kit.SleepSettle(start)
			for i, op := range sc.Ops {
				kit.SleepSettle(time.Duration(op.GapMs) * time.Millisecond)
				g.Send(0, c05Client(op.Client), c05Packet(op, i))
				kit.Settle()
			}
			kit.SleepSettle(8 * time.Second)
			for _, s := range g.K.Out {
				if len(s.Data) < 2 {
					continue
				}
				id := int(s.Data[0])<<8 | int(s.Data[1])
				i := id - 1000
				if i < 0 || i >= len(sc.Ops) || s.To != c05Client(sc.Ops[i].Client) {
					res.Fail("C05/harness", "wire run: unattributable datagram to %v id %d", s.To, id)
					return
				}
				if replies[i] != nil {
					res.Fail("C05/two-replies", "wire run: op %d got two replies", i)
					return
				}
				replies[i] = s.Data
			}
			inline = server.VerifUDPCounters()["inline_served"] - inlineBefore
			res.SimTime += g.Now()
			ok = true
			return
		}
		r := world.NewRes(spec, 5, tr)
		defer r.Close()
		r.Net.SetFaults(faults)
		kit.SleepSettle(start)
		clients := make([]*world.Client, len(sc.Ops))
		for i, op := range sc.Ops {
			kit.SleepSettle(time.Duration(op.GapMs) * time.Millisecond)
			raw := c05Packet(op, i)
			m := new(dns.Msg)
			if err := m.Unpack(raw); err != nil {
				continue // the engine answers FORMERR itself; not generated
			}
			i, m := i, m
			c := &world.Client{ProtoName: "udp", Local: &net.UDPAddr{IP: net.IPv4(10, 0, 0, 53), Port: 53}, Remote: net.UDPAddrFromAddrPort(c05Client(op.Client))}
			clients[i] = c
			go r.Srv.ServeMsg(nil, c, m) //nolint:staticcheck // nil parent: the server substitutes Background
			kit.Settle()
		}
		kit.SleepSettle(8 * time.Second)
		for i, c := range clients {
			if c == nil {
				continue
			}
			if len(c.Raw) > 1 {
				res.Fail("C05/two-replies", "decoded run: op %d got %d replies", i, len(c.Raw))
				return
			}
			if len(c.Raw) == 1 {
				replies[i] = c.Raw[0]
			}
		}
		res.SimTime += r.Now()
		ok = true
	})
	return
}

// c05CaseTruncation recognises one recorded divergence and nothing else: the wire reply is complete
// and within the client's advertised size, the decoded reply is the truncated form of the same
// question, the question has upper-case letters, and the wire reply re-packed the way the decoded
// path packs it (owner names in the cache's lower case, library compression) exceeds that size.
func c05CaseTruncation(wraw, draw []byte, op C05Op) bool {
	if wraw == nil || draw == nil || !op.EDNS {
		return false
	}
	wm, dm := new(dns.Msg), new(dns.Msg)
	if wm.Unpack(wraw) != nil || dm.Unpack(draw) != nil {
		return false
	}
	if wm.Truncated || !dm.Truncated || len(dm.Answer)+len(dm.Ns) != 0 || wm.Rcode != dm.Rcode || len(wm.Question) != 1 {
		return false
	}
	q := wm.Question[0].Name
	if q == strings.ToLower(q) {
		return false
	}
	limit := int(op.Size)
	if limit < 512 {
		limit = 512
	}
	if limit > 1232 {
		limit = 1232
	}
	if len(wraw) > limit {
		return false
	}
	re := wm.Copy()
	for _, sec := range [][]dns.RR{re.Answer, re.Ns, re.Extra} {
		for _, rr := range sec {
			rr.Header().Name = strings.ToLower(rr.Header().Name)
		}
	}
	re.Compress = true
	return re.Len() > limit
}

// c05Norm renders a reply in the form the property compares: header bits, rcode, question,
// every section's records with TTLs (owner names lower-cased), EDNS version/size/DO/options.
func c05Norm(raw []byte) string {
	if raw == nil {
		return "<no reply>"
	}
	m := new(dns.Msg)
	if err := m.Unpack(raw); err != nil {
		return "<unparsable: " + err.Error() + ">"
	}
	var sb strings.Builder
	fmt.Fprintf(&sb, "id=%d qr=%v op=%d aa=%v tc=%v rd=%v ra=%v z=%v ad=%v cd=%v rcode=%d\n", m.Id, m.Response, m.Opcode, m.Authoritative, m.Truncated,
		m.RecursionDesired, m.RecursionAvailable, m.Zero, m.AuthenticatedData, m.CheckingDisabled, m.Rcode)
	for _, q := range m.Question {
		fmt.Fprintf(&sb, "Q %s %d %d\n", q.Name, q.Qtype, q.Qclass)
	}
	sec := func(tag string, rrs []dns.RR) {
		for _, rr := range rrs {
			if o, ok := rr.(*dns.OPT); ok {
				var opts []string
				for _, e := range o.Option {
					opts = append(opts, fmt.Sprintf("%d:%s", e.Option(), e.String()))
				}
				sort.Strings(opts)
				fmt.Fprintf(&sb, "%s OPT ver=%d size=%d do=%v ext=%d opts=%v\n", tag, o.Version(), o.UDPSize(), o.Do(), o.ExtendedRcode(), opts)
				continue
			}
			c := dns.Copy(rr)
			c.Header().Name = strings.ToLower(c.Header().Name)
			// Names inside RDATA: the wire path compresses them against the question, whose
			// letter case is the client's, so their decoded case follows the question's. That
			// is a consequence of name compression and is normalised like owner case.
			switch x := c.(type) {
			case *dns.NS:
				x.Ns = strings.ToLower(x.Ns)
			case *dns.CNAME:
				x.Target = strings.ToLower(x.Target)
			case *dns.DNAME:
				x.Target = strings.ToLower(x.Target)
			case *dns.PTR:
				x.Ptr = strings.ToLower(x.Ptr)
			case *dns.MX:
				x.Mx = strings.ToLower(x.Mx)
			case *dns.SOA:
				x.Ns, x.Mbox = strings.ToLower(x.Ns), strings.ToLower(x.Mbox)
			case *dns.SRV:
				x.Target = strings.ToLower(x.Target)
			case *dns.NSEC:
				x.NextDomain = strings.ToLower(x.NextDomain)
			case *dns.RRSIG:
				x.SignerName = strings.ToLower(x.SignerName)
			}
			fmt.Fprintf(&sb, "%s %s\n", tag, c.String())
		}
	}
	sec("AN", m.Answer)
	sec("NS", m.Ns)
	sec("AR", m.Extra)
	return sb.String()
}

func runC05(sc *C05Scenario, tr *kit.Trace) *kit.Result {
	res := kit.NewResult()
	wireTr, decTr := &kit.Trace{}, &kit.Trace{}
	wire, inline, ok1 := c05World(sc, true, wireTr, res)
	if !ok1 || res.Viol != nil {
		return res
	}
	dec, _, ok2 := c05World(sc, false, decTr, res)
	if !ok2 || res.Viol != nil {
		return res
	}
	hits, oneApart := 0, 0
	for i, op := range sc.Ops {
		if new(dns.Msg).Unpack(c05Packet(op, i)) != nil {
			// The library cannot decode this packet, so the decoded path never sees it: the
			// transport owes the client a bare FORMERR. The wire path must come to the same
			// verdict on the same bytes (it has its own parser), not answer or drop it.
			w := wire[i]
			if len(w) < 12 || w[3]&0xf != dns.RcodeFormatError || w[6]|w[7]|w[8]|w[9] != 0 {
				res.Fail("C05/paths-differ", "op %d (%s/%s opts=%v): the packet does not decode, so the decoded ingress answers FORMERR; the wire ingress sent %s",
					i, c05Names[op.Name%len(c05Names)], dns.TypeToString[op.Type], op.Opts, c05Norm(w))
				return res
			}
			res.Probes["undecodable-packet-formerr-on-both"]++
			continue
		}
		a, b := c05Norm(wire[i]), c05Norm(dec[i])
		if a != b && c05TTLsWithinOne(a, b) && oneApart < 3 {
			// up to three times per scenario: the two runs reach an entry microseconds of fake
			// time apart, and an operation that sits on a second boundary shows TTLs one apart.
			// A path that is systematically a second off shows it in every hit.
			oneApart++
			res.Probes["ttl-one-apart-at-a-second-boundary"]++
			b = a
		}
		rc := "-"
		if wire[i] != nil && len(wire[i]) > 3 {
			rc = fmt.Sprint(wire[i][3] & 0xf)
		}
		tr.Add("op %d c%d %s/%s edns=%v do=%v opts=%d -> wire %dB rcode=%s, decoded %dB", i, op.Client, c05Names[op.Name%len(c05Names)], dns.TypeToString[op.Type], op.EDNS, op.DO, len(op.Opts), len(wire[i]), rc, len(dec[i]))
		tr.Shape(fmt.Sprintf("%d:%d:%v:%v:%d:%s", op.Name, op.Type, op.EDNS, op.DO, len(op.Opts), rc))
		hopOfEarlierAlias := false
		for j := 0; j < i; j++ {
			if t, isAlias := c05AliasTarget[sc.Ops[j].Name%len(c05Names)]; isAlias && t == op.Name%len(c05Names) {
				hopOfEarlierAlias = true // the same divergence, seen by a later direct question for the hop
			}
		}
		if a != b && sc.Prefetch > 0 && c05NoTTL(a) == c05NoTTL(b) && (strings.Contains(a, "\tCNAME\t") || hopOfEarlierAlias) {
			// the documented divergence of the wire chase composer: hops served through it do not
			// tick the prefetch machinery, the Msg-path chase does (entry_wire_chase.go)
			res.Fail("C05/prefetch-divergence-on-wire-chase", "op %d (%s/%s): with prefetch=%d%% the replies of the wire path and of the decoded path for an alias (or for the target of an alias asked earlier) differ in TTLs only — the decoded chase refreshed a hop the wire chase did not\n--- wire path:\n%s--- decoded path:\n%s",
				i, c05Names[op.Name%len(c05Names)], dns.TypeToString[op.Type], sc.Prefetch, a, b)
			return res
		}
		if a != b && c05CaseTruncation(wire[i], dec[i], op) {
			// recorded finding: the decoded path packs with the library's case-sensitive name
			// compression, so a mixed-case question stops the lower-case owner names of a cached
			// answer from compressing against it; the wire path serves the stored body, whose
			// owners are pointers into the question. A reply that fits the client's size on the
			// wire path is truncated on the decoded path.
			res.Fail("C05/truncation-differs-on-mixed-case-question", "op %d (%s/%s, edns size=%d): the wire path sent the full %d-byte reply, the decoded path truncated: with the question in mixed case the decoded path's case-sensitive compression cannot point the answer's owner names at the question and measures the reply above the client's limit\n--- wire path:\n%s--- decoded path:\n%s",
				i, c05Names[op.Name%len(c05Names)], dns.TypeToString[op.Type], op.Size, len(wire[i]), a, b)
			return res
		}
		if a != b {
			res.Fail("C05/paths-differ", "op %d (%s/%s class %d from client %d, edns=%v ver=%d size=%d do=%v opts=%v rd=%v cd=%v ad=%v): the wire ingress and the decoded ingress answered differently after identical histories\n--- wire path:\n%s--- decoded path:\n%s",
				i, c05Names[op.Name%len(c05Names)], dns.TypeToString[op.Type], op.Class, op.Client, op.EDNS, op.Ver, op.Size, op.DO, op.Opts, !op.NoRD, op.CD, op.AD, a, b)
			return res
		}
		if i > 0 && wire[i] != nil {
			for j := 0; j < i; j++ {
				if sc.Ops[j].Name == op.Name && sc.Ops[j].Type == op.Type {
					hits++
					break
				}
			}
		}
	}
	res.Probes["inline-wire-served"] += int(inline)
	if hits > 0 && inline > 0 {
		res.Nontrivial = true
		res.Probes["repeat-question-served"] += hits
	}
	return res
}

func shrinkC05(sc any, fails func(any) bool) any {
	cur := sc.(*C05Scenario)
	budget := 60
	cur.Ops = kit.DDMin(cur.Ops, &budget, func(xs []C05Op) bool { c := *cur; c.Ops = xs; return len(xs) > 0 && fails(&c) })
	for _, f := range []func(c *C05Scenario){
		func(c *C05Scenario) { c.NSID = "" },
		func(c *C05Scenario) { c.Blocklist = nil },
		func(c *C05Scenario) { c.ClientRate = 0 },
		func(c *C05Scenario) { c.Prefetch = 0 },
		func(c *C05Scenario) { c.RFC8198Off = false },
	} {
		c := *cur
		f(&c)
		if fails(&c) {
			cur = &c
		}
	}
	// simplify the last operation's EDNS options one by one
	for len(cur.Ops) > 0 {
		last := len(cur.Ops) - 1
		if len(cur.Ops[last].Opts) == 0 {
			break
		}
		c := *cur
		c.Ops = append([]C05Op(nil), cur.Ops...)
		c.Ops[last].Opts = c.Ops[last].Opts[:len(c.Ops[last].Opts)-1]
		if !fails(&c) {
			break
		}
		cur = &c
	}
	return cur
}

// c05NoTTL blanks the TTL column of every record line of a normalised reply.
// c05TTLsWithinOne reports whether two normalised replies are equal except that corresponding
// TTLs differ by at most one second. A TTL is "expiry minus now" cut to whole seconds; the two
// runs reach the same entry a few microseconds of fake time apart (the ingress paths differ in
// length), so an operation that lands on a second boundary shows TTLs one apart. That is the
// resolution of the measurement, not a difference between the paths.
func c05TTLsWithinOne(a, b string) bool {
	if c05NoTTL(a) != c05NoTTL(b) {
		return false
	}
	la, lb := strings.Split(a, "\n"), strings.Split(b, "\n")
	if len(la) != len(lb) {
		return false
	}
	for i := range la {
		if la[i] == lb[i] {
			continue
		}
		fa, fb := strings.Split(la[i], "\t"), strings.Split(lb[i], "\t")
		if len(fa) < 4 || len(fb) < 4 {
			return false
		}
		x, e1 := strconv.Atoi(fa[1])
		y, e2 := strconv.Atoi(fb[1])
		if e1 != nil || e2 != nil || x-y > 1 || y-x > 1 {
			return false
		}
	}
	return true
}

func c05NoTTL(norm string) string {
	lines := strings.Split(norm, "\n")
	for i, l := range lines {
		f := strings.Split(l, "\t")
		if len(f) > 3 && (strings.HasPrefix(l, "AN ") || strings.HasPrefix(l, "NS ") || strings.HasPrefix(l, "AR ")) {
			f[1] = "TTL"
			lines[i] = strings.Join(f, "\t")
		}
	}
	return strings.Join(lines, "\n")
}
