package props

import (
	"fmt"
	"net"
	"net/netip"
	"strings"
	"time"

	"github.com/miekg/dns"
	"github.com/semihalev/sdns/config"

	"verifsim/authsim"
	"verifsim/kit"
	"verifsim/simnet"
	"verifsim/world"
)

// C19 — client subnet data is neither leaked upstream nor across audiences
// (DESIGN.md §3 C19). W-res: a geo-style authoritative zone answers according to the ECS
// option it receives and records the OPT of every query any server receives.

type C19ECS struct {
	Family  int    `json:"family"` // 1 | 2
	Addr    string `json:"addr"`
	Netmask int    `json:"netmask"`
}

type C19Op struct {
	Client  string  `json:"client"` // source address
	Name    string  `json:"name"`
	Type    uint16  `json:"type"`
	ECS     *C19ECS `json:"ecs,omitempty"`
	Other   []string `json:"other,omitempty"` // other client options: cookie nsid padding keepalive local
	CD      bool    `json:"cd,omitempty"`
	GapMs   int     `json:"gap_ms"`
}

type C19Scenario struct {
	Seed      uint64   `json:"seed"`
	Enabled   bool     `json:"enabled"`
	V4Max     int      `json:"v4_max"`
	V6Max     int      `json:"v6_max"`
	Networks  []string `json:"networks,omitempty"`
	LimitS    int      `json:"limit_s"`
	MinV4     int      `json:"min_v4"`
	MinV6     int      `json:"min_v6"`
	ScopeMode string   `json:"scope_mode"` // zero | same | narrower | wider | fixed
	ScopeBits int      `json:"scope_bits"`
	TTL       int      `json:"ttl"`
	Prefetch  uint32   `json:"prefetch"`
	Signed    bool     `json:"signed"`
	Ops       []C19Op  `json:"ops"`
}

func init() {
	kit.Register(&kit.Prop{
		ID:    "C19",
		Level: "exploration",
		Rule: "Scenario = ECS policy (enabled/disabled, forward ceilings incl. invalid values, client networks incl. invalid entries, scoped-TTL cap, scope " +
			"floors) + a geo-style authoritative zone that answers per received subnet and declares a scope (zero, same, narrower, wider, fixed) + sequences " +
			"of clients from different addresses sending client-subnet options of both families with any netmask, host bits set or family/address mismatch, " +
			"plus cookie/NSID/padding/keepalive/local options, over fake-time gaps across the scoped TTL cap, optionally hot with prefetch on. Oracle: the " +
			"OPT every authoritative server received (no client option but a policy-conformant, truncated, host-bit-free subnet, only for allowed clients), " +
			"no ECS in any client reply, audience tags in rdata (a scoped answer reaches only clients inside its effective scope; unscoped clients never get " +
			"scoped answers), scoped answers not older than the cap, no upstream geo query without a client query behind it. Non-trivial = a subnet was " +
			"forwarded upstream or a scoped answer was served from cache; distinct = hash of (forwarded?, tag class, served-from-cache) sequence.",
		Assumptions: []string{
			"the geo server encodes the audience it answered for, the scope it declared and a serial in the rdata, so every cached answer is attributable",
			"the shared-denial clause (ECS/CD questions neither create nor consume synthesised denials) is checked for ECS on a signed geo zone in a simplified form",
		},
		Components: kit.Components{
			Real: []string{"full default middleware chain", "edns middleware ECS policy", "cache scoped entries", "resolver"},
			Stub: []string{"kernel sockets (simnet)", "authoritative servers (authsim + geo responder)", "disk (simdisk)"},
		},
		Gen:      func(r *kit.RNG, tier string) any { return genC19(r) },
		Blank:    func() any { return &C19Scenario{} },
		Run:      func(sc any, tr *kit.Trace) *kit.Result { return runC19(sc.(*C19Scenario), tr) },
		Shrink:   shrinkC19,
		Warmup:   true,
		PerChunk: 40,
		Quick:    3000,
		Thorough: 120000,
	})
}

func genC19(r *kit.RNG) *C19Scenario {
	sc := &C19Scenario{Seed: r.Uint64(), Enabled: r.Chance(0.85), V4Max: kit.Pick(r, []int{0, 8, 16, 24, 24, 32, 40}), V6Max: kit.Pick(r, []int{0, 32, 48, 56, 64, 128, 200}),
		LimitS: kit.Pick(r, []int{0, 5, 30}), MinV4: kit.Pick(r, []int{0, 0, 8, 16, 24, 0, 0, 8, 16, 24, 40 /* out of range: the whole block is invalid */}), MinV6: kit.Pick(r, []int{0, 0, 32, 48, 0, 0, 32, 48, 0, 32, 48, 200 /* out of range */}),
		ScopeMode: kit.Pick(r, []string{"zero", "same", "same", "narrower", "wider", "fixed"}), ScopeBits: kit.Pick(r, []int{0, 8, 16, 20, 24, 28, 32}),
		TTL: kit.Pick(r, []int{5, 20, 60, 300}), Prefetch: uint32(kit.Pick(r, []int{0, 0, 50, 90})), Signed: r.Chance(0.3)}
	switch r.Intn(5) {
	case 0:
		sc.Networks = []string{"10.0.0.0/8"}
	case 1:
		sc.Networks = []string{"10.1.0.0/16", "2001:db8::/32"}
	case 2:
		sc.Networks = []string{"bogus/99"}
	}
	// (the mapped forms are the same IPv4 hosts as a dual-stack listener reports them)
	clients := []string{"10.1.1.1", "10.1.2.2", "10.2.0.9", "192.168.7.7", "2001:db8::1", "2001:db9::5", "::ffff:10.1.1.1", "::ffff:10.2.0.9"}
	// 198.51.0.9 and 2001:db8:1::7 sit at the start of the shorter prefixes of their neighbours
	// (198.51.7.7/16 and 198.51.0.9/24 share the network address 198.51.0.0)
	subnets4 := []string{"198.51.100.77", "198.51.100.200", "198.51.101.1", "198.51.7.7", "203.0.113.5", "198.51.0.9"}
	subnets6 := []string{"2001:db8:1:2:3:4:5:6", "2001:db8:1:2::9", "2001:db8:ffff::1", "2001:db8:1::7"}
	names := []string{"www.geo.test.", "www.geo.test.", "cdn.geo.test.", "nx.geo.test.", "plain.geo.test.", "none.geo.test." /* tailored NODATA */}
	n := r.Range(5, 22)
	for i := 0; i < n; i++ {
		op := C19Op{Client: kit.Pick(r, clients), Name: kit.Pick(r, names), Type: uint16(kit.Pick(r, []int{16, 16, 16, 1})), CD: r.Chance(0.08),
			GapMs: kit.Pick(r, []int{0, 10, 1000, 4000, 6000, 12000, 31000, 61000})}
		if r.Chance(0.75) {
			if r.Chance(0.7) {
				op.ECS = &C19ECS{Family: 1, Addr: kit.Pick(r, subnets4), Netmask: kit.Pick(r, []int{0, 8, 16, 20, 24, 24, 25, 32})}
			} else {
				op.ECS = &C19ECS{Family: 2, Addr: kit.Pick(r, subnets6), Netmask: kit.Pick(r, []int{0, 32, 48, 56, 64, 128})}
			}
			if r.Chance(0.08) { // family/address mismatch
				op.ECS.Family = 3 - op.ECS.Family
			}
		}
		for _, o := range []string{"cookie", "nsid", "padding", "keepalive", "local"} {
			if r.Chance(0.15) {
				op.Other = append(op.Other, o)
			}
		}
		sc.Ops = append(sc.Ops, op)
	}
	return sc
}

func c19Spec(sc *C19Scenario) *world.Spec {
	sp := &world.Spec{}
	alg := uint8(dns.ED25519)
	sp.Zones = []world.ZoneSpec{
		{Name: ".", Signed: sc.Signed, Alg: alg, KeyIdx: 0, NSNames: []string{"a.root-servers.net."}, Addrs: []string{"198.41.0.4"}, Records: []string{"a.root-servers.net. 518400 IN A 198.41.0.4"}},
		{Name: "test.", Signed: sc.Signed, Alg: alg, KeyIdx: 1, Secure: true, NSNames: []string{"ns.test."}, Addrs: []string{"192.0.2.10"}, Records: []string{"ns.test. 3600 IN A 192.0.2.10"}},
		{Name: "geo.test.", Signed: sc.Signed, Alg: alg, KeyIdx: 2, Secure: true, NSNames: []string{"ns1.geo.test."}, Addrs: []string{"192.0.2.20"}, SOAMin: 30,
			Records: []string{"ns1.geo.test. 3600 IN A 192.0.2.20", fmt.Sprintf("plain.geo.test. %d IN TXT \"aud=global scope=0 serial=0\"", sc.TTL), fmt.Sprintf("plain.geo.test. %d IN A 10.7.7.7", sc.TTL), "none.geo.test. 300 IN A 10.7.7.8"}},
	}
	sp.Cfg.DNSSECOff = !sc.Signed
	sp.Cfg.Prefetch = sc.Prefetch
	sp.Cfg.ECS = &config.ECSConfig{Enabled: sc.Enabled, ForwardV4Max: uint8(sc.V4Max), ForwardV6Max: uint8(sc.V6Max), ClientNetworks: sc.Networks,
		MinScopeV4: uint8(sc.MinV4), MinScopeV6: uint8(sc.MinV6)}
	sp.Cfg.ECS.CacheLimitTTL.Duration = time.Duration(sc.LimitS) * time.Second
	sp.Cfg.CookieSecret = "s3cr3t"
	sp.Cfg.NSID = "sim"
	return sp
}

type c19Policy struct {
	valid   bool
	v4, v6  int
	nets    []netip.Prefix
	minV4, minV6 int
}

func c19BuildPolicy(sc *C19Scenario) c19Policy {
	p := c19Policy{valid: sc.Enabled, v4: sc.V4Max, v6: sc.V6Max, minV4: sc.MinV4, minV6: sc.MinV6}
	if p.v4 == 0 {
		p.v4 = 24
	}
	if p.v6 == 0 {
		p.v6 = 56
	}
	if p.v4 > 32 || p.v6 > 128 || p.minV4 > 32 || p.minV6 > 128 {
		p.valid = false
	}
	if p.minV4 == 0 {
		p.minV4 = p.v4
	}
	if p.minV6 == 0 {
		p.minV6 = p.v6
	}
	for _, s := range sc.Networks {
		pf, err := netip.ParsePrefix(s)
		if err != nil {
			p.valid = false
			continue
		}
		p.nets = append(p.nets, pf)
	}
	return p
}

func (p c19Policy) allows(client netip.Addr) bool {
	if !p.valid {
		return false
	}
	client = client.Unmap()
	if len(p.nets) == 0 {
		return true
	}
	for _, n := range p.nets {
		if n.Contains(client) {
			return true
		}
	}
	return false
}

type c19Up struct {
	at    time.Duration
	name  string
	opts  []string
	ecs   *dns.EDNS0_SUBNET
	toGeo bool
}

// c19Denials is the second phase: shared synthesised denials (RFC 8020 subtree cuts) and
// queries that carry ECS or CD, through both ingress paths. A signed zone denies nx.sq.test.
// to a plain client (the cut becomes shared state), then gains below.nx.sq.test.; a query
// for that name carrying ECS or CD must be resolved, not answered from the cut. Conversely
// a denial obtained by an ECS-carrying query must not become a cut for plain clients.
func c19Denials(sc *C19Scenario, tr *kit.Trace, res *kit.Result) {
	spec := &world.Spec{
		Zones: []world.ZoneSpec{
			{Name: ".", Signed: true, Alg: dns.ED25519, KeyIdx: 1, NSNames: []string{"a.root-servers.net."}, Addrs: []string{"198.41.0.4"}},
			{Name: "test.", Signed: true, Secure: true, Alg: dns.ED25519, KeyIdx: 2, NSNames: []string{"ns.test."}, Addrs: []string{"192.0.9.1"}},
			{Name: "sq.test.", Signed: true, Secure: true, Alg: dns.ED25519, KeyIdx: 4, NSNames: []string{"ns.sq.test."}, Addrs: []string{"192.0.9.8"},
				Records: []string{"keep.sq.test. 300 IN A 10.9.9.1", "zz.sq.test. 300 IN A 10.9.9.2"}},
			// a second zone for the "creates" half: nothing of it is known before the ECS/CD query
			{Name: "sr.test.", Signed: true, Secure: true, Alg: dns.ED25519, KeyIdx: 5, NSNames: []string{"ns.sr.test."}, Addrs: []string{"192.0.9.9"},
				Records: []string{"keep.sr.test. 300 IN A 10.9.8.1", "zz.sr.test. 300 IN A 10.9.8.2"}},
		},
		Cfg: c19Spec(sc).Cfg,
	}
	g, err := world.NewIng(spec, world.IngSpec{Workers: 16, Queue: 16, Sockets: 1, Spare: 16}, sc.Seed, tr)
	if err != nil {
		res.Fail("C19/harness", "listener: %v", err)
		return
	}
	defer g.Close()
	kit.SleepSettle(3 * time.Second)
	rng := kit.NewRNG(sc.Seed ^ 0xdead)
	id := uint16(7000)
	ask := func(name string, ecs, cd, wire bool) *dns.Msg {
		id++
		q := new(dns.Msg)
		q.SetQuestion(name, dns.TypeA)
		q.Id = id
		q.CheckingDisabled = cd
		q.SetEdns0(1232, false)
		if ecs {
			o := q.IsEdns0()
			o.Option = append(o.Option, &dns.EDNS0_SUBNET{Code: dns.EDNS0SUBNET, Family: 1, SourceNetmask: 24, Address: net.IPv4(203, 0, 113, 0).To4()})
		}
		client := netip.MustParseAddrPort("10.19.0.1:41900")
		if wire {
			raw, _ := q.Pack()
			before := len(g.K.Out)
			g.Send(0, client, raw)
			kit.SleepSettle(6 * time.Second)
			for _, s := range g.K.Out[before:] {
				if len(s.Data) > 2 && uint16(s.Data[0])<<8|uint16(s.Data[1]) == id {
					m := new(dns.Msg)
					if m.Unpack(s.Data) == nil {
						return m
					}
				}
			}
			return nil
		}
		c := g.Res.Ask(client, "udp", q)
		kit.Settle()
		if len(c.Replies) == 1 {
			return c.Replies[0]
		}
		return nil
	}
	z := g.World.Zones["sq.test."]
	// consume: cut created by a plain client, then ECS/CD queries below it
	if m := ask("nx.sq.test.", false, false, rng.Bool()); m == nil || m.Rcode != dns.RcodeNameError {
		return // the denial itself did not come back as expected: nothing to test here
	}
	z.Add("below.nx.sq.test. 300 IN A 10.9.9.9")
	for _, v := range []struct{ ecs, cd, wire bool }{{true, false, true}, {true, false, false}, {false, true, true}, {false, true, false}} {
		m := ask("below.nx.sq.test.", v.ecs, v.cd, v.wire)
		if m == nil {
			continue
		}
		ingress := map[bool]string{true: "wire", false: "decoded"}[v.wire]
		tr.Add("denial phase: below.nx.sq.test. ecs=%v cd=%v %s -> %s an=%d", v.ecs, v.cd, ingress, dns.RcodeToString[m.Rcode], len(m.Answer))
		tr.Shape(fmt.Sprintf("den:%v:%v:%s:%d", v.ecs, v.cd, ingress, m.Rcode))
		res.Probes["denial-phase-queries"]++
		if m.Rcode == dns.RcodeNameError {
			res.Fail("C19/shared-denial-consumed", "a %s-ingress query for below.nx.sq.test. carrying %s was answered NXDOMAIN from the subtree cut another client's query created, although the zone now holds the name: a query that carried ECS or CD must not consume shared synthesised denials\n%s",
				ingress, map[bool]string{true: "a client-subnet option", false: "CD=1"}[v.ecs], m)
			return
		}
	}
	// create: a denial obtained by an ECS-carrying (or CD) query must not become a shared cut
	viaCD := rng.Bool()
	if m := ask("nx2.sr.test.", !viaCD, viaCD, rng.Bool()); m == nil || m.Rcode != dns.RcodeNameError {
		return
	}
	g.World.Zones["sr.test."].Add("below.nx2.sr.test. 300 IN A 10.9.9.8")
	wire := rng.Bool()
	if m := ask("below.nx2.sr.test.", false, false, wire); m != nil {
		tr.Add("denial phase: below.nx2.sr.test. plain -> %s", dns.RcodeToString[m.Rcode])
		if m.Rcode == dns.RcodeNameError {
			res.Fail("C19/shared-denial-created", "a plain query for below.nx2.sr.test. was answered NXDOMAIN right after the zone gained the name: the only denial in sr.test. so far was obtained by a query carrying %s, which must not create shared synthesised denials\n%s",
				map[bool]string{true: "CD=1", false: "a client-subnet option"}[viaCD], m)
			return
		}
	}
	res.Nontrivial = true
}

func runC19(sc *C19Scenario, tr *kit.Trace) *kit.Result {
	res := kit.NewResult()
	kit.Bubble(func() { execC19(sc, tr, res) })
	if res.Viol == nil && sc.Seed%3 == 0 {
		kit.Bubble(func() { c19Denials(sc, tr, res) })
	}
	return res
}

func execC19(sc *C19Scenario, tr *kit.Trace, res *kit.Result) {
	w := world.NewRes(c19Spec(sc), sc.Seed, tr)
	defer w.Close()
	defer func() { res.SimTime = w.Now(); res.Steps = w.Net.SentCount() }()
	pol := c19BuildPolicy(sc)
	var ups []c19Up
	serial := 0
	serialAt := map[int]time.Duration{}
	denialTag := map[uint32]string{} // SOA serial of a tailored "no data" reply -> audience tag
	geo := w.World.Zones["geo.test."]
	w.Hook = func(addr netip.Addr, q *simnet.Query, honest *authsim.Answer) []simnet.Reply {
		u := c19Up{at: w.Now(), name: dns.CanonicalName(q.Msg.Question[0].Name), toGeo: honest.Zone == geo}
		if o := q.Msg.IsEdns0(); o != nil {
			for _, e := range o.Option {
				switch v := e.(type) {
				case *dns.EDNS0_SUBNET:
					u.ecs = v
					u.opts = append(u.opts, "ecs")
				default:
					u.opts = append(u.opts, fmt.Sprintf("code%d", e.Option()))
				}
			}
		}
		ups = append(ups, u)
		if honest.Zone != geo {
			return nil
		}
		qn := u.name
		denial := qn == "none.geo.test." && !geo.Signed // a tailored "no data" (unsigned zone only: no proof to forge)
		if qn != "www.geo.test." && qn != "cdn.geo.test." && !denial {
			return nil // plain / nx names: honest, no ECS in the reply
		}
		if q.Msg.Question[0].Qtype != dns.TypeTXT {
			return nil
		}
		m := new(dns.Msg)
		m.SetReply(q.Msg)
		m.Authoritative = true
		do := false
		if o := q.Msg.IsEdns0(); o != nil {
			do = o.Do()
			m.SetEdns0(1232, do)
		}
		serial++
		serialAt[serial] = w.Now()
		aud, scope := "global", 0
		if u.ecs != nil {
			src := int(u.ecs.SourceNetmask)
			switch sc.ScopeMode {
			case "zero":
				scope = 0
			case "same":
				scope = src
			case "narrower":
				scope = src + 4
			case "wider":
				scope = src - 8
				if scope < 0 {
					scope = 0
				}
			case "fixed":
				scope = sc.ScopeBits
			}
			maxb := 32
			if u.ecs.Family == 2 {
				maxb = 128
			}
			if scope > maxb {
				scope = maxb
			}
			aud = fmt.Sprintf("%s/%d", u.ecs.Address.String(), src)
			ro := m.IsEdns0()
			if ro == nil {
				m.SetEdns0(1232, do)
				ro = m.IsEdns0()
			}
			ro.Option = append(ro.Option, &dns.EDNS0_SUBNET{Code: dns.EDNS0SUBNET, Family: u.ecs.Family, SourceNetmask: u.ecs.SourceNetmask, SourceScope: uint8(scope), Address: u.ecs.Address})
		}
		if denial {
			// the audience is remembered by the SOA serial the reply carries
			denialTag[uint32(serial)] = fmt.Sprintf("aud=%s scope=%d serial=%d", aud, scope, serial)
			m.Ns = []dns.RR{&dns.SOA{Hdr: dns.RR_Header{Name: "geo.test.", Rrtype: dns.TypeSOA, Class: dns.ClassINET, Ttl: 300}, Ns: "ns1.geo.test.", Mbox: "h.geo.test.",
				Serial: uint32(serial), Refresh: 1, Retry: 1, Expire: 1, Minttl: 300}}
			return world.PackReply(m, q)
		}
		txt := &dns.TXT{Hdr: dns.RR_Header{Name: q.Msg.Question[0].Name, Rrtype: dns.TypeTXT, Class: dns.ClassINET, Ttl: uint32(sc.TTL)},
			Txt: []string{fmt.Sprintf("aud=%s scope=%d serial=%d", aud, scope, serial)}}
		m.Answer = []dns.RR{txt}
		if do && geo.Signed {
			m.Answer = append(m.Answer, geo.SignRRset([]dns.RR{txt}, geo.ZSK, geo.Name, -1))
		}
		return world.PackReply(m, q)
	}
	kit.SleepSettle(5 * time.Second)
	lastOpEnd := w.Now()
	for i, op := range sc.Ops {
		if res.Viol != nil {
			return
		}
		kit.SleepSettle(time.Duration(op.GapMs)*time.Millisecond + 50*time.Millisecond)
		// (5) no upstream geo query between operations (background refresh of scoped data)
		for _, u := range ups {
			if u.toGeo && u.at > lastOpEnd+500*time.Millisecond && (u.name == "www.geo.test." || u.name == "cdn.geo.test.") && u.ecs != nil {
				res.Fail("C19/scoped-background-refresh", "a subnet-bearing query for %s reached the geo server at %v, with no client query in flight (previous one ended %v)", u.name, u.at, lastOpEnd)
				return
			}
		}
		upsBefore := len(ups)
		client := netip.MustParseAddr(op.Client)
		q := new(dns.Msg)
		q.SetQuestion(op.Name, op.Type)
		q.RecursionDesired = true
		q.CheckingDisabled = op.CD
		q.SetEdns0(1232, sc.Signed)
		o := q.IsEdns0()
		if op.ECS != nil {
			ip := net.ParseIP(op.ECS.Addr)
			if op.ECS.Family == 1 && ip.To4() != nil {
				ip = ip.To4()
			}
			o.Option = append(o.Option, &dns.EDNS0_SUBNET{Code: dns.EDNS0SUBNET, Family: uint16(op.ECS.Family), SourceNetmask: uint8(op.ECS.Netmask), Address: ip})
		}
		for _, x := range op.Other {
			switch x {
			case "cookie":
				o.Option = append(o.Option, &dns.EDNS0_COOKIE{Code: dns.EDNS0COOKIE, Cookie: "0123456789abcdef"})
			case "nsid":
				o.Option = append(o.Option, &dns.EDNS0_NSID{Code: dns.EDNS0NSID})
			case "padding":
				o.Option = append(o.Option, &dns.EDNS0_PADDING{Padding: make([]byte, 16)})
			case "keepalive":
				o.Option = append(o.Option, &dns.EDNS0_TCP_KEEPALIVE{Code: dns.EDNS0TCPKEEPALIVE})
			case "local":
				o.Option = append(o.Option, &dns.EDNS0_LOCAL{Code: 65001, Data: []byte("client-secret")})
			}
		}
		start := w.Now()
		c := w.Ask(netip.AddrPortFrom(client, 40000), "udp", q)
		kit.SleepSettle(400 * time.Millisecond)
		lastOpEnd = w.Now()
		if len(c.Replies) != 1 {
			res.Fail("C19/reply-count", "op %d: %d replies", i, len(c.Replies))
			return
		}
		m := c.Replies[0]
		newUps := ups[upsBefore:]
		ctx := fmt.Sprintf("op %d client %s %s/%s ecs=%v", i, op.Client, op.Name, dns.TypeToString[op.Type], op.ECS)
		// expected forwarded subnet
		var want *netip.Prefix
		if op.ECS != nil && pol.allows(client) {
			if a, err := netip.ParseAddr(op.ECS.Addr); err == nil {
				fam := 1
				maxb := pol.v4
				if a.Is6() {
					fam, maxb = 2, pol.v6
				}
				if fam == op.ECS.Family {
					bits := op.ECS.Netmask
					if bits > maxb {
						bits = maxb
					}
					if pf, err := a.Prefix(bits); err == nil {
						want = &pf
					}
				}
			}
		}
		// (1) what reached upstream
		forwarded := false
		for _, u := range newUps {
			for _, oc := range u.opts {
				if oc != "ecs" {
					res.Fail("C19/client-option-leaked-upstream", "%s: EDNS option %s reached an authoritative server (query %s)", ctx, oc, u.name)
					return
				}
			}
			if u.ecs == nil {
				continue
			}
			forwarded = true
			if want == nil {
				res.Fail("C19/subnet-leaked-upstream", "%s: a client-subnet option (%s/%d) was sent upstream although policy forbids it (enabled=%v valid=%v client allowed=%v)", ctx, u.ecs.Address, u.ecs.SourceNetmask, sc.Enabled, pol.valid, pol.allows(client))
				return
			}
			got, ok := netip.AddrFromSlice(u.ecs.Address)
			if !ok {
				res.Fail("C19/subnet-malformed-upstream", "%s: malformed subnet address upstream", ctx)
				return
			}
			got = got.Unmap()
			if int(u.ecs.SourceNetmask) != want.Bits() || got != want.Addr() {
				res.Fail("C19/subnet-not-truncated", "%s: upstream got subnet %s/%d, policy allows exactly %s (ceiling v4 %d / v6 %d, host bits zero)", ctx, got, u.ecs.SourceNetmask, want, pol.v4, pol.v6)
				return
			}
			if u.ecs.SourceScope != 0 {
				res.Fail("C19/subnet-scope-nonzero-upstream", "%s: query carried scope %d", ctx, u.ecs.SourceScope)
				return
			}
		}
		if forwarded {
			res.Nontrivial = true
			res.Probes["forwarded"]++
		}
		// (2) never ECS in a client reply
		if ro := m.IsEdns0(); ro != nil {
			for _, e := range ro.Option {
				if _, ok := e.(*dns.EDNS0_SUBNET); ok {
					res.Fail("C19/subnet-returned-to-client", "%s: the reply carries a client-subnet option", ctx)
					return
				}
			}
		}
		// (3)(4) audience of what was served
		tag := ""
		for _, rr := range m.Answer {
			if t, ok := rr.(*dns.TXT); ok && len(t.Txt) > 0 && strings.HasPrefix(t.Txt[0], "aud=") {
				tag = t.Txt[0]
			}
		}
		var denialSOA *dns.SOA
		if tag == "" && dns.CanonicalName(op.Name) == "none.geo.test." && m.Rcode == dns.RcodeSuccess && len(m.Answer) == 0 {
			for _, rr := range m.Ns {
				if soa, ok := rr.(*dns.SOA); ok && denialTag[soa.Serial] != "" {
					tag, denialSOA = denialTag[soa.Serial], soa
				}
			}
		}
		fromCache := len(newUps) == 0
		tr.AddAt(start, "%s -> %s tag=%q upstream=%d forwarded=%v", ctx, dns.RcodeToString[m.Rcode], tag, len(newUps), forwarded)
		tr.Shape(fmt.Sprintf("%v|%v|%v", forwarded, tag != "" && !strings.HasPrefix(tag, "aud=global"), fromCache))
		if tag == "" {
			continue
		}
		var aud string
		var scope, ser int
		fmt.Sscanf(strings.ReplaceAll(tag, "=", " "), "aud %s scope %d serial %d", &aud, &scope, &ser)
		if aud != "global" && scope > 0 {
			apf, err := netip.ParsePrefix(aud)
			if err != nil {
				continue
			}
			// effective scope: never narrower than what was forwarded or than the floor
			eff := scope
			if eff > apf.Bits() {
				eff = apf.Bits()
			}
			floor := pol.minV4
			if apf.Addr().Is6() {
				floor = pol.minV6
			}
			if eff > floor {
				eff = floor
			}
			if eff == 0 {
				continue // effectively global: clamped to the /0 that was forwarded
			}
			if want == nil {
				res.Fail("C19/scoped-answer-to-unscoped-client", "%s: got the answer %q, produced for subnet %s with scope %d, although this client has no forwarded subnet", ctx, tag, aud, scope)
				return
			}
			sp, _ := apf.Addr().Prefix(eff)
			// inside the scope = the whole subnet the client was identified by lies in it: a client
			// known only as a /16 is not known to be inside a /24 that starts at the same address
			if want.Addr().Is4() != apf.Addr().Is4() || !sp.Contains(want.Addr()) || sp.Bits() > want.Bits() {
				res.Fail("C19/scoped-answer-outside-scope", "%s: got the answer %q; its effective scope is %s, the client's forwarded subnet is %s", ctx, tag, sp, want)
				return
			}
			// capped by the scoped TTL limit: what the client (or a cache behind it) is told to
			// keep the audience-specific answer for, on the reply that fetched it as on later hits
			if sc.LimitS > 0 {
				for _, rr := range m.Answer {
					if t, ok := rr.(*dns.TXT); ok && len(t.Txt) > 0 && t.Txt[0] == tag && int(rr.Header().Ttl) > sc.LimitS {
						res.Fail("C19/scoped-answer-ttl-above-cap", "%s: the scoped answer %q carries TTL %d, the scoped TTL limit is %ds (served from cache: %v)", ctx, tag, rr.Header().Ttl, sc.LimitS, fromCache)
						return
					}
				}
				if denialSOA != nil && int(denialSOA.Hdr.Ttl) > sc.LimitS {
					res.Fail("C19/scoped-answer-ttl-above-cap", "%s: the scoped \"no data\" answer (%s) carries SOA TTL %d, the scoped TTL limit is %ds (served from cache: %v)", ctx, tag, denialSOA.Hdr.Ttl, sc.LimitS, fromCache)
					return
				}
				res.Probes["scoped-ttl-within-cap"]++
			}
			if fromCache {
				res.Nontrivial = true
				res.Probes["scoped-served-from-cache"]++
				if sc.LimitS > 0 {
					if age := start - serialAt[ser]; age > time.Duration(sc.LimitS)*time.Second+time.Second {
						res.Fail("C19/scoped-answer-past-cap", "%s: served scoped answer %q from cache at age %v, cap is %ds", ctx, tag, age, sc.LimitS)
						return
					}
				}
			}
		}
	}
}

func shrinkC19(sc0 any, fails func(any) bool) any {
	sc := sc0.(*C19Scenario)
	budget := 80
	c := *sc
	c.Ops = kit.DDMin(sc.Ops, &budget, func(o []C19Op) bool { t := *sc; t.Ops = o; return fails(&t) })
	return &c
}
