package props

import (
	"github.com/miekg/dns"
	"fmt"
	"time"

	"verifsim/kit"
)

// C11 — exactly one reply per admitted query, in time, whatever upstreams do
// (DESIGN.md §3 C11). Runs on the W-ing engine (ing.go) with upstream zones that are
// slow, silent, or answer with garbage, the wrong question, or truncation followed by a
// dead TCP connection.

func init() {
	kit.Register(&kit.Prop{
		ID:    "C11",
		Level: "exploration",
		Rule: "Scenario = the W-ing scenario of C10 biased to names whose upstreams are slow (1.2 s per answer), silent, or return garbage / " +
			"a different question / TC then a dead TCP connection, many identical or related queries in flight, engine shapes small enough " +
			"to overflow the worker pool. Non-trivial = a query waited on a failing upstream, or followers shared a leader's lookup, or the " +
			"pool overflowed. Distinct = hash of per-operation (kind, name family, reply count, rcode, latency bucket).",
		Assumptions: []string{
			"'small scheduling margin' is taken as 1.5 s of fake time on top of the configured query timeout",
			"shedding is attributed by count: the number of well-formed queries left unanswered must not exceed what the kernel queue and the engine's drop counters say was shed, the poisoned client's queries aside",
			"the owned UDP and TCP listeners are simulated; for stream clients the count and order of replies are judged, latency only through the connection's own behaviour",
		},
		Components: kit.Components{
			Real: []string{"server UDP listener/engine/batch I/O", "server TCP listener/engine/stream", "whole middleware chain, cache dedup, resolver, singleflight, per-query deadlines"},
			Stub: []string{"kernel sockets/syscalls (simsock)", "upstream network (simnet) and authoritative servers (authsim)", "TLS, DoH, DoQ listeners"},
		},
		Gen:      func(r *kit.RNG, tier string) any { return genIng(r, "c11") },
		Blank:    func() any { return &IngScenario{} },
		Run:      func(sc any, tr *kit.Trace) *kit.Result { return runC11(sc.(*IngScenario), tr) },
		Shrink:   shrinkIng,
		Warmup:   true,
		WarmupGen: ingWarmup,
		PerChunk: 10,
		Quick:    12000,
		Thorough: 400000,
	})
}

func runC11(sc *IngScenario, tr *kit.Trace) *kit.Result {
	res := kit.NewResult()
	var suspect string
	kit.Bubble(func() {
		x := execIng(sc, tr, res)
		if x == nil || res.Viol != nil {
			return
		}
		c11Check(x, tr, res)
		if res.Viol == nil {
			suspect = c11ExpiryCoincidence(x, res)
		}
	})
	if suspect == "" || res.Viol != nil {
		return res
	}
	// Counterfactual: the same history without the first client's query (its packet is marked as
	// a response, which is never answered nor resolved). If the second client is answered there,
	// what failed it here was the first client's expiry and nothing else.
	twin := *sc
	twin.Ops = append([]IngOp(nil), sc.Ops...)
	twin.Ops[sc.Stall.A].Kind = "response"
	res2 := kit.NewResult()
	answered := false
	kit.Bubble(func() {
		x2 := execIng(&twin, &kit.Trace{}, res2)
		if x2 == nil || res2.Viol != nil {
			return
		}
		if rb := x2.recs[sc.Stall.B]; rb != nil && len(rb.Replies) == 1 && c11HasAddress(rb.Replies[0].Data) {
			answered = true
		}
	})
	res.SimTime += res2.SimTime
	if answered {
		res.Fail("C11/failed-by-anothers-expiry", "%s; in the same history without the first client's query the second client gets the address", suspect)
	} else {
		res.Probes["expiry-coincidence-not-confirmed-by-counterfactual"]++
	}
	return res
}

// c11ExpiryCoincidence looks at the two clients of the stalled-server recipe: the first ran out
// of time (SERVFAIL at its deadline), the second - younger, with time left - was failed at that
// very instant. Returns a description when that is what happened.
func c11ExpiryCoincidence(x *ingRun, res *kit.Result) string {
	st := x.sc.Stall
	if st == nil || st.A >= len(x.recs) || st.B >= len(x.recs) || x.recs[st.A] == nil || x.recs[st.B] == nil {
		return ""
	}
	ra, rb := x.recs[st.A], x.recs[st.B]
	if len(ra.Replies) != 1 || len(rb.Replies) != 1 || len(ra.Replies[0].Data) < 4 || len(rb.Replies[0].Data) < 4 {
		return ""
	}
	res.Probes["stalled-server-recipe-ran"]++
	latA, ageB := ra.Replies[0].At-ra.SentAt, rb.Replies[0].At-rb.SentAt
	expiredA := latA >= x.timeout-100*time.Millisecond
	if expiredA {
		res.Probes["leader-expired-while-follower-waited"]++
		res.Nontrivial = true
	}
	if c11HasAddress(rb.Replies[0].Data) {
		res.Probes["follower-answered-after-leader-expired"]++
		return ""
	}
	// Only where the first client's deadline is the one thing that can have ended the shared
	// lookup: the budget is shorter than a single upstream attempt (1.5 s in this world), so no
	// attempt had failed yet. With a longer budget the lookup may end at that same instant with
	// every attempt failed - the last one cut short - which is a failure of the zone's server,
	// for everybody.
	if x.timeout >= 1500*time.Millisecond {
		return ""
	}
	gap := rb.Replies[0].At - ra.Replies[0].At
	if gap < 0 {
		gap = -gap
	}
	if expiredA && gap <= 100*time.Millisecond && ageB <= x.timeout-300*time.Millisecond {
		return fmt.Sprintf("op %d (%s) ran out of time after %v; op %d (%s), asked %v later and only %v old with a budget of %v, was sent a reply without the address (rcode %d) within %v of that instant",
			ra.Idx, ra.QName, latA, rb.Idx, rb.QName, rb.SentAt-ra.SentAt, ageB, x.timeout, rb.Replies[0].Data[3]&0xf, gap)
	}
	return ""
}

// c11HasAddress: the reply is NOERROR and carries an A record (the aliases' target has one).
func c11HasAddress(raw []byte) bool {
	m := new(dns.Msg)
	if m.Unpack(raw) != nil || m.Rcode != dns.RcodeSuccess {
		return false
	}
	for _, rr := range m.Answer {
		if rr.Header().Rrtype == dns.TypeA {
			return true
		}
	}
	return false
}

func c11Check(x *ingRun, tr *kit.Trace, res *kit.Result) {
	const margin = 1500 * time.Millisecond
	if len(x.stray) > 0 {
		res.Fail("C11/unsolicited-reply", "at %v the server sent %d bytes to %v: %s", x.stray[0].At, len(x.stray[0].Data), x.stray[0].To, x.strayWhy[0])
		return
	}
	shed := int64(x.g.K.KernelDrops) + x.counters["drop_full"] + x.counters["drop_error"] + x.counters["tx_error"]
	unanswered := int64(0)
	var firstUnanswered *ingOpRec
	slowSeen := false
	for _, rec := range x.recs {
		if rec == nil {
			continue
		}
		n := len(rec.Replies)
		fam := "host"
		switch {
		case rec.Op.Name >= ingNameSized:
			fam = "big"
		case rec.Op.Name >= ingNameWild:
			fam = "slow"
		case rec.Op.Name >= ingNameBig:
			fam = "big"
		case rec.Op.Name >= ingNameNX:
			fam = "nx"
		case rec.Op.Name >= ingNameGarb:
			fam = "garb"
		case rec.Op.Name >= ingNameDead:
			fam = "dead"
		case rec.Op.Name >= ingNameSlow:
			fam = "slow"
		}
		if fam == "slow" || fam == "dead" || fam == "garb" {
			slowSeen = true
		}
		lat := time.Duration(0)
		if n > 0 {
			lat = rec.Replies[0].At - rec.SentAt
		}
		tr.Shape(fmt.Sprintf("%s:%s:%d:%d", rec.Op.Kind, fam, n, lat/(500*time.Millisecond)))
		if n > 1 {
			res.Fail("C11/two-replies", "op %d (%s from client %d, id %d) got %d replies:%s", rec.Idx, rec.QName, rec.Op.Client, rec.Op.ID, n, ingReplyTimes(rec, 0))
			return
		}
		switch rec.Op.Kind {
		case "short", "response":
			if n != 0 {
				res.Fail("C11/reply-to-ignored-packet", "op %d (%s) must be ignored but got a reply", rec.Idx, rec.Op.Kind)
				return
			}
			continue
		case "notimp", "formerr", "badbody":
			continue // a rejection or nothing; at most one (checked above)
		}
		if !rec.Queued {
			continue // the kernel's receive buffer was full: shed before ingress
		}
		if n == 0 {
			if x.sc.Poison > 0 && rec.Op.Client == x.sc.Poison-1 {
				continue // the kernel refuses sends to this client
			}
			unanswered++
			if firstUnanswered == nil {
				firstUnanswered = rec
			}
			continue
		}
		if lat > x.timeout+margin {
			res.Fail("C11/late-reply", "op %d (%s): the reply came %v after the query; the query timeout is %v", rec.Idx, rec.QName, lat, x.timeout)
			return
		}
	}
	// stream clients: never more replies than queries; a query without a reply ends the
	// connection's replies (serial serving: nothing after it can have been answered)
	for ci, cr := range x.conns {
		answerable := 0
		for _, f := range cr.Frames {
			if f.Written && f.Op.Kind != "response" {
				answerable++
			}
		}
		if len(cr.Replies) > answerable {
			res.Fail("C11/two-replies", "connection %d: %d frames that can be answered were written, %d replies came back", ci, answerable, len(cr.Replies))
			return
		}
		wellBehaved := cr.Conn.CloseAtMs == 0 && !cr.Conn.Reset && cr.Conn.Window == 0 && cr.Conn.ReadDelayMs == 0
		if wellBehaved && len(cr.Frames) > 0 && cr.Frames[0].Written && cr.Frames[0].WellFormed && len(cr.Replies) == 0 {
			res.Fail("C11/no-reply", "connection %d (client %d): the first query %s of a connection the client kept open and read from got no reply", ci, cr.Conn.Client, cr.Frames[0].QName)
			return
		}
		if wellBehaved {
			allGood := true
			for _, f := range cr.Frames {
				if !f.WellFormed || !f.Written || f.Op.Name >= ingNameSlow && f.Op.Name < ingNameNX {
					allGood = false
				}
			}
			if allGood && len(cr.Replies) != len(cr.Frames) {
				res.Fail("C11/no-reply", "connection %d: %d well-formed queries for resolvable names on a connection the client kept open got %d replies", ci, len(cr.Frames), len(cr.Replies))
				return
			}
		}
	}
	if x.sc.ClientRate > 0 {
		// rate-limited queries are not admitted; this check does not generate a rate limit
		unanswered = 0
	}
	if unanswered > shed {
		rec := firstUnanswered
		res.Fail("C11/no-reply", "%d well-formed queries got no reply but only %d were shed (kernel drops %d, counters %s); first: op %d %s from client %d id %d at %v", unanswered, shed, x.g.K.KernelDrops, ingCounterStr(x.counters), rec.Idx, rec.QName, rec.Op.Client, rec.Op.ID, rec.SentAt)
		return
	}
	if x.probeFail != "" && x.sc.ClientRate == 0 {
		res.Fail("C11/stuck-after-load", "after the load stopped and every query timeout had passed, a fresh query for a healthy name failed: %s (probes: %v; counters %s)", x.probeFail, x.probes, ingCounterStr(x.counters))
		return
	}
	if x.idleShed != "" && x.sc.ClientRate == 0 {
		res.Fail("C11/idle-datagram-shed-after-overload", "%s", x.idleShed)
		return
	}
	if x.shutErr != nil {
		res.Fail("C11/not-quiescent", "after the load stopped the listener's drain reported: %v", x.shutErr)
		return
	}
	if !x.quiesced {
		res.Fail("C11/not-quiescent", "after the load stopped and the listener drained, the server does not report quiescence")
		return
	}
	if slowSeen || x.counters["overflow_served"] > 0 {
		res.Nontrivial = true
	}
	if unanswered > 0 {
		res.Probes["shed-under-overload"]++
	}
}
