package props

import (
	"fmt"
	"sort"
	"strings"
	"time"

	"github.com/anishathalye/porcupine"
	"github.com/semihalev/sdns/verifx/bridge"
	"github.com/semihalev/sdns/verifx/verifsync"

	"verifsim/kit"
)

// C16 — bounded concurrent tables behave as maps and stay within capacity.
//
// Two families of scenario (DESIGN.md §3 C16):
//   seq-*  : one caller, long histories, full cross-check against a reference map after
//            every operation (growth, probe wrap-around, backward-shift deletion, eviction)
//   conc-* : 2–5 tasks under the cooperative scheduler; every segment-lock acquisition and
//            every operation on the shared count is a scheduling point; the recorded
//            history is checked for linearizability with porcupine against a map model
//            whose eviction is over-approximated (never flags legal behaviour).

type c16Val struct{ id int }

type C16Op struct {
	Kind string `json:"k"`           // set get del has cas cad len each clear pine evict clearseg
	Key  int    `json:"key"`         // index into Keys
	Val  int    `json:"v,omitempty"` // value id written
	Old  int    `json:"old,omitempty"`
	Twin bool   `json:"twin,omitempty"` // CAS/CAD with an equal-but-not-identical old value
	N    int    `json:"n,omitempty"`
}

type C16Scenario struct {
	Mode     string    `json:"mode"` // seq-umap seq-segmap seq-cache conc-cache conc-segmap
	Capacity int       `json:"capacity"`
	SegPower int       `json:"seg_power,omitempty"`
	Keys     []uint64  `json:"keys"`
	Ops      []C16Op   `json:"ops,omitempty"`
	Tasks    [][]C16Op `json:"tasks,omitempty"`
	Schedule []int     `json:"schedule,omitempty"`
}

func init() {
	kit.Register(&kit.Prop{
		ID:    "C16",
		Level: "exploration",
		Rule: "Scenario = (table kind, capacity, key family, op list or per-task op lists + schedule). " +
			"Sequential runs cross-check the whole table against a reference map after every op; concurrent runs " +
			"are scheduled at every segment-lock/count access by the seeded cooperative scheduler and the " +
			"history is checked with porcupine. Non-trivial = the run evicted, grew a table, deleted inside a probe " +
			"cluster, or (concurrent) switched tasks inside an operation; distinct = distinct hash of the sequence of " +
			"(op kind, outcome class, task) events.",
		Assumptions: []string{
			"interleavings are explored at lock/atomic granularity: critical sections are atomic units (DESIGN §2.8)",
			"eviction is over-approximated in the concurrent model (possibly-evicted state), so a too-eager eviction is not flagged, only wrong values, lost/duplicated/ghost keys, self-eviction, capacity and count errors",
		},
		Components: kit.Components{
			Real: []string{"internal/cache.Cache", "internal/cache.SegmentUInt64Map", "internal/cache.SyncUInt64Map", "internal/cache.UInt64Map"},
			Stub: []string{"sync.RWMutex / atomic.Int64 of segment_uint64_map.go wrapped with scheduling points (verifsync)"},
		},
		Gen:      func(r *kit.RNG, tier string) any { return genC16(r, tier) },
		Blank:    func() any { return &C16Scenario{} },
		Run:      func(sc any, tr *kit.Trace) *kit.Result { return runC16(sc.(*C16Scenario), tr) },
		Shrink:   shrinkC16,
		PerChunk: 400,
		Quick:    6000,
		Thorough: 300000,
	})
}

func genKeys(r *kit.RNG, n int) []uint64 {
	keys := make([]uint64, 0, n)
	seen := map[uint64]bool{}
	add := func(k uint64) {
		if !seen[k] && len(keys) < n {
			seen[k] = true
			keys = append(keys, k)
		}
	}
	if r.Chance(0.5) {
		add(0)
	}
	if r.Chance(0.2) {
		add(^uint64(0))
	}
	switch r.Intn(5) {
	case 0: // sequential
		base := r.Uint64() >> uint(r.Intn(60))
		for i := 0; len(keys) < n; i++ {
			add(base + uint64(i))
		}
	case 1: // strided by a power of two (collide in multiplicative/masked hashes)
		sh := uint(r.Range(1, 56))
		base := r.Uint64() & 0xffff
		for i := 1; len(keys) < n; i++ {
			add(base + uint64(i)<<sh)
		}
	case 2: // clustered around a few centres
		centres := []uint64{r.Uint64(), r.Uint64(), r.Uint64() >> 32}
		for len(keys) < n {
			add(kit.Pick(r, centres) + uint64(r.Intn(3*n)))
		}
	case 3: // high-bits only differences
		low := r.Uint64() & 0xffffffff
		for i := 0; len(keys) < n; i++ {
			add(uint64(i)<<32 | low)
		}
	default:
		for len(keys) < n {
			add(r.Uint64())
		}
	}
	return keys
}

func genC16(r *kit.RNG, tier string) *C16Scenario {
	sc := &C16Scenario{}
	modes := []string{"seq-umap", "seq-umap", "seq-segmap", "seq-cache", "conc-cache", "conc-cache", "conc-segmap"}
	sc.Mode = kit.Pick(r, modes)
	val := 0
	next := func() int { val++; return val }
	switch sc.Mode {
	case "seq-umap", "seq-segmap", "seq-cache":
		nkeys := r.Range(3, 160)
		sc.Keys = genKeys(r, nkeys)
		nkeys = len(sc.Keys)
		switch sc.Mode {
		case "seq-umap":
			sc.Capacity = kit.Pick(r, []int{0, 1, 8, 9, 16, 40})
		case "seq-segmap":
			sc.SegPower = kit.Pick(r, []int{0, 4, 5})
			sc.Capacity = kit.Pick(r, []int{0, 64, 256, nkeys / 2, nkeys + 5})
		default:
			sc.Capacity = kit.Pick(r, []int{1, 2, 3, nkeys / 3, nkeys / 2, nkeys - 1, nkeys, nkeys + 10})
			if sc.Capacity < 1 {
				sc.Capacity = 1
			}
		}
		nops := r.Range(5, 400)
		hot := r.Range(1, nkeys)
		var kinds []string
		switch sc.Mode {
		case "seq-umap":
			kinds = []string{"set", "set", "set", "get", "del", "del", "has", "pine", "len", "each", "evict", "clear"}
		case "seq-segmap":
			kinds = []string{"set", "set", "setcap", "setcap", "get", "del", "del", "has", "pine", "len", "each", "clearseg", "clear"}
		default:
			kinds = []string{"set", "set", "set", "get", "del", "cas", "cad", "len", "each"}
		}
		// Swarm: drop some kinds for this scenario.
		var use []string
		for _, k := range kinds {
			if k == "set" || r.Chance(0.75) {
				use = append(use, k)
			}
		}
		for i := 0; i < nops; i++ {
			op := C16Op{Kind: kit.Pick(r, use)}
			if r.Chance(0.7) {
				op.Key = r.Intn(hot)
			} else {
				op.Key = r.Intn(nkeys)
			}
			switch op.Kind {
			case "set", "setcap", "pine":
				op.Val = next()
			case "cas":
				op.Val = next()
				op.Old = r.Intn(3) // 0 = current value, 1 = stale/other value, 2 = twin of current
			case "cad":
				op.Old = r.Intn(3)
			case "evict":
				op.N = r.Range(1, 4)
				op.Val = r.Intn(1 << 16) // offset
			case "clearseg":
				op.N = r.Intn(40)
			case "clear":
				if !r.Chance(0.15) {
					op.Kind = "get"
				}
			}
			sc.Ops = append(sc.Ops, op)
		}
	default:
		nkeys := r.Range(1, 5)
		if sc.Mode == "conc-segmap" || r.Chance(0.3) {
			nkeys = r.Range(2, 12)
		}
		sc.Keys = genKeys(r, nkeys)
		nkeys = len(sc.Keys)
		if r.Chance(0.5) {
			sc.Capacity = nkeys + r.Range(0, 3) // regime (i): eviction impossible
		} else {
			sc.Capacity = r.Range(1, nkeys) // regime (ii)
		}
		if sc.Mode == "conc-segmap" {
			sc.SegPower = 4
		}
		ntasks := r.Range(2, 5)
		var kinds []string
		if sc.Mode == "conc-cache" {
			kinds = []string{"set", "set", "get", "get", "del", "cas", "cad", "len"}
		} else {
			kinds = []string{"set", "setcap", "get", "get", "del", "has", "pine", "len"}
		}
		for t := 0; t < ntasks; t++ {
			var ops []C16Op
			n := r.Range(2, 9)
			for i := 0; i < n; i++ {
				op := C16Op{Kind: kit.Pick(r, kinds), Key: r.Intn(nkeys)}
				switch op.Kind {
				case "set", "setcap", "pine":
					op.Val = next()
				case "cas":
					op.Val = next()
					op.Old = r.Intn(3)
				case "cad":
					op.Old = r.Intn(3)
				}
				ops = append(ops, op)
			}
			sc.Tasks = append(sc.Tasks, ops)
		}
		pSwitch := kit.Pick(r, []float64{0.03, 0.1, 0.3, 0.7})
		n := r.Range(20, 400)
		for i := 0; i < n; i++ {
			if r.Chance(pSwitch) {
				sc.Schedule = append(sc.Schedule, r.Range(1, ntasks))
			} else {
				sc.Schedule = append(sc.Schedule, 0)
			}
		}
	}
	return sc
}

// ---------------------------------------------------------------- sequential

type seqTable interface {
	set(k uint64, v *c16Val)
	get(k uint64) (*c16Val, bool)
	del(k uint64)
	length() int
	each(f func(k uint64, v *c16Val) bool)
}

type umapT struct{ m *bridge.UInt64Map[*c16Val] }

func (t umapT) set(k uint64, v *c16Val)           { t.m.Put(k, v) }
func (t umapT) get(k uint64) (*c16Val, bool)      { return t.m.Get(k) }
func (t umapT) del(k uint64)                      { t.m.Del(k) }
func (t umapT) length() int                       { return t.m.Len() }
func (t umapT) each(f func(uint64, *c16Val) bool) { t.m.ForEach(f) }

type segT struct {
	m *bridge.SegmentUInt64Map[*c16Val]
}

func (t segT) set(k uint64, v *c16Val)           { t.m.Set(k, v) }
func (t segT) get(k uint64) (*c16Val, bool)      { return t.m.Get(k) }
func (t segT) del(k uint64)                      { t.m.Del(k) }
func (t segT) length() int                       { return int(t.m.Len()) }
func (t segT) each(f func(uint64, *c16Val) bool) { t.m.ForEach(f) }

type cacheT struct{ c *bridge.Cache }

func (t cacheT) set(k uint64, v *c16Val) { t.c.Add(k, v) }
func (t cacheT) get(k uint64) (*c16Val, bool) {
	v, ok := t.c.Get(k)
	if !ok {
		return nil, false
	}
	return v.(*c16Val), true
}
func (t cacheT) del(k uint64) { t.c.Remove(k) }
func (t cacheT) length() int  { return t.c.Len() }
func (t cacheT) each(f func(uint64, *c16Val) bool) {
	t.c.ForEach(func(k uint64, v any) bool { return f(k, v.(*c16Val)) })
}

func vname(v *c16Val) string {
	if v == nil {
		return "nil"
	}
	return fmt.Sprintf("v%d", v.id)
}

// crossCheck compares the whole table with the model. maxLost is how many model entries
// may legitimately be missing (evictions by the last op); protect is a key that must not
// be among them. On return the model equals the table's reachable content.
func crossCheck(res *kit.Result, tb seqTable, model map[uint64]*c16Val, all []uint64, maxLost int, protect *uint64, step int, what string) int {
	seen := map[uint64]*c16Val{}
	dup := false
	tb.each(func(k uint64, v *c16Val) bool {
		if _, ok := seen[k]; ok {
			dup = true
		}
		seen[k] = v
		return true
	})
	if dup {
		res.Fail("C16/iterate-duplicate", "step %d (%s): iteration yielded a key twice", step, what)
		return 0
	}
	for k, v := range seen {
		mv, ok := model[k]
		if !ok {
			res.Fail("C16/phantom-key", "step %d (%s): iteration yields key %#x=%s that the model does not hold (removed or never stored)", step, what, k, vname(v))
			return 0
		}
		if mv != v {
			res.Fail("C16/wrong-value", "step %d (%s): key %#x holds %s, last stored %s", step, what, k, vname(v), vname(mv))
			return 0
		}
	}
	lost := 0
	for k := range model {
		if _, ok := seen[k]; !ok {
			lost++
			if protect != nil && *protect == k {
				res.Fail("C16/self-evict", "step %d (%s): the key being written (%#x) is gone after the insert", step, what, k)
				return 0
			}
		}
	}
	if lost > maxLost {
		res.Fail("C16/lost-key", "step %d (%s): %d stored keys vanished (at most %d may be evicted here)", step, what, lost, maxLost)
		return 0
	}
	// Reachability: every iterated key must be found by Get with the same value, every
	// other known key must miss.
	for _, k := range all {
		v, ok := tb.get(k)
		sv, present := seen[k]
		if present && (!ok || v != sv) {
			res.Fail("C16/unreachable-key", "step %d (%s): key %#x is stored (iteration shows %s) but Get returns (%s,%v)", step, what, k, vname(sv), vname(v), ok)
			return 0
		}
		if !present && ok {
			res.Fail("C16/ghost-hit", "step %d (%s): Get(%#x) returns %s but iteration does not show the key", step, what, k, vname(v))
			return 0
		}
	}
	if n := tb.length(); n != len(seen) {
		res.Fail("C16/len-mismatch", "step %d (%s): Len()=%d but %d entries are reachable", step, what, n, len(seen))
		return 0
	}
	for k := range model {
		if _, ok := seen[k]; !ok {
			delete(model, k)
		}
	}
	return lost
}

func runC16Seq(sc *C16Scenario, tr *kit.Trace, res *kit.Result) {
	var tb seqTable
	var um *bridge.UInt64Map[*c16Val]
	var sm *bridge.SegmentUInt64Map[*c16Val]
	var cc *bridge.Cache
	switch sc.Mode {
	case "seq-umap":
		um = bridge.NewUInt64Map[*c16Val](sc.Capacity)
		tb = umapT{um}
	case "seq-segmap":
		sm = bridge.NewSegmentUInt64Map[*c16Val](uint8(sc.SegPower), sc.Capacity)
		tb = segT{sm}
	default:
		cc = bridge.NewCache(sc.Capacity)
		tb = cacheT{cc}
	}
	capLimit := sc.Capacity
	if capLimit < 1 {
		capLimit = 1
	}
	model := map[uint64]*c16Val{}
	vals := map[int]*c16Val{}
	mk := func(id int) *c16Val { v := &c16Val{id}; vals[id] = v; return v }
	var stale *c16Val = &c16Val{-1}
	if len(sc.Keys) == 0 {
		return
	}
	for i, op := range sc.Ops {
		k := sc.Keys[op.Key%len(sc.Keys)]
		maxLost := 0
		var protect *uint64
		what := fmt.Sprintf("%s(%#x)", op.Kind, k)
		outcome := ""
		before := len(model)
		switch op.Kind {
		case "set":
			v := mk(op.Val)
			tb.set(k, v)
			model[k] = v
			protect = &k
			if cc != nil && len(model) > capLimit {
				maxLost = 2
			}
		case "setcap":
			v := mk(op.Val)
			sm.SetWithCap(k, v, int64(capLimit))
			model[k] = v
			protect = &k
			if len(model) > capLimit {
				maxLost = 2
			}
		case "pine":
			v := mk(op.Val)
			var got *c16Val
			var ins bool
			if um != nil {
				got, ins = um.PutIfNotExists(k, v)
			} else if sm != nil {
				got, ins = sm.PutIfNotExists(k, v)
			} else {
				continue
			}
			if cur, ok := model[k]; ok {
				if ins || got != cur {
					res.Fail("C16/put-if-absent", "step %d: PutIfNotExists(%#x) on a present key returned (%s,%v), stored value is %s", i, k, vname(got), ins, vname(cur))
					return
				}
				outcome = "exists"
			} else {
				if !ins || got != v {
					res.Fail("C16/put-if-absent", "step %d: PutIfNotExists(%#x) on an absent key returned (%s,%v)", i, k, vname(got), ins)
					return
				}
				model[k] = v
				outcome = "inserted"
			}
		case "get", "has":
			var ok bool
			var v *c16Val
			if op.Kind == "has" && um != nil {
				ok = um.Has(k)
				v = model[k]
			} else if op.Kind == "has" && sm != nil {
				ok = sm.Has(k)
				v = model[k]
			} else {
				v, ok = tb.get(k)
			}
			mv, mok := model[k]
			if ok != mok || (ok && v != mv) {
				res.Fail("C16/wrong-value", "step %d: %s returned (%s,%v), model holds (%s,%v)", i, what, vname(v), ok, vname(mv), mok)
				return
			}
			outcome = fmt.Sprint(ok)
		case "del":
			tb.del(k)
			_, had := model[k]
			delete(model, k)
			outcome = fmt.Sprint(had)
		case "cas", "cad":
			if cc == nil {
				continue
			}
			cur, present := model[k]
			old := cur
			switch {
			case op.Old == 1 || !present:
				old = stale
			case op.Old == 2:
				old = &c16Val{cur.id} // equal contents, different identity
			}
			want := present && old == cur
			var got bool
			if op.Kind == "cas" {
				v := mk(op.Val)
				got = cc.CompareAndSwap(k, old, v)
				if want {
					model[k] = v
				}
			} else {
				got = cc.CompareAndDelete(k, old)
				if want {
					delete(model, k)
				}
			}
			if got != want {
				res.Fail("C16/cas-identity", "step %d: %s with old=%s (current %s, present=%v) returned %v, want %v", i, what, vname(old), vname(cur), present, got, want)
				return
			}
			outcome = fmt.Sprint(got)
		case "len":
			if n := tb.length(); n != len(model) {
				res.Fail("C16/len-mismatch", "step %d: Len()=%d, model holds %d", i, n, len(model))
				return
			}
		case "each":
			// early-stop iteration must stop
			n := 0
			tb.each(func(uint64, *c16Val) bool { n++; return false })
			if n > 1 {
				res.Fail("C16/iterate-stop", "step %d: iteration continued after the callback returned false (%d calls)", i, n)
				return
			}
		case "evict":
			if um == nil {
				continue
			}
			others := len(model)
			if _, ok := model[k]; ok {
				others--
			}
			want := op.N
			if others < want {
				want = others
			}
			d := um.EvictKeysAt(op.Val, op.N, k)
			if d != want {
				res.Fail("C16/evict-count", "step %d: EvictKeysAt(n=%d, skip=%#x) deleted %d, %d other entries were available", i, op.N, k, d, others)
				return
			}
			maxLost = d
			if _, ok := model[k]; ok {
				protect = &k
			}
			if d > 0 {
				res.Probes["evicted"] += d
			}
		case "clear":
			if um != nil {
				um.Clear()
			} else if sm != nil {
				sm.Clear()
			} else {
				continue
			}
			for kk := range model {
				delete(model, kk)
			}
		case "clearseg":
			if sm == nil {
				continue
			}
			sm.ClearSegment(op.N % sm.SegmentCount())
			maxLost = len(model)
		}
		lost := crossCheck(res, tb, model, sc.Keys, maxLost, protect, i, what)
		if res.Viol != nil {
			return
		}
		if (op.Kind == "set" || op.Kind == "setcap") && lost > 0 {
			res.Probes["evicted"] += lost
			res.Nontrivial = true
			outcome = fmt.Sprintf("evict%d", lost)
		}
		if cc != nil {
			// Only the cache caps every insert; the raw segment map mixes capped and
			// uncapped inserts, so its occupancy is not bounded by this capacity.
			if n := tb.length(); n > capLimit+1 {
				res.Fail("C16/over-capacity", "step %d (%s): occupancy %d exceeds capacity %d by more than the one writer", i, what, n, capLimit)
				return
			}
		}
		if len(model) > 12 {
			res.Probes["table>12"]++
		}
		if op.Kind == "del" && before > 6 {
			res.Nontrivial = true
		}
		tr.Add("%d %s -> %s len=%d", i, what, outcome, len(model))
		tr.Shape(op.Kind + ":" + outcome)
	}
	res.Steps = len(sc.Ops)
}

// ---------------------------------------------------------------- concurrent

type c16In struct {
	Kind string // begin add end get del cas cad len pine
	Key  int
	Val  int // value id written
	Old  int // value id compared (cas/cad); -1 = a value never stored
}
type c16Out struct {
	Val int // value id returned (get / pine existing)
	Ok  bool
	N   int
}

type c16Cell struct {
	st  uint8 // 0 absent, 1 present, 2 possibly evicted
	val int
}
type c16State struct {
	cells    []c16Cell
	inflight []int // per key: inserts in flight
	over     bool
}

func (s *c16State) clone() *c16State {
	n := &c16State{cells: append([]c16Cell(nil), s.cells...), inflight: append([]int(nil), s.inflight...), over: s.over}
	return n
}

func (s *c16State) present() (p, infl int) {
	for _, c := range s.cells {
		if c.st != 0 {
			p++
		}
	}
	for _, n := range s.inflight {
		infl += n
	}
	return
}

// evictable: key k may have been evicted by some insert of another key that is in
// flight, if the table can have been over capacity.
func (s *c16State) evictable(k int) bool {
	if !s.over {
		return false
	}
	for i, n := range s.inflight {
		if i != k && n > 0 {
			return true
		}
	}
	return false
}

func c16Model(capacity int, nkeys int) porcupine.Model {
	refresh := func(s *c16State) {
		p, infl := s.present()
		if p+infl > capacity {
			s.over = true
		} else if infl == 0 {
			s.over = false
		}
	}
	// observe makes the cell definite for an operation that saw the key absent.
	missOK := func(s *c16State, k int) bool {
		c := s.cells[k]
		return c.st == 0 || c.st == 2 || s.evictable(k)
	}
	return porcupine.Model{
		Init: func() interface{} {
			return &c16State{cells: make([]c16Cell, nkeys), inflight: make([]int, nkeys)}
		},
		Step: func(state, input, output interface{}) (bool, interface{}) {
			s := state.(*c16State).clone()
			in := input.(c16In)
			out := output.(c16Out)
			k := in.Key
			switch in.Kind {
			case "begin":
				s.inflight[k]++
				refresh(s)
				return true, s
			case "end":
				if s.over {
					for i := range s.cells {
						if i != k && s.cells[i].st == 1 {
							s.cells[i].st = 2
						}
					}
				}
				s.inflight[k]--
				refresh(s)
				return true, s
			case "add":
				s.cells[k] = c16Cell{1, in.Val}
				refresh(s)
				return true, s
			case "pine":
				c := s.cells[k]
				if out.Ok { // inserted: key must have been absent (or evicted)
					if !missOK(s, k) {
						return false, s
					}
					s.cells[k] = c16Cell{1, in.Val}
					refresh(s)
					return true, s
				}
				return c.st != 0 && c.val == out.Val, s
			case "get":
				c := s.cells[k]
				if out.Ok {
					return c.st != 0 && c.val == out.Val, s
				}
				if !missOK(s, k) {
					return false, s
				}
				s.cells[k] = c16Cell{}
				return true, s
			case "del":
				s.cells[k] = c16Cell{}
				refresh(s)
				return true, s
			case "cas":
				c := s.cells[k]
				if out.Ok {
					if c.st == 0 || c.val != in.Old {
						return false, s
					}
					s.cells[k] = c16Cell{1, in.Val}
					return true, s
				}
				if c.st != 0 && c.val == in.Old {
					// identical value stored, so failure is only legal if it was evicted
					if !(c.st == 2 || s.evictable(k)) {
						return false, s
					}
					s.cells[k] = c16Cell{}
				}
				return true, s
			case "cad":
				c := s.cells[k]
				if out.Ok {
					if c.st == 0 || c.val != in.Old {
						return false, s
					}
					s.cells[k] = c16Cell{}
					refresh(s)
					return true, s
				}
				if c.st != 0 && c.val == in.Old {
					if !(c.st == 2 || s.evictable(k)) {
						return false, s
					}
					s.cells[k] = c16Cell{}
				}
				return true, s
			case "len":
				// Only asserted when eviction is impossible and nothing is in flight
				// that could make the count transiently differ: exact count.
				lo, hi := 0, 0
				for _, c := range s.cells {
					if c.st == 1 {
						lo++
					}
					if c.st != 0 {
						hi++
					}
				}
				_, infl := s.present()
				if s.over || infl > 0 {
					return out.N >= 0 && out.N <= hi+infl+2, s
				}
				return out.N >= lo && out.N <= hi, s
			}
			return false, s
		},
		Equal: func(a, b interface{}) bool {
			x, y := a.(*c16State), b.(*c16State)
			if x.over != y.over {
				return false
			}
			for i := range x.cells {
				if x.cells[i] != y.cells[i] || x.inflight[i] != y.inflight[i] {
					return false
				}
			}
			return true
		},
		DescribeOperation: func(input, output interface{}) string {
			return fmt.Sprintf("%+v -> %+v", input, output)
		},
	}
}

func runC16Conc(sc *C16Scenario, tr *kit.Trace, res *kit.Result) {
	nkeys := len(sc.Keys)
	if nkeys == 0 || len(sc.Tasks) == 0 {
		return
	}
	capLimit := sc.Capacity
	if capLimit < 1 {
		capLimit = 1
	}
	var cc *bridge.Cache
	var sm *bridge.SegmentUInt64Map[*c16Val]
	if sc.Mode == "conc-cache" {
		cc = bridge.NewCache(capLimit)
	} else {
		sm = bridge.NewSegmentUInt64Map[*c16Val](uint8(sc.SegPower), 0)
	}
	s := verifsync.NewSched(sc.Schedule)
	s.MaxSteps = 200000
	vals := map[int]*c16Val{}
	for _, ops := range sc.Tasks {
		for _, op := range ops {
			if op.Val != 0 {
				vals[op.Val] = &c16Val{op.Val}
			}
		}
	}
	never := &c16Val{-1}
	var hist []porcupine.Operation
	inserting := 0 // tasks currently inside an insert
	maxOver := 0
	record := func(client int, in c16In, call int, out c16Out, ret int) {
		hist = append(hist, porcupine.Operation{ClientId: client, Input: in, Call: int64(call), Output: out, Return: int64(ret)})
	}
	lenOf := func() int {
		if cc != nil {
			return cc.Len()
		}
		return int(sm.Len())
	}
	writeLocks := map[int]map[any]int{} // not used for identity of locks here; see global-lock probe below
	_ = writeLocks
	for ti, ops := range sc.Tasks {
		ti, ops := ti, ops
		s.Go(func() {
			for _, op := range ops {
				ki := op.Key % nkeys
				k := sc.Keys[ki]
				switch op.Kind {
				case "set", "setcap":
					v := vals[op.Val]
					b0 := s.Step()
					record(ti, c16In{Kind: "begin", Key: ki}, b0, c16Out{}, s.Step())
					inserting++
					c := s.Step()
					if cc != nil {
						cc.Add(k, v)
					} else if op.Kind == "setcap" {
						sm.SetWithCap(k, v, int64(capLimit))
					} else {
						sm.Set(k, v)
					}
					record(ti, c16In{Kind: "add", Key: ki, Val: op.Val}, c, c16Out{}, s.Step())
					inserting--
					e0 := s.Step()
					record(ti, c16In{Kind: "end", Key: ki}, e0, c16Out{}, s.Step())
				case "pine":
					v := vals[op.Val]
					c := s.Step()
					got, ins := sm.PutIfNotExists(k, v)
					o := c16Out{Ok: ins}
					if !ins && got != nil {
						o.Val = got.id
					}
					record(ti, c16In{Kind: "pine", Key: ki, Val: op.Val}, c, o, s.Step())
				case "get", "has":
					c := s.Step()
					var v *c16Val
					var ok bool
					if cc != nil {
						var x any
						x, ok = cc.Get(k)
						if ok {
							v = x.(*c16Val)
						}
					} else {
						v, ok = sm.Get(k)
					}
					o := c16Out{Ok: ok}
					if ok && v != nil {
						o.Val = v.id
					}
					record(ti, c16In{Kind: "get", Key: ki}, c, o, s.Step())
				case "del":
					c := s.Step()
					if cc != nil {
						cc.Remove(k)
					} else {
						sm.Del(k)
					}
					record(ti, c16In{Kind: "del", Key: ki}, c, c16Out{}, s.Step())
				case "cas", "cad":
					if cc == nil {
						continue
					}
					// Pick the compared value from what this task last observed.
					var old *c16Val
					oldID := -1
					x, ok := cc.Get(k) // an extra, recorded read
					c0 := s.Step()
					_ = c0
					if ok {
						old = x.(*c16Val)
						oldID = old.id
					}
					switch {
					case op.Old == 1 || old == nil:
						old, oldID = never, -1
					case op.Old == 2:
						old, oldID = &c16Val{old.id}, -1 // twin: equal contents, never identical
					}
					c := s.Step()
					if op.Kind == "cas" {
						okk := cc.CompareAndSwap(k, old, vals[op.Val])
						record(ti, c16In{Kind: "cas", Key: ki, Val: op.Val, Old: oldID}, c, c16Out{Ok: okk}, s.Step())
					} else {
						okk := cc.CompareAndDelete(k, old)
						record(ti, c16In{Kind: "cad", Key: ki, Old: oldID}, c, c16Out{Ok: okk}, s.Step())
					}
				case "len":
					c := s.Step()
					n := lenOf()
					record(ti, c16In{Kind: "len"}, c, c16Out{N: n}, s.Step())
					if over := n - capLimit - len(sc.Tasks); over > 0 && (cc != nil) {
						if over > maxOver {
							maxOver = over
						}
					}
				}
			}
		})
	}
	done := s.Run()
	res.Steps = len(s.Decisions)
	if len(s.Panics) > 0 {
		res.Fail("C16/panic", "%s", strings.Join(s.Panics, "; "))
		return
	}
	if !done {
		if s.Deadlock {
			res.Fail("C16/deadlock", "all unfinished tasks are blocked on locks after %d decisions", len(s.Decisions))
		} else {
			res.Fail("C16/livelock", "tasks did not finish within %d scheduling decisions", s.MaxSteps)
		}
		return
	}
	if s.MaxHeld() > 1 {
		res.Fail("C16/nested-locks", "a task held %d table locks at once (writers must never hold one segment while taking another)", s.MaxHeld())
		return
	}
	if maxOver > 0 {
		res.Fail("C16/over-capacity", "observed length exceeded capacity %d by %d more than the %d concurrent writers", capLimit, maxOver, len(sc.Tasks))
		return
	}
	if s.Switches > len(sc.Tasks) {
		res.Nontrivial = true
		res.Probes["switched-inside-op"]++
	}
	// Quiescence: Len equals the number of reachable entries, each reachable by Get.
	reach := 0
	eachFn := func(k uint64, v *c16Val) bool {
		reach++
		return true
	}
	if cc != nil {
		cc.ForEach(func(k uint64, v any) bool { return eachFn(k, v.(*c16Val)) })
	} else {
		sm.ForEach(eachFn)
	}
	if n := lenOf(); n != reach {
		res.Fail("C16/len-mismatch", "after all writers stopped Len()=%d but %d entries are reachable", n, reach)
		return
	}
	if cc != nil && reach > capLimit {
		res.Fail("C16/over-capacity", "after all writers stopped %d entries are stored, capacity %d", reach, capLimit)
		return
	}
	// Final reads join the history so that lost/ghost keys at quiescence are checked too.
	for ki, k := range sc.Keys {
		c := s.Step()
		var v *c16Val
		var ok bool
		if cc != nil {
			var x any
			x, ok = cc.Get(k)
			if ok {
				v = x.(*c16Val)
			}
		} else {
			v, ok = sm.Get(k)
		}
		o := c16Out{Ok: ok}
		if ok {
			o.Val = v.id
		}
		record(len(sc.Tasks), c16In{Kind: "get", Key: ki}, c, o, s.Step())
	}
	sort.SliceStable(hist, func(i, j int) bool { return hist[i].Call < hist[j].Call })
	for _, h := range hist {
		in := h.Input.(c16In)
		out := h.Output.(c16Out)
		tr.Add("[%d,%d] t%d %s k%d v%d old%d -> %v v%d n%d", h.Call, h.Return, h.ClientId, in.Kind, in.Key, in.Val, in.Old, out.Ok, out.Val, out.N)
		tr.Shape(fmt.Sprintf("%d%s%v", h.ClientId, in.Kind, out.Ok))
	}
	tr.Add("decisions %v", s.Decisions)
	r := porcupine.CheckOperationsTimeout(c16Model(capLimit, nkeys), hist, 20*time.Second)
	switch r {
	case porcupine.Illegal:
		res.Fail("C16/not-linearizable", "history of %d operations over %d keys (capacity %d) has no linearization against the map model", len(hist), nkeys, capLimit)
	case porcupine.Unknown:
		res.Inconcl++
	}
}

func runC16(sc *C16Scenario, tr *kit.Trace) *kit.Result {
	res := kit.NewResult()
	tr.Add("mode=%s cap=%d keys=%d", sc.Mode, sc.Capacity, len(sc.Keys))
	tr.Shape(sc.Mode)
	if strings.HasPrefix(sc.Mode, "seq-") {
		runC16Seq(sc, tr, res)
	} else {
		runC16Conc(sc, tr, res)
	}
	return res
}

func shrinkC16(sc0 any, fails func(any) bool) any {
	sc := sc0.(*C16Scenario)
	budget := 400
	cp := func(s *C16Scenario) *C16Scenario { c := *s; return &c }
	if len(sc.Ops) > 0 {
		ops := kit.DDMin(sc.Ops, &budget, func(o []C16Op) bool { c := cp(sc); c.Ops = o; return fails(c) })
		sc = cp(sc)
		sc.Ops = ops
	}
	for ti := range sc.Tasks {
		ti := ti
		ops := kit.DDMin(sc.Tasks[ti], &budget, func(o []C16Op) bool {
			c := cp(sc)
			c.Tasks = append([][]C16Op(nil), sc.Tasks...)
			c.Tasks[ti] = o
			return fails(c)
		})
		sc = cp(sc)
		sc.Tasks = append([][]C16Op(nil), sc.Tasks...)
		sc.Tasks[ti] = ops
	}
	if len(sc.Schedule) > 0 {
		// fewer context switches: zero out entries
		for i := range sc.Schedule {
			if sc.Schedule[i] != 0 && budget > 0 {
				budget--
				c := cp(sc)
				c.Schedule = append([]int(nil), sc.Schedule...)
				c.Schedule[i] = 0
				if fails(c) {
					sc = c
				}
			}
		}
		for len(sc.Schedule) > 0 && sc.Schedule[len(sc.Schedule)-1] == 0 {
			sc.Schedule = sc.Schedule[:len(sc.Schedule)-1]
		}
	}
	return sc
}
