package kit

import (
	"fmt"
	"runtime/debug"
	"strings"
	"testing"
	"testing/synctest"
	"time"
)

// Epoch is the fake clock's start inside every bubble (synctest fixes it).
var Epoch = time.Date(2000, 1, 1, 0, 0, 0, 0, time.UTC)

// Bubble runs f as the root goroutine of a synctest bubble: time.Now, timers, tickers and
// context deadlines inside it read the fake clock, which advances only when every
// goroutine of the bubble is durably blocked. sdns's long-lived goroutines never exit,
// so the end of a bubble is always synctest's "blocked goroutines remain" panic; that
// one is swallowed, anything else propagates.
func Bubble(f func()) {
	var inner any
	var stack []byte
	func() {
		defer func() {
			if e := recover(); e != nil {
				s := fmt.Sprint(e)
				if strings.Contains(s, "blocked goroutines remain") || strings.Contains(s, "deadlock: main bubble goroutine has exited") {
					return
				}
				panic(e)
			}
		}()
		synctest.Test(T, func(t *testing.T) {
			defer func() {
				if e := recover(); e != nil {
					inner = e
					stack = debug.Stack()
				}
			}()
			f()
		})
	}()
	if inner != nil {
		panic(fmt.Sprintf("%v\n%s", inner, stack))
	}
}

// Settle lets every goroutine in the bubble run until all are durably blocked.
func Settle() { synctest.Wait() }

// SleepSettle advances fake time by d and settles.
func SleepSettle(d time.Duration) {
	time.Sleep(d)
	synctest.Wait()
}
