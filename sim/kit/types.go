package kit

import (
	"crypto/sha256"
	"encoding/hex"
	"fmt"
	"sort"
	"strings"
	"testing"
	"time"
)

// Violation is one oracle verdict. Class names the clause that failed (stable across
// shrinking); Detail is the human-readable specifics.
type Violation struct {
	Class  string `json:"class"`
	Detail string `json:"detail"`
}

func (v *Violation) String() string { return v.Class + ": " + v.Detail }

// Trace is the event log of one run. Every simulator-level event goes through Add; the
// hash of all lines is the determinism fingerprint. Lines are kept only when Keep is set
// (replay / minimised report). Logging never draws randomness or reads a real clock.
type Trace struct {
	Keep  bool
	Lines []string // filled by Finish when Keep is set
	evs   []traceEv
	seq   int64
	timed bool
	done  bool
	h     [32]byte
	shape []string
}

type traceEv struct {
	t int64
	s string
}

// Add appends an event in program order (worlds without a clock).
func (t *Trace) Add(format string, args ...any) {
	if t == nil {
		return
	}
	t.seq++
	t.evs = append(t.evs, traceEv{t.seq, fmt.Sprintf(format, args...)})
}

// AddAt appends an event stamped with fake time. Events of one instant are ordered
// canonically (by text) when the trace is finished, so the order in which the Go
// scheduler happened to run goroutines that were runnable in the same fake instant is
// not part of the fingerprint (DESIGN.md §2.9).
func (t *Trace) AddAt(at time.Duration, format string, args ...any) {
	if t == nil {
		return
	}
	t.timed = true
	t.evs = append(t.evs, traceEv{int64(at), fmt.Sprintf("%v ", at) + fmt.Sprintf(format, args...)})
}

func (t *Trace) finish() {
	if t.done {
		return
	}
	t.done = true
	if t.timed {
		sort.SliceStable(t.evs, func(i, j int) bool {
			if t.evs[i].t != t.evs[j].t {
				return t.evs[i].t < t.evs[j].t
			}
			return t.evs[i].s < t.evs[j].s
		})
	}
	x := sha256.New()
	for _, e := range t.evs {
		x.Write([]byte(e.s))
		x.Write([]byte{10})
		if t.Keep {
			t.Lines = append(t.Lines, e.s)
		}
	}
	copy(t.h[:], x.Sum(nil))
}

// Shape records one element of the event-shape signature (event kind / actor class /
// outcome class), which is what "distinct" is measured on.
func (t *Trace) Shape(s string) {
	if t == nil {
		return
	}
	t.shape = append(t.shape, s)
}

func (t *Trace) Hash() string {
	if t == nil {
		return ""
	}
	t.finish()
	return hex.EncodeToString(t.h[:8])
}

func (t *Trace) Events() int { return len(t.evs) }

// ShapeSig is the hash of the shape sequence.
func (t *Trace) ShapeSig() string {
	x := sha256.Sum256([]byte(strings.Join(t.shape, "|")))
	return hex.EncodeToString(x[:8])
}

// Result of one scenario execution.
type Result struct {
	Viol       *Violation
	Nontrivial bool // at least one fault fired or rare-path probe hit (property-specific rule)
	SimTime    time.Duration
	Steps      int
	Faults     map[string]int // fault kinds that actually fired
	Probes     map[string]int // reach probes
	Inconcl    int            // inconclusive sub-checks (e.g. porcupine Unknown)
	// Derived, when a run enumerated sub-scenarios itself (fault enumeration), is the
	// explicit sub-scenario that failed; it replaces the scenario for confirm/shrink/replay.
	Derived any
	// Evals is the number of executions this run performed (1 unless it enumerated).
	Evals int
	// ExtraSigs are the shape signatures of enumerated sub-runs.
	ExtraSigs []string
}

func NewResult() *Result {
	return &Result{Faults: map[string]int{}, Probes: map[string]int{}}
}

func (r *Result) Fail(class, format string, args ...any) {
	if r.Viol == nil {
		r.Viol = &Violation{Class: class, Detail: fmt.Sprintf(format, args...)}
	}
}

func (r *Result) Fault(kind string) { r.Faults[kind]++; r.Nontrivial = true }
func (r *Result) Probe(name string) { r.Probes[name]++ }

// Components lists what ran real sdns code and what was a stub, for evidence.
type Components struct {
	Real []string `json:"real"`
	Stub []string `json:"stub"`
}

// Prop is one property's simulated check.
type Prop struct {
	ID          string
	Level       string // evidence level: exploration | fault_enumeration
	Rule        string
	Assumptions []string
	Components  Components
	// Gen builds the explicit scenario (JSON-serialisable pointer) from the seed's RNG.
	Gen func(r *RNG, tier string) any
	// GenAt, when set, is used by the runner instead of Gen: i is the scenario's index in the
	// run, so that a generator with hand-written templates can guarantee each of them a place
	// in every batch instead of leaving it to a coin (the scenario stays a pure function of
	// base seed, property and index).
	GenAt func(i int, r *RNG, tier string) any
	// Blank returns an empty scenario for JSON decoding of replay files.
	Blank func() any
	// Run executes the scenario deterministically.
	Run func(sc any, tr *Trace) *Result
	// Shrink returns a smaller scenario for which fails() is still true (optional).
	Shrink func(sc any, fails func(any) bool) any
	// PerChunk is how many scenarios a worker process runs before it is recycled.
	// Warmup: run one fixed throw-away scenario first in every worker process.
	Warmup bool
	// WarmupGen builds the warm-up scenario (nil = Gen with a fixed seed).
	WarmupGen func() any
	PerChunk int
	// Count per tier (scenarios); wall-clock caps are the runner's business.
	Quick, Thorough int
}

var registry = map[string]*Prop{}

func Register(p *Prop)       { registry[p.ID] = p }
func Lookup(id string) *Prop { return registry[id] }
func IDs() []string {
	var ids []string
	for k := range registry {
		ids = append(ids, k)
	}
	sort.Strings(ids)
	return ids
}

// DDMin is delta debugging over a slice: returns a (1-)minimal subsequence for which
// test is still true. budget bounds the number of test invocations.
func DDMin[T any](items []T, budget *int, test func([]T) bool) []T {
	n := 2
	for len(items) >= 2 {
		if *budget <= 0 {
			return items
		}
		chunk := (len(items) + n - 1) / n
		reduced := false
		// try removing each chunk (complement test)
		for start := 0; start < len(items); start += chunk {
			end := start + chunk
			if end > len(items) {
				end = len(items)
			}
			cand := make([]T, 0, len(items)-(end-start))
			cand = append(cand, items[:start]...)
			cand = append(cand, items[end:]...)
			*budget--
			if test(cand) {
				items = cand
				if n > 2 {
					n--
				}
				reduced = true
				break
			}
			if *budget <= 0 {
				return items
			}
		}
		if !reduced {
			if n >= len(items) {
				break
			}
			n *= 2
			if n > len(items) {
				n = len(items)
			}
		}
	}
	if len(items) == 1 && *budget > 0 {
		*budget--
		if test(nil) {
			return nil
		}
	}
	return items
}

// T is the *testing.T of the worker entry point; synctest bubbles need one.
var T *testing.T

// WarmupScenario returns the scenario a worker process runs first and discards.
func (p *Prop) WarmupScenario() any {
	if p.WarmupGen != nil {
		return p.WarmupGen()
	}
	return p.Gen(NewRNG(0xC01D), "quick")
}
