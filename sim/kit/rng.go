// Package kit holds the pieces every simulated world shares: the single seeded
// PRNG, scenario/result types, the worker loop, ddmin, replay files and reach counters.
package kit

import (
	"encoding/binary"
	"hash/fnv"
)

// RNG is a SplitMix64 stream. Everything random in a scenario derives from one seed.
type RNG struct{ s uint64 }

func NewRNG(seed uint64) *RNG { return &RNG{s: seed} }

func (r *RNG) Uint64() uint64 {
	r.s += 0x9E3779B97F4A7C15
	z := r.s
	z = (z ^ (z >> 30)) * 0xBF58476D1CE4E5B9
	z = (z ^ (z >> 27)) * 0x94D049BB133111EB
	return z ^ (z >> 31)
}

// Intn returns a value in [0,n). n<=0 yields 0.
func (r *RNG) Intn(n int) int {
	if n <= 1 {
		return 0
	}
	return int(r.Uint64() % uint64(n))
}

// Range returns a value in [lo,hi].
func (r *RNG) Range(lo, hi int) int {
	if hi <= lo {
		return lo
	}
	return lo + r.Intn(hi-lo+1)
}

func (r *RNG) Float64() float64 { return float64(r.Uint64()>>11) / (1 << 53) }

// Chance is true with probability p.
func (r *RNG) Chance(p float64) bool { return r.Float64() < p }

func (r *RNG) Bool() bool { return r.Uint64()&1 == 1 }

// Fork derives an independent stream named by label.
func (r *RNG) Fork(label string) *RNG { return NewRNG(Hash64(r.Uint64(), label)) }

func Pick[T any](r *RNG, xs []T) T { return xs[r.Intn(len(xs))] }

func Shuffle[T any](r *RNG, xs []T) {
	for i := len(xs) - 1; i > 0; i-- {
		j := r.Intn(i + 1)
		xs[i], xs[j] = xs[j], xs[i]
	}
}

// Hash64 mixes a seed with strings; used for content-keyed fates.
func Hash64(seed uint64, parts ...string) uint64 {
	h := fnv.New64a()
	var b [8]byte
	binary.LittleEndian.PutUint64(b[:], seed)
	h.Write(b[:])
	for _, p := range parts {
		h.Write([]byte(p))
		h.Write([]byte{0})
	}
	z := h.Sum64()
	z = (z ^ (z >> 30)) * 0xBF58476D1CE4E5B9
	z = (z ^ (z >> 27)) * 0x94D049BB133111EB
	return z ^ (z >> 31)
}
