//go:build !verifrt

package kit

func SetRuntimeSeed(s uint64) {}

const RuntimeSeeded = false
