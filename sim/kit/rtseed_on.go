//go:build verifrt

package kit

import _ "unsafe"

// runtimeVerifSeed is the Go runtime's scenario-seeded coin (overlay/gen.py, part 4):
// select's choice among ready cases and the firing order of bubbled timers with equal
// deadlines draw from it while it is non-zero.
//
//go:linkname runtimeVerifSeed runtime.verifSeed
var runtimeVerifSeed uint64

// SetRuntimeSeed pins the runtime's coin for the scenario that follows (0 = shipped behaviour).
func SetRuntimeSeed(s uint64) { runtimeVerifSeed = s }

const RuntimeSeeded = true
