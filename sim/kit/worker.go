package kit

import (
	"encoding/json"
	"fmt"
	"os"
	"path/filepath"
	"regexp"
	"runtime/debug"
	"strconv"
	"time"
)

// KnownFinding is one entry of /verif/known_findings.json.
type KnownFinding struct {
	Property string `json:"property"`
	Status   string `json:"status"` // "open" suppresses; "fixed" suppresses nothing
	Match    string `json:"match"`  // regexp over "<class>: <detail>"
	What     string `json:"what"`
	Commit   string `json:"commit,omitempty"`
}

// Replay is the replay-file format.
type Replay struct {
	Property  string          `json:"property"`
	Seed      uint64          `json:"seed"`
	Tier      string          `json:"tier"`
	Scenario  json.RawMessage `json:"scenario"`
	Violation Violation       `json:"violation"`
	LogHash   string          `json:"log_hash"`
	Minimised bool            `json:"minimised"`
	ShrinkRan int             `json:"shrink_runs"`
	Trace     []string        `json:"trace"`
}

// ChunkOut is what one worker process reports back to the runner.
type ChunkOut struct {
	Property    string            `json:"property"`
	Chunk       int               `json:"chunk"`
	Evaluations int               `json:"evaluations"`
	Sigs        []string          `json:"sigs"` // distinct shape signatures of nontrivial runs
	SimTimeNS   int64             `json:"sim_time_ns"`
	Steps       int64             `json:"steps"`
	Faults      map[string]int    `json:"faults"`
	Probes      map[string]int    `json:"probes"`
	Inconcl     int               `json:"inconclusive"`
	Samples     []any             `json:"samples"`
	Violations  []ViolOut         `json:"violations"`
	Known       []ViolOut         `json:"known"`
	Hashes      map[string]string `json:"hashes,omitempty"` // seed -> log hash (selftest mode)
	HarnessErr  string            `json:"harness_error,omitempty"`
	WallS       float64           `json:"wall_s"`
}

type ViolOut struct {
	Seed   uint64 `json:"seed"`
	Class  string `json:"class"`
	Detail string `json:"detail"`
	Replay string `json:"replay,omitempty"`
	What   string `json:"what,omitempty"`
}

func envInt(name string, def int) int {
	if s := os.Getenv(name); s != "" {
		if v, err := strconv.ParseInt(s, 10, 64); err == nil {
			return int(v)
		}
	}
	return def
}

// ScenarioSeed derives the seed of scenario i of a batch.
func ScenarioSeed(base uint64, prop string, i int) uint64 {
	return Hash64(base, prop, strconv.Itoa(i))
}

func safeRun(p *Prop, sc any, tr *Trace) (res *Result, herr string) {
	defer func() {
		if e := recover(); e != nil {
			// A panic escaping sdns code into the driver is reported as a harness
			// error unless the property turned it into a violation itself.
			herr = fmt.Sprintf("panic in scenario: %v\n%s", e, debug.Stack())
			res = nil
		}
	}()
	return Run(p, sc, tr), ""
}

// Run executes one scenario with the runtime's coin (select choice, order of equal-deadline
// timers) pinned to a value derived from the scenario itself, so that the same scenario
// makes the same choices in any process.
func Run(p *Prop, sc any, tr *Trace) *Result {
	b, _ := json.Marshal(sc)
	SetRuntimeSeed(Hash64(0x5eed, p.ID, string(b)) | 1)
	defer SetRuntimeSeed(0)
	return p.Run(sc, tr)
}

func loadKnown() []KnownFinding {
	path := os.Getenv("VERIF_KNOWN")
	if path == "" {
		return nil
	}
	b, err := os.ReadFile(path)
	if err != nil {
		return nil
	}
	var out []KnownFinding
	_ = json.Unmarshal(b, &out)
	return out
}

func matchKnown(known []KnownFinding, prop string, v *Violation) *KnownFinding {
	for i := range known {
		k := &known[i]
		if k.Property != prop || k.Status != "open" {
			continue
		}
		re, err := regexp.Compile(k.Match)
		if err != nil {
			continue
		}
		if re.MatchString(v.String()) {
			return k
		}
	}
	return nil
}

// WorkerMain runs one chunk (or a replay) as directed by the environment and writes
// ChunkOut JSON to VERIF_OUT. Returns a process exit code.
func WorkerMain() int {
	id := os.Getenv("VERIF_PROP")
	p := Lookup(id)
	if p == nil {
		fmt.Fprintf(os.Stderr, "unknown property %q (have %v)\n", id, IDs())
		return 2
	}
	if os.Getenv("VERIF_INFO") != "" {
		b, _ := json.Marshal(map[string]any{"id": p.ID, "level": p.Level, "rule": p.Rule, "assumptions": p.Assumptions,
			"components": p.Components, "single_p": p.Warmup, "per_chunk": p.PerChunk, "quick": p.Quick, "thorough": p.Thorough})
		fmt.Println("INFO " + string(b))
		return 0
	}
	// Warm-up: one fixed throw-away scenario per process. sdns starts a few process-wide
	// goroutines lazily (metric flushers, loggers); they belong to the bubble of whichever
	// scenario runs first and draw from the runtime's coin there. Spending them on a
	// scenario nobody looks at makes the N-th scenario of a batch behave as it does alone.
	if p.Warmup {
		_, _ = safeRun(p, p.WarmupScenario(), &Trace{})
	}
	if rp := os.Getenv("VERIF_REPLAY"); rp != "" {
		return replayMain(p, rp)
	}
	tier := os.Getenv("VERIF_TIER")
	if tier == "" {
		tier = "quick"
	}
	base := uint64(envInt("VERIF_SEED", 1))
	chunk := envInt("VERIF_CHUNK", 0)
	first := envInt("VERIF_FIRST", 0)
	count := envInt("VERIF_COUNT", 1)
	deadline := time.Now().Add(time.Duration(envInt("VERIF_WALL_S", 3600)) * time.Second)
	wallDeadline = deadline
	selftest := os.Getenv("VERIF_SELFTEST") != ""
	known := loadKnown()
	replayDir := os.Getenv("VERIF_REPLAY_DIR")
	if replayDir == "" {
		replayDir = "/verif/replays"
	}

	out := &ChunkOut{Property: id, Chunk: chunk, Faults: map[string]int{}, Probes: map[string]int{}}
	if selftest {
		out.Hashes = map[string]string{}
	}
	sigs := map[string]bool{}
	start := time.Now()
	for i := first; i < first+count; i++ {
		if time.Now().After(deadline) {
			break
		}
		seed := ScenarioSeed(base, id, i)
		var sc any
		if p.GenAt != nil {
			sc = p.GenAt(i, NewRNG(seed), tier)
		} else {
			sc = p.Gen(NewRNG(seed), tier)
		}
		tr := &Trace{Keep: false}
		res, herr := safeRun(p, sc, tr)
		if herr != "" {
			out.HarnessErr = fmt.Sprintf("seed %d: %s", seed, herr)
			break
		}
		out.Evaluations++
		if res.Evals > 1 {
			out.Evaluations += res.Evals - 1
		}
		out.SimTimeNS += int64(res.SimTime)
		out.Steps += int64(res.Steps)
		out.Inconcl += res.Inconcl
		for k, v := range res.Faults {
			out.Faults[k] += v
		}
		for k, v := range res.Probes {
			out.Probes[k] += v
		}
		if res.Nontrivial {
			sigs[tr.ShapeSig()] = true
		}
		for _, s := range res.ExtraSigs {
			sigs[s] = true
		}
		if selftest {
			out.Hashes[strconv.FormatUint(seed, 10)] = tr.Hash()
		}
		if len(out.Samples) < 2 && (res.Nontrivial || i == first+count-1) {
			out.Samples = append(out.Samples, map[string]any{"seed": seed, "scenario": sc, "events": tr.Events(), "sim_time_s": res.SimTime.Seconds()})
		}
		if res.Viol != nil {
			if res.Derived != nil {
				sc = res.Derived
			}
			vo := handleViolation(p, id, tier, seed, sc, res.Viol, known, replayDir, &out.HarnessErr)
			if vo == nil {
				break // harness error (non-reproducible)
			}
			if vo.What != "" {
				// known finding: keep exploring, report once per distinct entry
				dup := false
				for _, k := range out.Known {
					if k.What == vo.What {
						dup = true
					}
				}
				if !dup {
					out.Known = append(out.Known, *vo)
				}
				continue
			}
			out.Violations = append(out.Violations, *vo)
			break
		}
	}
	for s := range sigs {
		out.Sigs = append(out.Sigs, s)
	}
	out.WallS = time.Since(start).Seconds()
	return writeOut(out)
}

func writeOut(out *ChunkOut) int {
	b, _ := json.Marshal(out)
	path := os.Getenv("VERIF_OUT")
	if path == "" {
		fmt.Println(string(b))
	} else if err := os.WriteFile(path, b, 0o644); err != nil {
		fmt.Fprintln(os.Stderr, err)
		return 2
	}
	if out.HarnessErr != "" {
		return 2
	}
	return 0
}

func cloneScenario(p *Prop, sc any) any {
	b, _ := json.Marshal(sc)
	n := p.Blank()
	if err := json.Unmarshal(b, n); err != nil {
		panic("scenario does not round-trip through JSON: " + err.Error())
	}
	return n
}

func handleViolation(p *Prop, id, tier string, seed uint64, sc any, v *Violation, known []KnownFinding, dir string, herr *string) *ViolOut {
	// Confirm from the serialised form: what replays is the JSON, not the in-memory value.
	sc = cloneScenario(p, sc)
	tr := &Trace{}
	res, e := safeRun(p, sc, tr)
	// A scenario whose outcome hangs on a same-instant race inside sdns can come out
	// differently on a re-run (DESIGN.md, determinism limits): give it a few more chances
	// before calling the observation unreproducible.
	for try := 0; try < 4 && e == "" && (res.Viol == nil || res.Viol.Class != v.Class); try++ {
		tr = &Trace{}
		res, e = safeRun(p, sc, tr)
	}
	if (e != "" || res.Viol == nil || res.Viol.Class != v.Class) && e == "" {
		// An observation that does not come back on re-running is a harness error — unless
		// it is one of the recorded findings: those are acknowledged defects of sdns whose
		// appearance may hang on a same-instant race (DESIGN.md §8.2), and reporting them as
		// known needs no replay file.
		if k := matchKnown(known, id, v); k != nil {
			return &ViolOut{Seed: seed, Class: v.Class, Detail: v.Detail, What: k.What}
		}
	}
	if e != "" || res.Viol == nil || res.Viol.Class != v.Class {
		got := "none"
		if res != nil && res.Viol != nil {
			got = res.Viol.String()
		}
		*herr = fmt.Sprintf("seed %d: violation %q did not reproduce from serialised scenario (got %s) %s — nondeterministic harness", seed, v.String(), got, e)
		return nil
	}
	if k := matchKnown(known, id, res.Viol); k != nil {
		return &ViolOut{Seed: seed, Class: v.Class, Detail: v.Detail, What: k.What}
	}
	runs := 0
	min := sc
	if p.Shrink != nil {
		// Shrinking is bounded in wall time: past the budget every candidate counts as
		// "does not fail", so the search stops at the smallest scenario found so far.
		budget := time.Duration(envInt("VERIF_SHRINK_S", 40)) * time.Second
		if tier == "thorough" {
			budget = time.Duration(envInt("VERIF_SHRINK_S", 240)) * time.Second
		}
		stopAt := time.Now().Add(budget)
		fails := func(c any) bool {
			if time.Now().After(stopAt) {
				return false
			}
			runs++
			r, e := safeRun(p, cloneScenario(p, c), &Trace{})
			if e != "" || r == nil || r.Viol == nil || r.Viol.Class != v.Class {
				return false
			}
			// A shrunk scenario must not drift into a known finding.
			return matchKnown(known, id, r.Viol) == nil
		}
		min = p.Shrink(cloneScenario(p, sc), fails)
	}
	min = cloneScenario(p, min)
	tr = &Trace{Keep: true}
	res, e = safeRun(p, min, tr)
	if e != "" || res.Viol == nil || res.Viol.Class != v.Class {
		// fall back to the unminimised scenario
		min = sc
		tr = &Trace{Keep: true}
		res, _ = safeRun(p, min, tr)
	}
	scb, _ := json.Marshal(min)
	rp := Replay{Property: id, Seed: seed, Tier: tier, Scenario: scb, Violation: *res.Viol,
		LogHash: tr.Hash(), Minimised: p.Shrink != nil, ShrinkRan: runs}
	rp.Trace = tr.Lines
	if len(rp.Trace) > 4000 {
		rp.Trace = append(rp.Trace[:2000:2000], rp.Trace[len(rp.Trace)-2000:]...)
	}
	_ = os.MkdirAll(dir, 0o755)
	path := filepath.Join(dir, fmt.Sprintf("%s-%d.json", id, seed))
	b, _ := json.MarshalIndent(rp, "", " ")
	if err := os.WriteFile(path, b, 0o644); err != nil {
		*herr = err.Error()
		return nil
	}
	return &ViolOut{Seed: seed, Class: res.Viol.Class, Detail: res.Viol.Detail, Replay: path}
}

func replayMain(p *Prop, path string) int {
	b, err := os.ReadFile(path)
	if err != nil {
		fmt.Fprintln(os.Stderr, err)
		return 2
	}
	var rp Replay
	if err := json.Unmarshal(b, &rp); err != nil {
		fmt.Fprintln(os.Stderr, err)
		return 2
	}
	sc := p.Blank()
	if err := json.Unmarshal(rp.Scenario, sc); err != nil {
		fmt.Fprintln(os.Stderr, err)
		return 2
	}
	tr := &Trace{Keep: true}
	res, herr := safeRun(p, sc, tr)
	if herr != "" {
		fmt.Fprintln(os.Stderr, herr)
		return 2
	}
	hash := tr.Hash()
	_ = hash
	if os.Getenv("VERIF_REPLAY_VERBOSE") != "" {
		for _, l := range tr.Lines {
			fmt.Println("  " + l)
		}
	}
	if res.Viol == nil {
		fmt.Printf("REPLAY property=%s file=%s: no violation (log_hash %s, recorded %s)\n", p.ID, path, tr.Hash(), rp.LogHash)
		return 0
	}
	same := "same"
	if tr.Hash() != rp.LogHash {
		same = "DIFFERENT"
	}
	fmt.Printf("REPLAY property=%s class=%q detail=%q log_hash=%s (%s as recorded)\n", p.ID, res.Viol.Class, res.Viol.Detail, tr.Hash(), same)
	fmt.Printf("VIOLATION property=%s replay=%s\n", p.ID, path)
	return 1
}

// EnvInt is exported for test helpers.
func EnvInt(name string, def int) int { return envInt(name, def) }

// WriteReplay writes a scenario as a replay file (no recorded violation).
func WriteReplay(p *Prop, sc any, path string) {
	scb, _ := json.Marshal(sc)
	rp := Replay{Property: p.ID, Scenario: scb}
	b, _ := json.MarshalIndent(rp, "", " ")
	_ = os.WriteFile(path, b, 0o644)
}

// wallDeadline is the real-time end of this worker's budget. A property whose single scenario
// is a long enumeration (C09: every operation x every fault kind) asks WallExpired between
// evaluations and stops enumerating, so that the worker ends on its own instead of being killed.
var wallDeadline time.Time

// WallExpired reports whether the worker's wall budget is used up. Call it outside bubbles only
// (inside one, time.Now is the fake clock).
func WallExpired() bool { return !wallDeadline.IsZero() && time.Now().After(wallDeadline) }
