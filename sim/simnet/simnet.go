// Package simnet is the in-memory network of the simulator. It implements
// verifnet.Network: every upstream dial made by sdns returns one of its connections.
// All waiting is on channels and timers, so inside a synctest bubble the network runs on
// the fake clock. A packet's fate is a pure function of (scenario faults, seed, content
// key, send time) — never of message IDs or connection ordinals (DESIGN.md §2.4, §2.5).
package simnet

import (
	"context"
	"encoding/binary"
	"fmt"
	"net"
	"net/netip"
	"os"
	"sort"
	"strconv"
	"strings"
	"sync"
	"time"

	"github.com/miekg/dns"

	"verifsim/kit"
)

// Query is one upstream query as seen by a simulated server.
type Query struct {
	Proto string // "udp" | "tcp"
	To    netip.AddrPort
	Raw   []byte
	Msg   *dns.Msg // nil when the bytes do not parse
	Key   string   // content key: proto|dst|qname|qtype|nth
	Nth   int      // n-th identical (proto,dst,qname,qtype) send of the run
	At    time.Duration
}

// Reply is one datagram / frame a server sends back.
type Reply struct {
	Raw   []byte
	Delay time.Duration // extra server think time
}

// Server answers queries addressed to one address.
type Server interface {
	Serve(q *Query) []Reply
}

type ServerFunc func(q *Query) []Reply

func (f ServerFunc) Serve(q *Query) []Reply { return f(q) }

// Fault is one scheduled network fault. Target selects by server address ("" = any) and
// qname suffix ("" = any); the window is in fake time since the start of the run.
type Fault struct {
	Kind   string        `json:"kind"`             // drop dup delay reorder refuse reset stall trunc spoof
	Addr   string        `json:"addr,omitempty"`   // server address
	Suffix string        `json:"suffix,omitempty"` // qname suffix (lower case)
	Qtype  uint16        `json:"qtype,omitempty"`
	Proto  string        `json:"proto,omitempty"`
	From   time.Duration `json:"from,omitempty"`
	To     time.Duration `json:"to,omitempty"` // 0 = forever
	Prob   float64       `json:"prob,omitempty"` // 0 = always
	Delay  time.Duration `json:"delay,omitempty"`
	Nth    int           `json:"nth,omitempty"` // only the n-th (1-based) matching packet; 0 = all
}

// Sent is the record of one upstream packet (for oracles).
type Sent struct {
	At    time.Duration
	Proto string
	To    netip.AddrPort
	Name  string
	Qtype uint16
	Msg   *dns.Msg
	Fates []string
	Local string
}

type Net struct {
	mu      sync.Mutex
	seed    uint64
	start   time.Time
	servers map[netip.Addr]Server
	faults  []Fault
	counts  map[string]int
	hits    map[int]int // fault index -> matches so far
	Log     []Sent
	Dials   []string // every dialled address, in order (C07: loopback/local never dialled)
	Fired   map[string]int
	Latency func(to netip.Addr, key string) time.Duration
	Trace   *kit.Trace
	nextPort int
	// OnSend, when set, observes every packet before its fate is applied.
	OnSend func(s *Sent)
	// Spoof, when set, returns datagrams an off-path/on-path attacker injects on the
	// same 5-tuple; they are delivered BEFORE the genuine reply.
	Spoof func(q *Query) [][]byte
}

func New(seed uint64, tr *kit.Trace) *Net {
	return &Net{seed: seed, start: time.Now(), servers: map[netip.Addr]Server{}, counts: map[string]int{},
		hits: map[int]int{}, Fired: map[string]int{}, Trace: tr, nextPort: 20000}
}

func (n *Net) Now() time.Duration { return time.Since(n.start) }

func (n *Net) AddServer(addr string, s Server) {
	n.servers[netip.MustParseAddr(addr)] = s
}

func (n *Net) SetFaults(f []Fault) { n.faults = f }

// latency: base 3–9 ms plus a hashed sub-millisecond component so deliveries do not tie
// with each other or with sdns's round-number timers.
func (n *Net) latency(to netip.Addr, key string) time.Duration {
	if n.Latency != nil {
		return n.Latency(to, key)
	}
	h := kit.Hash64(n.seed, "lat", to.String(), key)
	return 3*time.Millisecond + time.Duration(h%6000)*time.Microsecond + time.Duration(h>>20%997)*time.Nanosecond
}

func (n *Net) matchFaults(kind []string, proto string, to netip.Addr, name string, qtype uint16, key string, now time.Duration) (out []Fault) {
	for i, f := range n.faults {
		ok := false
		for _, k := range kind {
			if f.Kind == k {
				ok = true
			}
		}
		if !ok {
			continue
		}
		if f.Addr != "" && f.Addr != to.String() {
			continue
		}
		if f.Proto != "" && f.Proto != proto {
			continue
		}
		if f.Suffix != "" && !dns.IsSubDomain(f.Suffix, name) {
			continue
		}
		if f.Qtype != 0 && f.Qtype != qtype {
			continue
		}
		if now < f.From || (f.To != 0 && now >= f.To) {
			continue
		}
		if f.Prob > 0 && f.Prob < 1 {
			h := kit.Hash64(n.seed, "fault", strconv.Itoa(i), key)
			if float64(h>>11)/(1<<53) >= f.Prob {
				continue
			}
		}
		n.hits[i]++
		if f.Nth != 0 && n.hits[i] != f.Nth {
			continue
		}
		out = append(out, f)
	}
	return out
}

type timeoutErr struct{}

func (timeoutErr) Error() string   { return "i/o timeout (simnet)" }
func (timeoutErr) Timeout() bool   { return true }
func (timeoutErr) Temporary() bool { return true }
func (timeoutErr) Unwrap() error   { return os.ErrDeadlineExceeded }

// Dial implements verifnet.Network.
func (n *Net) Dial(ctx context.Context, network string, local net.Addr, address string, deadline time.Time) (net.Conn, error) {
	ap, err := netip.ParseAddrPort(address)
	if err != nil {
		return nil, &net.OpError{Op: "dial", Net: network, Err: err}
	}
	n.mu.Lock()
	n.Dials = append(n.Dials, network+"/"+address)
	n.nextPort++
	port := n.nextPort
	now := n.Now()
	refuse := false
	if strings.HasPrefix(network, "tcp") {
		if len(n.matchFaults([]string{"refuse"}, "tcp", ap.Addr(), ".", 0, "dial|"+address, now)) > 0 {
			refuse = true
			n.Fired["refuse"]++
		}
		if _, ok := n.servers[ap.Addr()]; !ok {
			refuse = true
		}
	}
	n.mu.Unlock()
	la := "10.255.0.1"
	if ap.Addr().Is6() {
		la = "fd00::1"
	}
	if local != nil {
		switch a := local.(type) {
		case *net.UDPAddr:
			if a.IP != nil {
				la = a.IP.String()
			}
		case *net.TCPAddr:
			if a.IP != nil {
				la = a.IP.String()
			}
		}
	}
	lap := netip.AddrPortFrom(netip.MustParseAddr(la), uint16(port))
	c := &conn{n: n, proto: "udp", remote: ap, local: lap, wake: make(chan struct{}, 1)}
	if strings.HasPrefix(network, "tcp") {
		c.proto = "tcp"
		if refuse {
			return nil, &net.OpError{Op: "dial", Net: network, Err: fmt.Errorf("connection refused (simnet)")}
		}
		// connection establishment costs one round trip
		time.Sleep(2 * n.latency(ap.Addr(), "syn|"+address))
		if err := ctx.Err(); err != nil {
			return nil, err
		}
	}
	return c, nil
}

// conn is both the datagram and the stream client connection.
type conn struct {
	n      *Net
	proto  string
	remote netip.AddrPort
	local  netip.AddrPort

	mu       sync.Mutex
	rx       [][]byte // datagrams, or stream chunks
	rdl, wdl time.Time
	closed   bool
	reset    bool
	wake     chan struct{}
	wbuf     []byte // tcp: bytes written, not yet a full frame
}

func (c *conn) signal() {
	select {
	case c.wake <- struct{}{}:
	default:
	}
}

func (c *conn) LocalAddr() net.Addr {
	if c.proto == "udp" {
		return net.UDPAddrFromAddrPort(c.local)
	}
	return net.TCPAddrFromAddrPort(c.local)
}
func (c *conn) RemoteAddr() net.Addr {
	if c.proto == "udp" {
		return net.UDPAddrFromAddrPort(c.remote)
	}
	return net.TCPAddrFromAddrPort(c.remote)
}
func (c *conn) SetDeadline(t time.Time) error {
	c.mu.Lock()
	c.rdl, c.wdl = t, t
	c.mu.Unlock()
	c.signal()
	return nil
}
func (c *conn) SetReadDeadline(t time.Time) error {
	c.mu.Lock()
	c.rdl = t
	c.mu.Unlock()
	c.signal()
	return nil
}
func (c *conn) SetWriteDeadline(t time.Time) error {
	c.mu.Lock()
	c.wdl = t
	c.mu.Unlock()
	return nil
}
func (c *conn) Close() error {
	c.mu.Lock()
	c.closed = true
	c.mu.Unlock()
	c.signal()
	return nil
}

func (c *conn) Read(p []byte) (int, error) {
	for {
		c.mu.Lock()
		if c.closed {
			c.mu.Unlock()
			return 0, net.ErrClosed
		}
		if len(c.rx) > 0 {
			b := c.rx[0]
			nn := copy(p, b)
			if c.proto == "tcp" && nn < len(b) {
				c.rx[0] = b[nn:]
			} else {
				c.rx = c.rx[1:]
			}
			c.mu.Unlock()
			return nn, nil
		}
		if c.reset {
			c.mu.Unlock()
			return 0, &net.OpError{Op: "read", Net: c.proto, Err: fmt.Errorf("connection reset by peer (simnet)")}
		}
		dl := c.rdl
		c.mu.Unlock()
		var tc <-chan time.Time
		var t *time.Timer
		if !dl.IsZero() {
			d := time.Until(dl)
			if d <= 0 {
				return 0, &net.OpError{Op: "read", Net: c.proto, Err: timeoutErr{}}
			}
			t = time.NewTimer(d)
			tc = t.C
		}
		select {
		case <-c.wake:
		case <-tc:
		}
		if t != nil {
			t.Stop()
		}
	}
}

func (c *conn) Write(p []byte) (int, error) {
	c.mu.Lock()
	if c.closed {
		c.mu.Unlock()
		return 0, net.ErrClosed
	}
	if c.reset {
		c.mu.Unlock()
		return 0, &net.OpError{Op: "write", Net: c.proto, Err: fmt.Errorf("broken pipe (simnet)")}
	}
	if c.proto == "udp" {
		c.mu.Unlock()
		c.n.send(c, append([]byte(nil), p...))
		return len(p), nil
	}
	c.wbuf = append(c.wbuf, p...)
	var frames [][]byte
	for len(c.wbuf) >= 2 {
		l := int(binary.BigEndian.Uint16(c.wbuf))
		if len(c.wbuf) < 2+l {
			break
		}
		frames = append(frames, append([]byte(nil), c.wbuf[2:2+l]...))
		c.wbuf = c.wbuf[2+l:]
	}
	c.mu.Unlock()
	for _, f := range frames {
		c.n.send(c, f)
	}
	return len(p), nil
}

func (c *conn) deliver(b []byte) {
	c.mu.Lock()
	if c.closed {
		c.mu.Unlock()
		return
	}
	if c.proto == "tcp" {
		fr := make([]byte, 2+len(b))
		binary.BigEndian.PutUint16(fr, uint16(len(b)))
		copy(fr[2:], b)
		// Segment the frame at a content-keyed boundary: short reads.
		cut := int(kit.Hash64(c.n.seed, "seg", string(b[:min(len(b), 16)])) % uint64(len(fr)))
		if cut > 0 {
			c.rx = append(c.rx, fr[:cut])
		}
		c.rx = append(c.rx, fr[cut:])
	} else {
		c.rx = append(c.rx, b)
	}
	c.mu.Unlock()
	c.signal()
}

func (c *conn) doReset() {
	c.mu.Lock()
	c.reset = true
	c.mu.Unlock()
	c.signal()
}

// send applies the packet's fate and schedules server processing and replies.
func (n *Net) send(c *conn, raw []byte) {
	msg := new(dns.Msg)
	name, qtype := "?", uint16(0)
	if err := msg.Unpack(raw); err != nil {
		msg = nil
	} else if len(msg.Question) > 0 {
		name, qtype = strings.ToLower(msg.Question[0].Name), msg.Question[0].Qtype
	}
	n.mu.Lock()
	now := n.Now()
	base := c.proto + "|" + c.remote.String() + "|" + name + "|" + strconv.Itoa(int(qtype))
	n.counts[base]++
	nth := n.counts[base]
	key := base + "|" + strconv.Itoa(nth)
	rec := &Sent{At: now, Proto: c.proto, To: c.remote, Name: name, Qtype: qtype, Msg: msg, Local: c.local.Addr().String()}
	faults := n.matchFaults([]string{"drop", "dup", "delay", "reset", "stall", "trunc", "droprep"}, c.proto, c.remote.Addr(), name, qtype, key, now)
	srv := n.servers[c.remote.Addr()]
	lat := n.latency(c.remote.Addr(), key)
	dropReq, dropRep, dup, reset, stall, trunc := false, false, false, false, false, false
	extra := time.Duration(0)
	for _, f := range faults {
		rec.Fates = append(rec.Fates, f.Kind)
		n.Fired[f.Kind]++
		switch f.Kind {
		case "drop":
			dropReq = true
		case "droprep":
			dropRep = true
		case "dup":
			dup = true
		case "delay":
			extra += f.Delay
		case "reset":
			reset = true
		case "stall":
			stall = true
		case "trunc":
			trunc = true
		}
	}
	if srv == nil {
		rec.Fates = append(rec.Fates, "noserver")
	}
	n.Log = append(n.Log, *rec)
	if n.OnSend != nil {
		n.OnSend(rec)
	}
	n.Trace.AddAt(now, "net %s -> %s %s %s fates=%v", c.proto, c.remote, name, dns.TypeToString[qtype], rec.Fates)
	n.mu.Unlock()
	if srv == nil || dropReq || stall {
		return
	}
	if reset {
		time.AfterFunc(lat, c.doReset)
		return
	}
	q := &Query{Proto: c.proto, To: c.remote, Raw: raw, Msg: msg, Key: key, Nth: nth, At: now}
	time.AfterFunc(lat+extra, func() {
		q.At = n.Now()
		replies := srv.Serve(q)
		if n.Spoof != nil && c.proto == "udp" {
			for i, b := range n.Spoof(q) {
				b := b
				n.mu.Lock()
				n.Fired["spoof"]++
				n.mu.Unlock()
				time.AfterFunc(time.Duration(i+1)*100*time.Microsecond, func() { c.deliver(b) })
			}
		}
		if dropRep {
			return
		}
		for i, r := range replies {
			b := r.Raw
			if trunc && c.proto == "udp" {
				b = truncate(b)
			}
			back := n.latency(c.remote.Addr(), key+"|r"+strconv.Itoa(i))
			d := r.Delay + back
			time.AfterFunc(d, func() { c.deliver(b) })
			if dup {
				time.AfterFunc(d+back/2+time.Microsecond, func() { c.deliver(append([]byte(nil), b...)) })
			}
		}
	})
}

// truncate turns a response into a TC=1 header+question reply.
func truncate(b []byte) []byte {
	m := new(dns.Msg)
	if m.Unpack(b) != nil {
		return b
	}
	m.Truncated = true
	m.Answer, m.Ns, m.Extra = nil, nil, nil
	out, err := m.Pack()
	if err != nil {
		return b
	}
	return out
}

// Canonical returns the send log ordered canonically: same-instant sends by racing
// goroutines are sorted by content so the order the Go scheduler ran them in is not
// part of the fingerprint.
func (n *Net) Canonical() []Sent {
	n.mu.Lock()
	out := append([]Sent(nil), n.Log...)
	n.mu.Unlock()
	sort.SliceStable(out, func(i, j int) bool {
		if out[i].At != out[j].At {
			return out[i].At < out[j].At
		}
		a := out[i].Proto + out[i].To.String() + out[i].Name + strconv.Itoa(int(out[i].Qtype))
		b := out[j].Proto + out[j].To.String() + out[j].Name + strconv.Itoa(int(out[j].Qtype))
		return a < b
	})
	return out
}

// SentCount returns the number of upstream packets sent so far.
func (n *Net) SentCount() int {
	n.mu.Lock()
	defer n.mu.Unlock()
	return len(n.Log)
}
