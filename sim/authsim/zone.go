package authsim

import (
	"bytes"
	"fmt"
	"net/netip"
	"sort"
	"strings"
	"time"

	"github.com/miekg/dns"
)

// NSHost is one name server of a zone.
type NSHost struct {
	Name  string
	Addrs []netip.Addr
}

// Delegation is a zone cut inside a parent zone.
type Delegation struct {
	Child  string
	NS     []NSHost // as published by the parent (may differ from the child's own)
	NSTTL  uint32
	DSTTL  uint32
	Secure bool // parent publishes DS for the child's KSK
	// NoGlue suppresses glue in referrals even for in-bailiwick hosts.
	NoGlue bool
	// DSOverride, when non-nil, replaces the DS set derived from the child's KSK.
	DSOverride []dns.RR
}

// Zone is one authoritative zone.
type Zone struct {
	Name    string
	ID      int // provenance id
	Signed  bool
	Alg     uint8
	KSK     *Key
	ZSK     *Key
	Extra   []*Key // additional DNSKEYs published at the apex
	NSEC3   bool
	Iter    uint16
	Salt    string
	OptOut  bool
	SOATTL  uint32
	SOAMin  uint32
	NSTTL   uint32
	KeyTTL  uint32
	NS      []NSHost
	Nodes   map[string]map[uint16][]dns.RR // authoritative data, owner -> type -> rrset
	Cuts    map[string]*Delegation
	SigFrom time.Time
	SigTo   time.Time

	world *World
	chain []string            // cached NSEC owner order
	n3    []nsec3Entry        // cached NSEC3 chain
	sigs  map[string]*dns.RRSIG
}

type nsec3Entry struct {
	hash  string // base32hex, upper case? (dns.HashName returns upper)
	owner string // original owner ("" for none)
	types []uint16
	optout bool
}

// World is a set of zones and the servers that host them.
type World struct {
	Zones   map[string]*Zone
	Hosts   map[netip.Addr][]*Zone // zones served at an address
	Epoch   time.Time
	nextID  int
}

func NewWorld(epoch time.Time) *World {
	return &World{Zones: map[string]*Zone{}, Hosts: map[netip.Addr][]*Zone{}, Epoch: epoch}
}

// AddZone creates a zone served by ns. SOA and apex NS are added automatically.
func (w *World) AddZone(name string, ns []NSHost) *Zone {
	name = dns.CanonicalName(name)
	w.nextID++
	z := &Zone{Name: name, ID: w.nextID, NS: ns, SOATTL: 3600, SOAMin: 300, NSTTL: 3600, KeyTTL: 3600,
		Nodes: map[string]map[uint16][]dns.RR{}, Cuts: map[string]*Delegation{}, world: w, sigs: map[string]*dns.RRSIG{},
		SigFrom: w.Epoch.Add(-24 * time.Hour), SigTo: w.Epoch.Add(400 * 24 * time.Hour)}
	w.Zones[name] = z
	for _, h := range ns {
		for _, a := range h.Addrs {
			w.Hosts[a] = append(w.Hosts[a], z)
		}
	}
	z.rebuildApex()
	return z
}

func (z *Zone) rebuildApex() {
	mbox := "hostmaster." + z.Name
	if z.Name == "." {
		mbox = "hostmaster."
	}
	primary := "."
	if len(z.NS) > 0 {
		primary = z.NS[0].Name
	}
	soa := &dns.SOA{Hdr: dns.RR_Header{Name: z.Name, Rrtype: dns.TypeSOA, Class: dns.ClassINET, Ttl: z.SOATTL},
		Ns: primary, Mbox: mbox, Serial: uint32(1000 + z.ID), Refresh: 7200, Retry: 3600, Expire: 1209600, Minttl: z.SOAMin}
	z.setRRset(z.Name, dns.TypeSOA, []dns.RR{soa})
	var nss []dns.RR
	for _, h := range z.NS {
		nss = append(nss, &dns.NS{Hdr: dns.RR_Header{Name: z.Name, Rrtype: dns.TypeNS, Class: dns.ClassINET, Ttl: z.NSTTL}, Ns: h.Name})
	}
	z.setRRset(z.Name, dns.TypeNS, nss)
	if z.Signed {
		var keys []dns.RR
		seen := map[*Key]bool{}
		for _, k := range append([]*Key{z.KSK, z.ZSK}, z.Extra...) {
			if k == nil || seen[k] {
				continue
			}
			seen[k] = true
			c := dns.Copy(k.DNSKEY).(*dns.DNSKEY)
			c.Hdr.Ttl = z.KeyTTL
			keys = append(keys, c)
		}
		z.setRRset(z.Name, dns.TypeDNSKEY, keys)
		if z.NSEC3 {
			z.setRRset(z.Name, dns.TypeNSEC3PARAM, []dns.RR{&dns.NSEC3PARAM{Hdr: dns.RR_Header{Name: z.Name, Rrtype: dns.TypeNSEC3PARAM, Class: dns.ClassINET, Ttl: 0},
				Hash: dns.SHA1, Flags: 0, Iterations: z.Iter, SaltLength: uint8(len(z.Salt) / 2), Salt: saltOrDash(z.Salt)}})
		}
	}
	z.invalidate()
}

func saltOrDash(s string) string {
	if s == "" {
		return ""
	}
	return s
}

// Sign turns on DNSSEC for the zone. csk uses one key for both roles.
func (z *Zone) Sign(alg uint8, keyIdx int, csk bool) {
	z.Signed = true
	z.Alg = alg
	z.KSK = NewKey(z.Name, alg, 257, keyIdx)
	if csk {
		z.ZSK = z.KSK
	} else {
		z.ZSK = NewKey(z.Name, alg, 256, keyIdx+500)
	}
	z.rebuildApex()
}

func (z *Zone) UseNSEC3(iter uint16, salt string, optout bool) {
	z.NSEC3, z.Iter, z.Salt, z.OptOut = true, iter, strings.ToLower(salt), optout
	z.rebuildApex()
}

func (z *Zone) invalidate() {
	z.chain = nil
	z.n3 = nil
}

func (z *Zone) setRRset(owner string, t uint16, rrs []dns.RR) {
	owner = dns.CanonicalName(owner)
	if z.Nodes[owner] == nil {
		z.Nodes[owner] = map[uint16][]dns.RR{}
	}
	if len(rrs) == 0 {
		delete(z.Nodes[owner], t)
	} else {
		z.Nodes[owner][t] = rrs
	}
	z.invalidate()
}

// Add adds records given in presentation form ("owner ttl IN type rdata").
func (z *Zone) Add(rrs ...string) {
	for _, s := range rrs {
		rr, err := dns.NewRR(s)
		if err != nil || rr == nil {
			panic(fmt.Sprintf("authsim: bad RR %q: %v", s, err))
		}
		z.AddRR(rr)
	}
}

func (z *Zone) AddRR(rr dns.RR) {
	rr.Header().Name = dns.CanonicalName(rr.Header().Name)
	owner, t := rr.Header().Name, rr.Header().Rrtype
	if z.Nodes[owner] == nil {
		z.Nodes[owner] = map[uint16][]dns.RR{}
	}
	z.Nodes[owner][t] = append(z.Nodes[owner][t], rr)
	z.invalidate()
}

// RemoveName deletes every record at owner.
func (z *Zone) RemoveName(owner string) {
	delete(z.Nodes, dns.CanonicalName(owner))
	z.invalidate()
}

// Delegate creates a zone cut for child.
func (z *Zone) Delegate(child string, ns []NSHost, secure bool) *Delegation {
	child = dns.CanonicalName(child)
	d := &Delegation{Child: child, NS: ns, NSTTL: 3600, DSTTL: 3600, Secure: secure}
	z.Cuts[child] = d
	z.invalidate()
	return d
}

func (z *Zone) Undelegate(child string) {
	delete(z.Cuts, dns.CanonicalName(child))
	z.invalidate()
}

// DS returns the DS RRset the parent publishes for a delegation (nil when insecure).
func (z *Zone) dsFor(d *Delegation) []dns.RR {
	if d.DSOverride != nil {
		out := make([]dns.RR, len(d.DSOverride))
		for i, r := range d.DSOverride {
			out[i] = dns.Copy(r)
			out[i].Header().Ttl = d.DSTTL
		}
		return out
	}
	if !d.Secure {
		return nil
	}
	c := z.world.Zones[d.Child]
	if c == nil || !c.Signed || c.KSK == nil {
		return nil
	}
	ds := c.KSK.DNSKEY.ToDS(dns.SHA256)
	ds.Hdr.Ttl = d.DSTTL
	return []dns.RR{ds}
}

// ---------------------------------------------------------------- canonical order

func wireLabels(name string) [][]byte {
	buf := make([]byte, 300)
	off, err := dns.PackDomainName(dns.CanonicalName(name), buf, 0, nil, false)
	if err != nil {
		return nil
	}
	var out [][]byte
	for i := 0; i < off; {
		l := int(buf[i])
		if l == 0 {
			break
		}
		lab := bytes.ToLower(buf[i+1 : i+1+l])
		out = append(out, lab)
		i += 1 + l
	}
	return out
}

// CanonicalLess is RFC 4034 §6.1 ordering.
func CanonicalLess(a, b string) bool { return canonicalCompare(a, b) < 0 }

func canonicalCompare(a, b string) int {
	la, lb := wireLabels(a), wireLabels(b)
	for i, j := len(la)-1, len(lb)-1; i >= 0 && j >= 0; i, j = i-1, j-1 {
		if c := bytes.Compare(la[i], lb[j]); c != 0 {
			return c
		}
	}
	return len(la) - len(lb)
}

// ---------------------------------------------------------------- structure queries

// cutFor returns the delegation at or above name inside the zone (nil if none).
func (z *Zone) cutFor(name string) *Delegation {
	name = dns.CanonicalName(name)
	for n := name; dns.IsSubDomain(z.Name, n) && n != z.Name; {
		if d, ok := z.Cuts[n]; ok {
			return d
		}
		i, end := dns.NextLabel(n, 0)
		if end {
			break
		}
		n = n[i:]
	}
	return nil
}

// ownerNames returns every name that exists in the zone's own tree: authoritative
// owners and delegation points (not glue below cuts).
func (z *Zone) ownerNames() []string {
	set := map[string]bool{}
	for o, types := range z.Nodes {
		if len(types) == 0 {
			continue
		}
		if d := z.cutFor(o); d != nil && o != d.Child {
			continue // glue or occluded
		} else if d != nil && o == d.Child {
			continue // counted via cuts
		}
		set[o] = true
	}
	for c := range z.Cuts {
		set[c] = true
	}
	out := make([]string, 0, len(set))
	for o := range set {
		out = append(out, o)
	}
	sort.Slice(out, func(i, j int) bool { return CanonicalLess(out[i], out[j]) })
	return out
}

// exists reports whether name exists as an owner or as an empty non-terminal.
func (z *Zone) nameExists(name string) (owner bool, ent bool) {
	name = dns.CanonicalName(name)
	for _, o := range z.ownerNames() {
		if o == name {
			return true, false
		}
		if dns.IsSubDomain(name, o) {
			ent = true
		}
	}
	return false, ent
}

// typesAt returns the type bitmap of an owner for NSEC/NSEC3 purposes.
func (z *Zone) typesAt(owner string) []uint16 {
	var ts []uint16
	if d, ok := z.Cuts[owner]; ok {
		ts = append(ts, dns.TypeNS)
		if len(z.dsFor(d)) > 0 {
			ts = append(ts, dns.TypeDS)
		}
	} else {
		for t := range z.Nodes[owner] {
			ts = append(ts, t)
		}
	}
	return ts
}

func sortTypes(ts []uint16) []uint16 {
	set := map[uint16]bool{}
	for _, t := range ts {
		set[t] = true
	}
	out := make([]uint16, 0, len(set))
	for t := range set {
		out = append(out, t)
	}
	sort.Slice(out, func(i, j int) bool { return out[i] < out[j] })
	return out
}

func labelsOf(name string) int { return dns.CountLabel(name) }

func parentName(name string) string {
	i, end := dns.NextLabel(name, 0)
	if end {
		return "."
	}
	return name[i:]
}
