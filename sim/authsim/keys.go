// Package authsim is the simulated authoritative DNS world: a zone model, a signer,
// honest and adversarial server behaviours, a tamper library and the ground-truth
// resolver the oracles compare sdns against (DESIGN.md §2.5).
package authsim

import (
	"crypto"
	"crypto/ecdsa"
	"crypto/ed25519"
	"crypto/elliptic"
	"crypto/sha256"
	"crypto/x509"
	"encoding/base64"
	"fmt"
	"math/big"
	"sync"

	"github.com/miekg/dns"
)

// Key is a DNSKEY with its private half. Key material is a pure function of
// (algorithm, index): runs never depend on crypto/rand for identities or key tags.
type Key struct {
	DNSKEY *dns.DNSKEY
	Signer crypto.Signer
	Tag    uint16
	Alg    uint8
	Idx    int
}

var (
	keyMu    sync.Mutex
	keyCache = map[string]*Key{}
)

// SupportedAlgs are the algorithms zones are signed with.
var SupportedAlgs = []uint8{dns.RSASHA256, dns.RSASHA512, dns.ECDSAP256SHA256, dns.ECDSAP384SHA384, dns.ED25519}

// NewKey returns key #idx of the algorithm, bound to owner with the given flags.
func NewKey(owner string, alg uint8, flags uint16, idx int) *Key {
	ck := fmt.Sprintf("%s|%d|%d|%d", owner, alg, flags, idx)
	keyMu.Lock()
	defer keyMu.Unlock()
	if k, ok := keyCache[ck]; ok {
		return k
	}
	dk := &dns.DNSKEY{Hdr: dns.RR_Header{Name: owner, Rrtype: dns.TypeDNSKEY, Class: dns.ClassINET, Ttl: 3600},
		Flags: flags, Protocol: 3, Algorithm: alg}
	var signer crypto.Signer
	seed := sha256.Sum256([]byte(fmt.Sprintf("authsim-key-%d-%d", alg, idx)))
	switch alg {
	case dns.ED25519:
		priv := ed25519.NewKeyFromSeed(seed[:])
		signer = priv
		dk.PublicKey = base64.StdEncoding.EncodeToString(priv.Public().(ed25519.PublicKey))
	case dns.ECDSAP256SHA256, dns.ECDSAP384SHA384:
		curve := elliptic.P256()
		size := 32
		if alg == dns.ECDSAP384SHA384 {
			curve = elliptic.P384()
			size = 48
		}
		d := new(big.Int).SetBytes(append(seed[:], seed[:16]...)[:size])
		n1 := new(big.Int).Sub(curve.Params().N, big.NewInt(1))
		d.Mod(d, n1)
		d.Add(d, big.NewInt(1))
		priv := &ecdsa.PrivateKey{D: d}
		priv.Curve = curve
		priv.X, priv.Y = curve.ScalarBaseMult(d.Bytes()) //nolint:staticcheck // deterministic key derivation
		signer = priv
		pub := make([]byte, 2*size)
		priv.X.FillBytes(pub[:size])
		priv.Y.FillBytes(pub[size:])
		dk.PublicKey = base64.StdEncoding.EncodeToString(pub)
	case dns.RSASHA256, dns.RSASHA512, dns.RSASHA1:
		der, _ := base64.StdEncoding.DecodeString(rsaKeysPKCS1[idx%len(rsaKeysPKCS1)])
		priv, err := x509.ParsePKCS1PrivateKey(der)
		if err != nil {
			panic(err)
		}
		signer = priv
		e := big.NewInt(int64(priv.E)).Bytes()
		var pub []byte
		pub = append(pub, byte(len(e)))
		pub = append(pub, e...)
		pub = append(pub, priv.N.Bytes()...)
		dk.PublicKey = base64.StdEncoding.EncodeToString(pub)
	default:
		panic(fmt.Sprintf("authsim: unsupported algorithm %d", alg))
	}
	k := &Key{DNSKEY: dk, Signer: signer, Tag: dk.KeyTag(), Alg: alg, Idx: idx}
	keyCache[ck] = k
	return k
}

// WithFlags returns the same key material under other flags (e.g. REVOKE set).
func (k *Key) WithFlags(flags uint16) *Key {
	return NewKey(k.DNSKEY.Hdr.Name, k.Alg, flags, k.Idx)
}

// CollidingPair searches Ed25519 key indexes for two keys (flags 257) with equal key tag.
func CollidingPair(owner string, from int) (*Key, *Key) {
	seen := map[uint16]*Key{}
	for i := from; i < from+5000; i++ {
		k := NewKey(owner, dns.ED25519, 257, 1000+i)
		if o, ok := seen[k.Tag]; ok {
			return o, k
		}
		seen[k.Tag] = k
	}
	return nil, nil
}
