package authsim

import (
	"sort"
	"time"
	"strings"

	"github.com/miekg/dns"
)

// Truth is what the zone model alone says about a question: no network, no crypto, no
// cache. It is the oracle the client-visible reply is compared with.
type Truth struct {
	Rcode  int
	Answer []dns.RR // alias chain + final RRset, in chain order, without RRSIGs
	Final  string   // owner of the final step (after aliases)
	Zone   *Zone    // zone that gave the final answer / denial
	Zones  []*Zone  // every zone that contributed a step
	// Secure: every step is under an unbroken chain of signed zones and secure
	// delegations from the root. Insecure: some delegation on the path provably has no
	// DS (or the root is unsigned). Bogus: a signed-with-DS child is not actually signed
	// (never generated honestly).
	Secure   bool
	Insecure bool
	// OptOut: the denial (or the insecurity proof) rests on an NSEC3 opt-out span.
	OptOut   bool
	Kind     string // answer nodata nxdomain
	// Bogus: a zone on the secure path publishes signatures whose validity window does
	// not include the run (expired, or not yet valid): nothing from it can validate.
	Bogus    bool
	// BogusBehindInsecure: the zone with the bad window is only reached through an alias
	// that an insecure zone published. That alias is not authenticated, so whoever can
	// alter it decides whether the bad zone is visited at all.
	BogusBehindInsecure bool
	Wildcard bool
	// Spoofable: the name is not an owner of its zone and the zone's NSEC3 chain is
	// opt-out, so an insecure delegation can be claimed at it: nothing about it is
	// authenticated (RFC 5155 §12.2), whether truth is NXDOMAIN or a wildcard match.
	Spoofable bool
	Loop      bool
}

// zonePath returns the zones from the root down to the zone authoritative for
// (name, qtype), following delegations in the model.
func (w *World) zonePath(name string, qtype uint16) (path []*Zone, secure bool) {
	z := w.Zones["."]
	if z == nil {
		return nil, false
	}
	secure = z.Signed
	path = []*Zone{z}
	for {
		d := z.cutFor(name)
		if d == nil || (qtype == dns.TypeDS && d.Child == name) {
			return path, secure
		}
		c := w.Zones[d.Child]
		if c == nil {
			return path, secure // lame delegation: nothing below
		}
		if len(z.dsFor(d)) == 0 || !c.Signed {
			secure = false
		}
		z = c
		path = append(path, z)
	}
}

// Truth resolves (name, qtype) in the model.
func (w *World) Truth(name string, qtype uint16) *Truth {
	t := &Truth{Secure: true}
	name = dns.CanonicalName(name)
	seen := map[string]bool{}
	for depth := 0; depth < 12; depth++ {
		if seen[name] {
			t.Loop = true
			t.Rcode = dns.RcodeServerFailure
			return t
		}
		seen[name] = true
		path, sec := w.zonePath(name, qtype)
		if len(path) == 0 {
			t.Rcode = dns.RcodeServerFailure
			return t
		}
		z := path[len(path)-1]
		if sec {
			for _, pz := range path {
				if pz.Signed && (pz.SigTo.Before(w.Epoch.Add(time.Hour)) || pz.SigFrom.After(w.Epoch.Add(24*time.Hour))) {
					if !t.Bogus && t.Insecure {
						t.BogusBehindInsecure = true
					}
					t.Bogus = true
				}
			}
		}
		t.Zone = z
		t.Zones = append(t.Zones, z)
		t.Final = name
		if !sec {
			t.Secure = false
			t.Insecure = true
			// does the insecurity rest on an opt-out span?
			for i := 0; i+1 < len(path); i++ {
				p := path[i]
				if d := p.Cuts[path[i+1].Name]; d != nil && len(p.dsFor(d)) == 0 && p.Signed && p.NSEC3 && p.OptOut {
					t.OptOut = true
				}
			}
		}
		step, next := z.step(name, qtype, t)
		if step == "alias" {
			name = dns.CanonicalName(next)
			continue
		}
		t.Kind = step
		return t
	}
	t.Loop = true
	t.Rcode = dns.RcodeServerFailure
	return t
}

// step evaluates one name inside its authoritative zone.
func (z *Zone) step(name string, qtype uint16, t *Truth) (kind string, next string) {
	// DNAME above?
	for n := parentName(name); dns.IsSubDomain(z.Name, n); n = parentName(n) {
		if dn, ok := z.Nodes[n][dns.TypeDNAME]; ok && name != n && z.cutFor(n) == nil {
			t.Answer = append(t.Answer, dn...)
			target := dn[0].(*dns.DNAME).Target
			prefix := strings.TrimSuffix(name, n)
			synth := prefix + target
			if target == "." {
				synth = prefix
			}
			t.Answer = append(t.Answer, &dns.CNAME{Hdr: dns.RR_Header{Name: name, Rrtype: dns.TypeCNAME, Class: dns.ClassINET, Ttl: dn[0].Header().Ttl}, Target: synth})
			return "alias", synth
		}
		if n == "." || n == z.Name {
			break
		}
	}
	if d, ok := z.Cuts[name]; ok && qtype == dns.TypeDS {
		if ds := z.dsFor(d); len(ds) > 0 {
			t.Answer = append(t.Answer, ds...)
			t.Rcode = dns.RcodeSuccess
			return "answer", ""
		}
		if z.Signed && z.NSEC3 && z.OptOut {
			t.OptOut = true
		}
		return "nodata", ""
	}
	owner, ent := z.nameExists(name)
	if owner {
		types := z.Nodes[name]
		if rrs, ok := types[qtype]; ok {
			t.Answer = append(t.Answer, rrs...)
			return "answer", ""
		}
		if cn, ok := types[dns.TypeCNAME]; ok && qtype != dns.TypeCNAME {
			t.Answer = append(t.Answer, cn...)
			return "alias", cn[0].(*dns.CNAME).Target
		}
		return "nodata", ""
	}
	if ent {
		return "nodata", ""
	}
	ce, _ := z.closestEncloser(name)
	wild := "*." + ce
	if ce == "." {
		wild = "*."
	}
	if z.Signed && z.NSEC3 && z.OptOut {
		t.Spoofable = true
	}
	if wt, ok := z.Nodes[wild]; ok && z.cutFor(wild) == nil {
		t.Wildcard = true
		if rrs, ok := wt[qtype]; ok {
			for _, r := range rrs {
				c := dns.Copy(r)
				c.Header().Name = name
				t.Answer = append(t.Answer, c)
			}
			return "answer", ""
		}
		if cn, ok := wt[dns.TypeCNAME]; ok && qtype != dns.TypeCNAME {
			c := dns.Copy(cn[0])
			c.Header().Name = name
			t.Answer = append(t.Answer, c)
			return "alias", cn[0].(*dns.CNAME).Target
		}
		return "nodata", ""
	}
	t.Rcode = dns.RcodeNameError
	if z.Signed && z.NSEC3 && z.OptOut {
		// an NXDOMAIN proof in an opt-out zone may rest on an opt-out span
		if n := z.nsec3Covering(name); n != nil && n.Flags&1 == 1 {
			t.OptOut = true
		}
	}
	return "nxdomain", ""
}

// RRKey is the comparison form of a record: lower-cased owner, type, class, rdata.
func RRKey(rr dns.RR) string {
	c := dns.Copy(rr)
	c.Header().Name = dns.CanonicalName(c.Header().Name)
	c.Header().Ttl = 0
	c.Header().Rdlength = 0
	// Domain names inside RDATA compare case-insensitively (RFC 4343). The byte path of sdns
	// compresses them against the client's question, so their case follows the question's.
	switch x := c.(type) {
	case *dns.NS:
		x.Ns = strings.ToLower(x.Ns)
	case *dns.CNAME:
		x.Target = strings.ToLower(x.Target)
	case *dns.DNAME:
		x.Target = strings.ToLower(x.Target)
	case *dns.PTR:
		x.Ptr = strings.ToLower(x.Ptr)
	case *dns.MX:
		x.Mx = strings.ToLower(x.Mx)
	case *dns.SOA:
		x.Ns, x.Mbox = strings.ToLower(x.Ns), strings.ToLower(x.Mbox)
	case *dns.SRV:
		x.Target = strings.ToLower(x.Target)
	case *dns.RRSIG:
		x.SignerName = strings.ToLower(x.SignerName)
	case *dns.NSEC:
		x.NextDomain = strings.ToLower(x.NextDomain)
	}
	s := c.String()
	return s
}

// RRKeys returns the sorted comparison forms of the non-RRSIG records.
func RRKeys(rrs []dns.RR, skip ...uint16) []string {
	var out []string
next:
	for _, r := range rrs {
		for _, s := range skip {
			if r.Header().Rrtype == s {
				continue next
			}
		}
		out = append(out, RRKey(r))
	}
	sort.Strings(out)
	return out
}
