package authsim

import (
	"net/netip"
	"strings"

	"github.com/miekg/dns"
)

// Answer is the structured result of authoritative processing before packing; tampering
// and adversarial behaviours operate on it.
type Answer struct {
	Zone  *Zone
	Msg   *dns.Msg
	Kind  string // answer cname dname wildcard nodata nxdomain referral refused
	Child string // referral target
}

// zoneFor picks the zone hosted at addr that is authoritative for (name, qtype): the
// deepest hosted zone enclosing name; a DS query at a zone apex belongs to the parent.
func (w *World) zoneFor(addr netip.Addr, name string, qtype uint16) *Zone {
	var best *Zone
	for _, z := range w.Hosts[addr] {
		if !dns.IsSubDomain(z.Name, name) {
			continue
		}
		if qtype == dns.TypeDS && z.Name == name && name != "." {
			continue
		}
		if best == nil || labelsOf(z.Name) > labelsOf(best.Name) {
			best = z
		}
	}
	return best
}

// Respond builds the honest authoritative response of the server at addr.
func (w *World) Respond(addr netip.Addr, req *dns.Msg) *Answer {
	m := new(dns.Msg)
	m.SetReply(req)
	m.RecursionAvailable = false
	m.Compress = true
	if len(req.Question) != 1 {
		m.Rcode = dns.RcodeFormatError
		return &Answer{Msg: m, Kind: "refused"}
	}
	q := req.Question[0]
	name := dns.CanonicalName(q.Name)
	do := false
	if o := req.IsEdns0(); o != nil {
		do = o.Do()
		m.SetEdns0(1232, do)
	}
	z := w.zoneFor(addr, name, q.Qtype)
	if z == nil || q.Qclass != dns.ClassINET {
		m.Rcode = dns.RcodeRefused
		return &Answer{Msg: m, Kind: "refused"}
	}
	a := z.answer(m, q.Name, name, q.Qtype, do)
	a.Zone = z
	return a
}

func (z *Zone) addAnswer(m *dns.Msg, rrs []dns.RR, do bool) {
	m.Answer = append(m.Answer, rrs...)
	if do {
		m.Answer = append(m.Answer, z.sigsFor(rrs)...)
	}
}

func (z *Zone) addAuthority(m *dns.Msg, rrs []dns.RR, do bool) {
	m.Ns = append(m.Ns, rrs...)
	if do {
		m.Ns = append(m.Ns, z.sigsFor(rrs)...)
	}
}

func (z *Zone) soa() []dns.RR { return z.Nodes[z.Name][dns.TypeSOA] }

// negative appends SOA and, when do, the denial records.
func (z *Zone) negative(m *dns.Msg, denial []dns.RR, do bool) {
	soa := dns.Copy(z.soa()[0])
	if soa.Header().Ttl > z.SOAMin {
		soa.Header().Ttl = z.SOAMin
	}
	z.addAuthority(m, []dns.RR{soa}, do)
	if do && z.Signed {
		for _, d := range dedupRR(denial) {
			m.Ns = append(m.Ns, withSig(z, d)...)
		}
	}
}

func (z *Zone) answer(m *dns.Msg, rawName, name string, qtype uint16, do bool) *Answer {
	m.Authoritative = true
	// 1. delegation?
	if d := z.cutFor(name); d != nil && !(qtype == dns.TypeDS && d.Child == name) {
		return z.referral(m, d, do)
	}
	// 2. DNAME above the name?
	for n := parentName(name); dns.IsSubDomain(z.Name, n); n = parentName(n) {
		if dn, ok := z.Nodes[n][dns.TypeDNAME]; ok && name != n {
			z.addAnswer(m, dn, do)
			target := dn[0].(*dns.DNAME).Target
			prefix := strings.TrimSuffix(name, n)
			synth := prefix + target
			if target == "." {
				synth = prefix
			}
			if _, ok := dns.IsDomainName(synth); ok && len(synth) <= 255 {
				m.Answer = append(m.Answer, &dns.CNAME{Hdr: dns.RR_Header{Name: rawName, Rrtype: dns.TypeCNAME, Class: dns.ClassINET, Ttl: dn[0].Header().Ttl}, Target: synth})
			} else {
				m.Rcode = dns.RcodeYXDomain
			}
			return &Answer{Msg: m, Kind: "dname"}
		}
		if n == "." || n == z.Name {
			break
		}
	}
	owner, ent := z.nameExists(name)
	// DS at a delegation point (we are the parent)
	if d, ok := z.Cuts[name]; ok && qtype == dns.TypeDS {
		if ds := z.dsFor(d); len(ds) > 0 {
			z.addAnswer(m, ds, do)
			return &Answer{Msg: m, Kind: "answer"}
		}
		z.negative(m, z.noDataProof(name), do)
		return &Answer{Msg: m, Kind: "nodata"}
	}
	if owner {
		types := z.Nodes[name]
		if rrs, ok := types[qtype]; ok {
			z.addAnswer(m, rrs, do)
			z.additional(m, rrs, do)
			return &Answer{Msg: m, Kind: "answer"}
		}
		if cn, ok := types[dns.TypeCNAME]; ok && qtype != dns.TypeCNAME {
			z.addAnswer(m, cn, do)
			z.chase(m, cn[0].(*dns.CNAME).Target, qtype, do, 0)
			return &Answer{Msg: m, Kind: "cname"}
		}
		if qtype == dns.TypeANY {
			for _, rrs := range types {
				z.addAnswer(m, rrs, do)
			}
			return &Answer{Msg: m, Kind: "answer"}
		}
		z.negative(m, z.noDataProof(name), do)
		return &Answer{Msg: m, Kind: "nodata"}
	}
	if ent {
		z.negative(m, z.noDataProof(name), do)
		return &Answer{Msg: m, Kind: "nodata"}
	}
	// wildcard
	ce, nextCloser := z.closestEncloser(name)
	wild := "*." + ce
	if ce == "." {
		wild = "*."
	}
	if wt, ok := z.Nodes[wild]; ok && z.cutFor(wild) == nil {
		noCloser := z.noCloserProof(name, ce, nextCloser)
		if rrs, ok := wt[qtype]; ok {
			ans, sigs := z.expandWildcard(wild, rrs, rawName)
			m.Answer = append(m.Answer, ans...)
			if do {
				m.Answer = append(m.Answer, sigs...)
				if z.Signed {
					for _, d := range dedupRR(noCloser) {
						m.Ns = append(m.Ns, withSig(z, d)...)
					}
				}
			}
			return &Answer{Msg: m, Kind: "wildcard"}
		}
		if cn, ok := wt[dns.TypeCNAME]; ok && qtype != dns.TypeCNAME {
			ans, sigs := z.expandWildcard(wild, cn, rawName)
			m.Answer = append(m.Answer, ans...)
			if do {
				m.Answer = append(m.Answer, sigs...)
				if z.Signed {
					for _, d := range dedupRR(noCloser) {
						m.Ns = append(m.Ns, withSig(z, d)...)
					}
				}
			}
			z.chase(m, cn[0].(*dns.CNAME).Target, qtype, do, 0)
			return &Answer{Msg: m, Kind: "wildcard"}
		}
		// wildcard NODATA (RFC 5155 §7.2.5 also wants the closest encloser itself)
		denial := append(noCloser, z.noDataProof(wild)...)
		if z.Signed && z.NSEC3 {
			if m := z.nsec3Matching(ce); m != nil {
				denial = append(denial, m)
			}
		}
		z.negative(m, denial, do)
		return &Answer{Msg: m, Kind: "nodata"}
	}
	// NXDOMAIN
	m.Rcode = dns.RcodeNameError
	z.negative(m, z.nxProof(name, ce, nextCloser), do)
	return &Answer{Msg: m, Kind: "nxdomain"}
}

// chase follows an in-zone CNAME target (only positive data; the resolver re-queries
// anything else).
func (z *Zone) chase(m *dns.Msg, target string, qtype uint16, do bool, depth int) {
	target = dns.CanonicalName(target)
	if depth > 8 || !dns.IsSubDomain(z.Name, target) || z.cutFor(target) != nil {
		return
	}
	types, ok := z.Nodes[target]
	if !ok {
		return
	}
	if rrs, ok := types[qtype]; ok {
		z.addAnswer(m, rrs, do)
		return
	}
	if cn, ok := types[dns.TypeCNAME]; ok {
		z.addAnswer(m, cn, do)
		z.chase(m, cn[0].(*dns.CNAME).Target, qtype, do, depth+1)
	}
}

// additional adds in-zone address records for NS / MX / SRV targets.
func (z *Zone) additional(m *dns.Msg, rrs []dns.RR, do bool) {
	for _, r := range rrs {
		var t string
		switch v := r.(type) {
		case *dns.NS:
			t = v.Ns
		case *dns.MX:
			t = v.Mx
		default:
			continue
		}
		t = dns.CanonicalName(t)
		if !dns.IsSubDomain(z.Name, t) || z.cutFor(t) != nil {
			continue
		}
		for _, at := range []uint16{dns.TypeA, dns.TypeAAAA} {
			if a, ok := z.Nodes[t][at]; ok {
				m.Extra = append(m.Extra, a...)
				if do {
					m.Extra = append(m.Extra, z.sigsFor(a)...)
				}
			}
		}
	}
}

func (z *Zone) referral(m *dns.Msg, d *Delegation, do bool) *Answer {
	m.Authoritative = false
	for _, h := range d.NS {
		m.Ns = append(m.Ns, &dns.NS{Hdr: dns.RR_Header{Name: d.Child, Rrtype: dns.TypeNS, Class: dns.ClassINET, Ttl: d.NSTTL}, Ns: h.Name})
	}
	if z.Signed && do {
		if ds := z.dsFor(d); len(ds) > 0 {
			m.Ns = append(m.Ns, ds...)
			m.Ns = append(m.Ns, z.sigsFor(ds)...)
		} else {
			for _, p := range dedupRR(z.noDSProof(d.Child)) {
				m.Ns = append(m.Ns, withSig(z, p)...)
			}
		}
	}
	if !d.NoGlue {
		for _, h := range d.NS {
			hn := dns.CanonicalName(h.Name)
			if !dns.IsSubDomain(d.Child, hn) && !dns.IsSubDomain(z.Name, hn) {
				continue
			}
			for _, a := range h.Addrs {
				if a.Is4() {
					m.Extra = append(m.Extra, &dns.A{Hdr: dns.RR_Header{Name: hn, Rrtype: dns.TypeA, Class: dns.ClassINET, Ttl: d.NSTTL}, A: a.AsSlice()})
				} else {
					m.Extra = append(m.Extra, &dns.AAAA{Hdr: dns.RR_Header{Name: hn, Rrtype: dns.TypeAAAA, Class: dns.ClassINET, Ttl: d.NSTTL}, AAAA: a.AsSlice()})
				}
			}
		}
	}
	return &Answer{Msg: m, Kind: "referral", Child: d.Child}
}

// ---------------------------------------------------------------- denial proofs

// noDataProof: the name exists (owner, ENT, wildcard owner or delegation point) but
// the type does not.
func (z *Zone) noDataProof(name string) []dns.RR {
	if !z.Signed {
		return nil
	}
	if z.NSEC3 {
		if n := z.nsec3Matching(name); n != nil {
			return []dns.RR{n}
		}
		// opted-out delegation: closest provable encloser + covering next closer
		ce, nc := z.closestEncloserN3(name)
		return []dns.RR{z.nsec3Matching(ce), z.nsec3Covering(nc)}
	}
	if n := z.nsecMatching(name); n != nil {
		return []dns.RR{n}
	}
	return []dns.RR{z.nsecCovering(name)} // ENT
}

func (z *Zone) noDSProof(child string) []dns.RR { return z.noDataProof(child) }

// noCloserProof: nothing exists between the closest encloser and qname (used with
// wildcard answers).
func (z *Zone) noCloserProof(name, ce, nextCloser string) []dns.RR {
	if !z.Signed {
		return nil
	}
	if z.NSEC3 {
		return []dns.RR{z.nsec3Covering(nextCloser)}
	}
	return []dns.RR{z.nsecCovering(name)}
}

func (z *Zone) nxProof(name, ce, nextCloser string) []dns.RR {
	if !z.Signed {
		return nil
	}
	wild := "*." + ce
	if ce == "." {
		wild = "*."
	}
	if z.NSEC3 {
		ce3, nc3 := z.closestEncloserN3(name)
		w3 := "*." + ce3
		if ce3 == "." {
			w3 = "*."
		}
		return []dns.RR{z.nsec3Matching(ce3), z.nsec3Covering(nc3), z.nsec3Covering(w3)}
	}
	return []dns.RR{z.nsecCovering(name), z.nsecCovering(wild)}
}
