package authsim

import (
	"fmt"
	"sort"
	"strings"

	"github.com/miekg/dns"
)

func rrsetKey(rrs []dns.RR) string {
	ss := make([]string, len(rrs))
	for i, r := range rrs {
		ss[i] = r.String()
	}
	sort.Strings(ss)
	return strings.Join(ss, "\n")
}

// SignRRset returns the RRSIG of rrs by key (memoised). labels < 0 means "from the owner".
func (z *Zone) SignRRset(rrs []dns.RR, key *Key, signer string, labels int) *dns.RRSIG {
	if len(rrs) == 0 {
		return nil
	}
	ck := fmt.Sprintf("%d|%s|%d|%d|%d|%s", key.Tag, signer, labels, z.SigFrom.Unix(), z.SigTo.Unix(), rrsetKey(rrs))
	if s, ok := z.sigs[ck]; ok {
		return dns.Copy(s).(*dns.RRSIG)
	}
	sig := &dns.RRSIG{
		Hdr:        dns.RR_Header{Name: rrs[0].Header().Name, Rrtype: dns.TypeRRSIG, Class: dns.ClassINET, Ttl: rrs[0].Header().Ttl},
		Algorithm:  key.Alg,
		KeyTag:     key.Tag,
		SignerName: signer,
		OrigTtl:    rrs[0].Header().Ttl,
		Inception:  uint32(z.SigFrom.Unix()),
		Expiration: uint32(z.SigTo.Unix()),
	}
	cp := make([]dns.RR, len(rrs))
	for i, r := range rrs {
		cp[i] = dns.Copy(r)
	}
	if err := sig.Sign(key.Signer, cp); err != nil {
		panic(fmt.Sprintf("authsim: sign %s: %v", rrs[0].Header().Name, err))
	}
	// Sign sets Labels from the owner; a wildcard expansion keeps the wildcard's count.
	if labels >= 0 {
		// re-sign is unnecessary: Labels is part of the signed data, so the expansion must
		// be signed over the wildcard owner. Callers pass the wildcard-owned set for that.
		sig.Labels = uint8(labels)
	}
	z.sigs[ck] = sig
	return dns.Copy(sig).(*dns.RRSIG)
}

// sigsFor returns the RRSIG(s) covering an authoritative RRset of this zone.
func (z *Zone) sigsFor(rrs []dns.RR) []dns.RR {
	if !z.Signed || len(rrs) == 0 {
		return nil
	}
	t := rrs[0].Header().Rrtype
	var out []dns.RR
	if t == dns.TypeDNSKEY {
		out = append(out, z.SignRRset(rrs, z.KSK, z.Name, -1))
		if z.ZSK != z.KSK {
			out = append(out, z.SignRRset(rrs, z.ZSK, z.Name, -1))
		}
		return out
	}
	return []dns.RR{z.SignRRset(rrs, z.ZSK, z.Name, -1)}
}

// expandWildcard returns the wildcard RRset re-owned to qname plus its RRSIG made over
// the wildcard owner (RFC 4035 §3.1.3: Labels = labels of the wildcard minus the "*").
func (z *Zone) expandWildcard(wild string, rrs []dns.RR, qname string) (ans []dns.RR, sigs []dns.RR) {
	for _, r := range rrs {
		c := dns.Copy(r)
		c.Header().Name = qname
		ans = append(ans, c)
	}
	if z.Signed {
		sig := z.SignRRset(rrs, z.ZSK, z.Name, -1) // signed over "*.ce": Labels excludes "*"
		sig.Hdr.Name = qname
		sigs = append(sigs, sig)
	}
	return
}

// ---------------------------------------------------------------- NSEC

func (z *Zone) nsecChain() []string {
	if z.chain == nil {
		z.chain = z.ownerNames()
	}
	return z.chain
}

func (z *Zone) nsecAt(i int) *dns.NSEC {
	ch := z.nsecChain()
	owner := ch[i]
	next := ch[(i+1)%len(ch)]
	types := append(z.typesAt(owner), dns.TypeNSEC, dns.TypeRRSIG)
	if _, cut := z.Cuts[owner]; cut {
		// delegation: only NS, DS, NSEC, RRSIG in the parent's bitmap
		types = append(z.typesAt(owner), dns.TypeNSEC, dns.TypeRRSIG)
	}
	return &dns.NSEC{Hdr: dns.RR_Header{Name: owner, Rrtype: dns.TypeNSEC, Class: dns.ClassINET, Ttl: z.SOAMin},
		NextDomain: next, TypeBitMap: sortTypes(types)}
}

// nsecMatching returns the NSEC owned by name, or nil.
func (z *Zone) nsecMatching(name string) *dns.NSEC {
	for i, o := range z.nsecChain() {
		if o == name {
			return z.nsecAt(i)
		}
	}
	return nil
}

// nsecCovering returns the NSEC whose span covers name (name must not be an owner).
func (z *Zone) nsecCovering(name string) *dns.NSEC {
	ch := z.nsecChain()
	idx := len(ch) - 1 // wrap-around: last NSEC covers names after it and before the apex
	for i := range ch {
		if CanonicalLess(ch[i], name) {
			idx = i
		} else {
			break
		}
	}
	return z.nsecAt(idx)
}

// ---------------------------------------------------------------- NSEC3

func (z *Zone) hash(name string) string {
	return dns.HashName(name, dns.SHA1, z.Iter, z.Salt)
}

func (z *Zone) nsec3Chain() []nsec3Entry {
	if z.n3 != nil {
		return z.n3
	}
	names := map[string][]uint16{}
	optedOut := map[string]bool{}
	for _, o := range z.ownerNames() {
		if d, cut := z.Cuts[o]; cut && z.OptOut && len(z.dsFor(d)) == 0 {
			optedOut[o] = true
			continue // insecure delegation skipped under opt-out
		}
		names[o] = z.typesAt(o)
	}
	// empty non-terminals (ancestors of included owners, inside the zone)
	for o := range names {
		for p := parentName(o); dns.IsSubDomain(z.Name, p) && p != z.Name; p = parentName(p) {
			if _, ok := names[p]; !ok {
				names[p] = nil
			}
		}
	}
	var out []nsec3Entry
	for o, ts := range names {
		e := nsec3Entry{hash: z.hash(o), owner: o, optout: z.OptOut}
		if ts != nil {
			e.types = ts
			if _, cut := z.Cuts[o]; !cut {
				e.types = append(e.types, dns.TypeRRSIG)
			} else if len(z.dsFor(z.Cuts[o])) > 0 {
				e.types = append(e.types, dns.TypeRRSIG)
			}
		}
		out = append(out, e)
	}
	sort.Slice(out, func(i, j int) bool { return out[i].hash < out[j].hash })
	z.n3 = out
	return out
}

func (z *Zone) nsec3RR(i int) *dns.NSEC3 {
	ch := z.nsec3Chain()
	e := ch[i]
	next := ch[(i+1)%len(ch)]
	flags := uint8(0)
	if z.OptOut {
		flags = 1
	}
	owner := strings.ToLower(e.hash) + "." + z.Name
	if z.Name == "." {
		owner = strings.ToLower(e.hash) + "."
	}
	return &dns.NSEC3{Hdr: dns.RR_Header{Name: owner, Rrtype: dns.TypeNSEC3, Class: dns.ClassINET, Ttl: z.SOAMin},
		Hash: dns.SHA1, Flags: flags, Iterations: z.Iter, SaltLength: uint8(len(z.Salt) / 2), Salt: z.Salt,
		HashLength: 20, NextDomain: next.hash, TypeBitMap: sortTypes(e.types)}
}

func (z *Zone) nsec3Matching(name string) *dns.NSEC3 {
	h := z.hash(name)
	for i, e := range z.nsec3Chain() {
		if e.hash == h {
			return z.nsec3RR(i)
		}
	}
	return nil
}

func (z *Zone) nsec3Covering(name string) *dns.NSEC3 {
	h := z.hash(name)
	ch := z.nsec3Chain()
	idx := len(ch) - 1
	for i := range ch {
		if ch[i].hash < h {
			idx = i
		} else {
			break
		}
	}
	return z.nsec3RR(idx)
}

// closestEncloser returns the longest existing ancestor-or-self of name (owner or ENT)
// and the next-closer name.
func (z *Zone) closestEncloser(name string) (ce, nextCloser string) {
	nextCloser = name
	for n := name; ; n = parentName(n) {
		owner, ent := z.nameExists(n)
		if owner || ent || n == z.Name {
			return n, nextCloser
		}
		nextCloser = n
		if n == "." {
			return z.Name, nextCloser
		}
	}
}

// closestEncloserN3 is the closest encloser as the NSEC3 chain sees it (names opted
// out of the chain do not count as provable enclosers).
func (z *Zone) closestEncloserN3(name string) (ce, nextCloser string) {
	nextCloser = name
	for n := name; ; n = parentName(n) {
		if z.nsec3Matching(n) != nil || n == z.Name {
			return n, nextCloser
		}
		nextCloser = n
		if n == "." {
			return z.Name, nextCloser
		}
	}
}

func withSig(z *Zone, rr dns.RR) []dns.RR {
	out := []dns.RR{rr}
	if z.Signed {
		out = append(out, z.SignRRset([]dns.RR{rr}, z.ZSK, z.Name, -1))
	}
	return out
}

func dedupRR(rrs []dns.RR) []dns.RR {
	seen := map[string]bool{}
	var out []dns.RR
	for _, r := range rrs {
		k := r.String()
		if !seen[k] {
			seen[k] = true
			out = append(out, r)
		}
	}
	return out
}
