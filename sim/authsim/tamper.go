package authsim

import (
	"strings"

	"github.com/miekg/dns"
)

// EvilA is the address every injected/rewritten record carries, so that any record of
// attacker origin is recognisable wherever it surfaces.
const EvilA = "203.0.113.66"
const EvilTXT = "evil-injected"

// Tamper kinds. Each is what an on-path attacker without the victim zone's keys can do.
// The attacker may hold the keys of another zone it legitimately owns (Attacker).
var TamperKinds = []string{
	"flip-rdata",    // change record data of the answer
	"sig-corrupt",   // flip bytes of RRSIG signatures
	"sig-signer",    // rewrite the signer name (signature no longer matches)
	"sig-resign",    // replace RRSIGs by ones made with the attacker zone's key and name
	"forge-resign",  // change the record data AND sign it with the attacker zone's key and name
	"sig-labels",    // change the labels field
	"sig-expired",   // move the validity window into the past
	"sig-future",    // move the validity window into the future
	"drop-sigs",     // remove all RRSIGs
	"drop-some-sigs", // remove the RRSIG of the answer RRset only
	"drop-ds",       // remove DS (+RRSIG) from a referral
	"swap-ds",       // replace DS by the DS of another zone
	"drop-denial",   // remove NSEC/NSEC3 (+RRSIG)
	"foreign-denial", // replace NSEC/NSEC3 by genuine ones of another zone
	"strip",         // remove everything DNSSEC: look like an unsigned zone
	"inject-answer", // add a foreign RRset to the answer
	"inject-auth",   // add a foreign RRset to authority/additional
	"set-ad",        // set AD on the upstream response
	"ttl-inflate",   // raise TTLs
	"nx-to-nodata",  // turn NXDOMAIN into NOERROR/NODATA keeping the proof
	"nodata-for-existing", // answer NODATA (with a genuine but non-matching proof) for a present type
	"wildcard-replay",             // an existing name answered with the zone's genuine wildcard RRset + RRSIG, no proof
	"wildcard-replay-other-nsec",  // same, with genuine NSEC/NSEC3 of another interval as "proof"
	"wildcard-replay-forged-nsec", // same, with a forged unsigned NSEC owned outside the zone that spans the name
	"dname-cname-prefix",          // DNAME answer: the unsigned synthesised CNAME's leading labels altered (suffix and length kept)
	"forge-self-signer",           // answer data altered; its RRSIGs name the record's own owner as signer (a non-cut name inside the zone)
	"rogue-key",                   // the zone's DNSKEY set gains the attacker's key and is re-signed by that key alone; data is altered and signed by it, all under the zone's own name
	"empty-reply",                 // every answer and authority record removed: NOERROR with nothing in it
	"flip-last-rrset",             // only the RRset that sorts last (owner, type) is altered; every other RRset of the response stays genuine
	"sig-corrupt-last",            // only the signatures covering the RRset that sorts last are corrupted
}

// DenialKinds are the C02 tamperings: every record they add is a genuine, correctly
// signed NSEC/NSEC3 of some zone of the world — only the selection is wrong.
var DenialKinds = []string{
	"denial-other-interval", // each NSEC/NSEC3 replaced by another record of the same chain
	"denial-subset",         // only the first denial record is kept
	"denial-dup-reorder",    // records duplicated and reversed (still a valid proof)
	"nx-for-existing",       // NXDOMAIN + genuine records of the chain for a name that exists
	"nodata-for-existing",   // NODATA + genuine non-matching record for a type that exists
	"nodata-to-nx",          // a proven NODATA relabelled NXDOMAIN
	"nx-to-nodata",          // a proven NXDOMAIN relabelled NOERROR
	"nods-for-secure",       // referral: DS replaced by a genuine denial record of another interval
	"foreign-denial",        // denial records of a sibling/child zone
	"forge-unsigned",        // answer data changed and everything DNSSEC stripped (pairs with nods-for-secure)
	"wildcard-replay", "wildcard-replay-other-nsec", "wildcard-replay-forged-nsec",
	"ds-nodata-from-child", // DS question: the parent's answer replaced by the child side of the cut (the child's own SOA and apex NSEC/NSEC3, genuinely signed by the child: no DS bit, because DS lives in the parent)
	"nx-below-delegation", // referral replaced by NXDOMAIN "proven" with the parent's own NSEC/NSEC3 at the delegation point (RFC 6840 4.1: an ancestor delegation record denies nothing below the cut)
	"nx-below-dname", // DNAME answer replaced by NXDOMAIN "proven" with the zone's own NSEC/NSEC3 at the DNAME owner, which formally covers every name below it (RFC 6672 5.3.2 / RFC 6840 4.1: a record with the DNAME bit at an ancestor denies nothing below it)
	"nodata-wildcard-no-next-closer", // a type that exists at a name reported absent with the NSEC3 records of the name's parent and of the parent's wildcard only (RFC 5155 8.7 without the next-closer cover: nothing shows the name itself does not exist)
	"nx-retired-salt", // NXDOMAIN for a name that exists, "proven" with genuine NSEC3 records of the zone's previous chain (other salt, same length)
}

// Invalidating reports whether a kind makes the authenticated content of the targeted
// step unverifiable (as opposed to padding or hints a validator may legitimately drop).
func Invalidating(kind string) bool {
	switch kind {
	case "inject-auth", "inject-answer", "set-ad", "ttl-inflate", "dname-cname-prefix":
		// (dname-cname-prefix: the synthesised CNAME is redundant with the signed DNAME; a
		// validator may discard it and synthesise its own. It must never relay the altered one.)
		// padding: a validator may drop records it has no use for and serve the
		// authenticated rest; what it must never do is relay them (clause 1)
		return false
	}
	return true
}

func isSig(rr dns.RR) bool { return rr.Header().Rrtype == dns.TypeRRSIG }

func mapSection(rrs []dns.RR, f func(dns.RR) dns.RR) []dns.RR {
	var out []dns.RR
	for _, r := range rrs {
		if n := f(dns.Copy(r)); n != nil {
			out = append(out, n)
		}
	}
	return out
}

// Apply returns a tampered copy of the honest answer. attacker is a signed zone whose
// keys the attacker holds; other is any other zone of the world (source of genuine
// foreign records). ok=false when the kind does not apply to this message.
func Apply(kind string, a *Answer, attacker, other *Zone) (*dns.Msg, bool) {
	m := a.Msg.Copy()
	z := a.Zone
	changed := false
	each := func(f func(dns.RR) dns.RR) {
		m.Answer = mapSection(m.Answer, f)
		m.Ns = mapSection(m.Ns, f)
		m.Extra = mapSection(m.Extra, f)
	}
	sigs := func(f func(s *dns.RRSIG) dns.RR) {
		each(func(r dns.RR) dns.RR {
			if s, ok := r.(*dns.RRSIG); ok {
				changed = true
				return f(s)
			}
			return r
		})
	}
	switch kind {
	case "dname-cname-prefix":
		if a.Kind != "dname" {
			return nil, false
		}
		m.Answer = mapSection(m.Answer, func(r dns.RR) dns.RR {
			if c, ok := r.(*dns.CNAME); ok && len(c.Target) > 2 {
				b := []byte(c.Target)
				if b[0] == 'x' {
					b[0] = 'y'
				} else if b[0] != '.' && b[0] != '\\' {
					b[0] = 'x'
				} else {
					return r
				}
				c.Target = string(b)
				changed = true
			}
			return r
		})
	case "flip-rdata":
		m.Answer = mapSection(m.Answer, func(r dns.RR) dns.RR {
			switch v := r.(type) {
			case *dns.A:
				v.A = dns.Copy(mustRR(". 0 IN A " + EvilA)).(*dns.A).A
				changed = true
			case *dns.AAAA:
				v.AAAA = mustRR(". 0 IN AAAA 2001:db8:bad::66").(*dns.AAAA).AAAA
				changed = true
			case *dns.TXT:
				v.Txt = []string{EvilTXT}
				changed = true
			case *dns.CNAME:
				v.Target = "evil.attacker.test."
				changed = true
			case *dns.MX:
				v.Mx = "evil.attacker.test."
				changed = true
			case *dns.DS:
				v.Digest = strings.Repeat("ab", len(v.Digest)/2)
				changed = true
			case *dns.DNSKEY:
				if attacker != nil && attacker.KSK != nil {
					v.PublicKey = attacker.KSK.DNSKEY.PublicKey
					v.Algorithm = attacker.KSK.DNSKEY.Algorithm
					changed = true
				}
			}
			return r
		})
	case "sig-corrupt":
		sigs(func(s *dns.RRSIG) dns.RR {
			b := []byte(s.Signature)
			if len(b) > 12 {
				for _, i := range []int{5, 11} {
					if b[i] == 'A' {
						b[i] = 'B'
					} else {
						b[i] = 'A'
					}
				}
			}
			s.Signature = string(b)
			return s
		})
	case "sig-signer":
		sigs(func(s *dns.RRSIG) dns.RR {
			if attacker != nil {
				s.SignerName = attacker.Name
			} else {
				s.SignerName = "unrelated.test."
			}
			return s
		})
	case "sig-resign", "forge-resign":
		if attacker == nil || !attacker.Signed {
			return nil, false
		}
		if kind == "forge-resign" {
			forged, ok := Apply("flip-rdata", a, attacker, other)
			if !ok {
				return nil, false
			}
			m = forged
		}
		// group each section's RRsets and sign them with the attacker's key and name
		resign := func(sec []dns.RR) []dns.RR {
			var out []dns.RR
			groups := map[string][]dns.RR{}
			var order []string
			for _, r := range sec {
				if isSig(r) {
					continue
				}
				k := strings.ToLower(r.Header().Name) + "/" + dns.TypeToString[r.Header().Rrtype]
				if _, ok := groups[k]; !ok {
					order = append(order, k)
				}
				groups[k] = append(groups[k], r)
			}
			had := false
			for _, r := range sec {
				if isSig(r) {
					had = true
				}
			}
			for _, k := range order {
				out = append(out, groups[k]...)
				if had && groups[k][0].Header().Rrtype != dns.TypeOPT && groups[k][0].Header().Rrtype != dns.TypeNS {
					out = append(out, attacker.SignRRset(groups[k], attacker.ZSK, attacker.Name, -1))
					changed = true
				}
			}
			return out
		}
		opt := m.IsEdns0()
		m.Answer = resign(m.Answer)
		m.Ns = resign(m.Ns)
		if opt != nil {
			var ex []dns.RR
			for _, r := range m.Extra {
				if r.Header().Rrtype != dns.TypeOPT {
					ex = append(ex, r)
				}
			}
			m.Extra = append(resign(ex), opt)
		}
	case "rogue-key":
		// The chain of trust runs DS -> a key of the DNSKEY set that the DS matches -> that
		// key's signature over the set -> the other keys. A key that is merely present in the
		// set and signs the set itself is anchored to nothing.
		if attacker == nil || !attacker.Signed || z == nil || !z.Signed || len(m.Question) != 1 || attacker.ZSK == nil {
			return nil, false
		}
		rogue := dns.Copy(attacker.ZSK.DNSKEY).(*dns.DNSKEY)
		rogue.Hdr.Name = z.Name
		rk := &Key{DNSKEY: rogue, Signer: attacker.ZSK.Signer, Tag: rogue.KeyTag(), Alg: rogue.Algorithm, Idx: attacker.ZSK.Idx}
		if m.Question[0].Qtype == dns.TypeDNSKEY && dns.CanonicalName(m.Question[0].Name) == z.Name {
			var keys, rest []dns.RR
			for _, r := range m.Answer {
				switch {
				case r.Header().Rrtype == dns.TypeDNSKEY:
					keys = append(keys, r)
				case isSig(r) && r.(*dns.RRSIG).TypeCovered == dns.TypeDNSKEY:
					// the genuine signatures go: they no longer cover the enlarged set
				default:
					rest = append(rest, r)
				}
			}
			if len(keys) == 0 {
				return nil, false
			}
			rogue.Hdr.Ttl = keys[0].Header().Ttl
			keys = append(keys, rogue)
			m.Answer = append(append(rest, keys...), attacker.SignRRset(keys, rk, z.Name, -1))
			changed = true
			break
		}
		if a.Kind != "answer" {
			return nil, false
		}
		forged, ok := Apply("flip-rdata", a, attacker, other)
		if !ok {
			return nil, false
		}
		m = forged
		{
			groups := map[string][]dns.RR{}
			var order []string
			for _, r := range m.Answer {
				if isSig(r) {
					continue
				}
				k := strings.ToLower(r.Header().Name) + "/" + dns.TypeToString[r.Header().Rrtype]
				if _, ok := groups[k]; !ok {
					order = append(order, k)
				}
				groups[k] = append(groups[k], r)
			}
			var out []dns.RR
			for _, k := range order {
				out = append(out, groups[k]...)
				out = append(out, attacker.SignRRset(groups[k], rk, z.Name, -1))
			}
			m.Answer = out
			changed = true
		}
	case "empty-reply":
		if len(m.Answer)+len(m.Ns) == 0 {
			return nil, false
		}
		m.Answer, m.Ns, m.Extra = nil, nil, keepOPT(m.Extra)
		m.Rcode = dns.RcodeSuccess
		changed = true
	case "flip-last-rrset", "sig-corrupt-last":
		// a validator that authenticates RRset by RRset must not let the good ones vouch for
		// the last one
		sec := &m.Answer
		if len(m.Answer) == 0 {
			sec = &m.Ns
		}
		lastOwner, lastType := "", uint16(0)
		for _, r := range *sec {
			if isSig(r) || r.Header().Rrtype == dns.TypeOPT {
				continue
			}
			o := strings.ToLower(r.Header().Name)
			if lastOwner == "" || o > lastOwner || (o == lastOwner && r.Header().Rrtype > lastType) {
				lastOwner, lastType = o, r.Header().Rrtype
			}
		}
		if lastOwner == "" {
			return nil, false
		}
		if kind == "flip-last-rrset" {
			if sec != &m.Answer {
				return nil, false
			}
			only := &Answer{Zone: a.Zone, Kind: a.Kind, Child: a.Child, Msg: &dns.Msg{MsgHdr: m.MsgHdr, Question: m.Question}}
			var rest []dns.RR
			for _, r := range m.Answer {
				if !isSig(r) && strings.ToLower(r.Header().Name) == lastOwner && r.Header().Rrtype == lastType {
					only.Msg.Answer = append(only.Msg.Answer, r)
				} else {
					rest = append(rest, r)
				}
			}
			flipped, ok := Apply("flip-rdata", only, attacker, other)
			if !ok {
				return nil, false
			}
			m.Answer = append(rest, flipped.Answer...)
			changed = true
		} else {
			*sec = mapSection(*sec, func(r dns.RR) dns.RR {
				if sg, ok := r.(*dns.RRSIG); ok && strings.ToLower(sg.Hdr.Name) == lastOwner && sg.TypeCovered == lastType {
					b := []byte(sg.Signature)
					if len(b) > 12 {
						for _, i := range []int{5, 11} {
							if b[i] == 'A' {
								b[i] = 'B'
							} else {
								b[i] = 'A'
							}
						}
					}
					sg.Signature = string(b)
					changed = true
				}
				return r
			})
		}
	case "forge-self-signer":
		if a.Kind != "answer" {
			return nil, false
		}
		forged, ok := Apply("flip-rdata", a, attacker, other)
		if !ok {
			return nil, false
		}
		m = forged
		m.Answer = mapSection(m.Answer, func(r dns.RR) dns.RR {
			if s, ok := r.(*dns.RRSIG); ok {
				s.SignerName = strings.ToLower(s.Hdr.Name)
				changed = true
			}
			return r
		})
	case "sig-labels":
		sigs(func(s *dns.RRSIG) dns.RR {
			if s.Labels > 0 {
				s.Labels--
			} else {
				s.Labels++
			}
			return s
		})
	case "sig-expired":
		sigs(func(s *dns.RRSIG) dns.RR {
			s.Inception -= 400 * 86400
			s.Expiration = s.Inception + 86400
			return s
		})
	case "sig-future":
		sigs(func(s *dns.RRSIG) dns.RR {
			s.Inception += 300 * 86400
			s.Expiration += 900 * 86400
			return s
		})
	case "drop-sigs":
		each(func(r dns.RR) dns.RR {
			if isSig(r) {
				changed = true
				return nil
			}
			return r
		})
	case "drop-some-sigs":
		if len(m.Answer) == 0 {
			return nil, false
		}
		first := true
		m.Answer = mapSection(m.Answer, func(r dns.RR) dns.RR {
			if isSig(r) && first {
				first = false
				changed = true
				return nil
			}
			return r
		})
	case "drop-ds":
		m.Ns = mapSection(m.Ns, func(r dns.RR) dns.RR {
			if r.Header().Rrtype == dns.TypeDS || (isSig(r) && r.(*dns.RRSIG).TypeCovered == dns.TypeDS) {
				changed = true
				return nil
			}
			return r
		})
	case "swap-ds":
		if other == nil || !other.Signed {
			return nil, false
		}
		m.Ns = mapSection(m.Ns, func(r dns.RR) dns.RR {
			if ds, ok := r.(*dns.DS); ok {
				n := other.KSK.DNSKEY.ToDS(dns.SHA256)
				n.Hdr = ds.Hdr
				changed = true
				return n
			}
			return r
		})
	case "drop-denial":
		each(func(r dns.RR) dns.RR {
			t := r.Header().Rrtype
			if t == dns.TypeNSEC || t == dns.TypeNSEC3 {
				changed = true
				return nil
			}
			if s, ok := r.(*dns.RRSIG); ok && (s.TypeCovered == dns.TypeNSEC || s.TypeCovered == dns.TypeNSEC3) {
				return nil
			}
			return r
		})
	case "foreign-denial":
		if other == nil || !other.Signed || z == nil {
			return nil, false
		}
		var repl []dns.RR
		if other.NSEC3 {
			repl = withSig(other, other.nsec3RR(0))
		} else {
			repl = withSig(other, other.nsecAt(0))
		}
		var ns []dns.RR
		for _, r := range m.Ns {
			t := r.Header().Rrtype
			if t == dns.TypeNSEC || t == dns.TypeNSEC3 {
				changed = true
				continue
			}
			if s, ok := r.(*dns.RRSIG); ok && (s.TypeCovered == dns.TypeNSEC || s.TypeCovered == dns.TypeNSEC3) {
				continue
			}
			ns = append(ns, r)
		}
		if changed {
			m.Ns = append(ns, repl...)
		}
	case "strip":
		each(func(r dns.RR) dns.RR {
			switch r.Header().Rrtype {
			case dns.TypeRRSIG, dns.TypeNSEC, dns.TypeNSEC3, dns.TypeDS:
				changed = true
				return nil
			}
			return r
		})
	case "inject-answer":
		if len(m.Question) == 0 {
			return nil, false
		}
		m.Answer = append(m.Answer, mustRR("victim-injected.example. 3600 IN A "+EvilA))
		changed = true
	case "inject-auth":
		m.Ns = append(m.Ns, mustRR("injected.example. 3600 IN NS ns.evil.attacker.test."))
		m.Extra = append([]dns.RR{mustRR("ns.evil.attacker.test. 3600 IN A " + EvilA)}, m.Extra...)
		changed = true
	case "set-ad":
		m.AuthenticatedData = true
		changed = true
	case "ttl-inflate":
		each(func(r dns.RR) dns.RR {
			if r.Header().Rrtype != dns.TypeOPT {
				r.Header().Ttl = 7 * 86400
				changed = true
			}
			return r
		})
	case "nx-to-nodata":
		if m.Rcode != dns.RcodeNameError {
			return nil, false
		}
		m.Rcode = dns.RcodeSuccess
		changed = true
	case "nodata-for-existing":
		if a.Kind != "answer" || z == nil || !z.Signed {
			return nil, false
		}
		m.Answer = nil
		m.Ns = nil
		soa := dns.Copy(z.soa()[0])
		m.Ns = append(m.Ns, soa)
		m.Ns = append(m.Ns, z.sigsFor([]dns.RR{soa})...)
		// a genuine denial record of the zone that does not match the name
		if z.NSEC3 {
			m.Ns = append(m.Ns, withSig(z, z.nsec3RR(0))...)
		} else {
			m.Ns = append(m.Ns, withSig(z, z.nsecAt(0))...)
		}
		changed = true
	case "denial-other-interval", "denial-subset", "denial-dup-reorder":
		if z == nil || !z.Signed {
			return nil, false
		}
		var keep, denial []dns.RR
		for _, r := range m.Ns {
			t := r.Header().Rrtype
			if t == dns.TypeNSEC || t == dns.TypeNSEC3 {
				denial = append(denial, r)
				continue
			}
			if sg, ok := r.(*dns.RRSIG); ok && (sg.TypeCovered == dns.TypeNSEC || sg.TypeCovered == dns.TypeNSEC3) {
				continue
			}
			keep = append(keep, r)
		}
		if len(denial) == 0 {
			return nil, false
		}
		var repl []dns.RR
		switch kind {
		case "denial-other-interval":
			for i := range denial {
				if z.NSEC3 {
					n := len(z.nsec3Chain())
					repl = append(repl, withSig(z, z.nsec3RR((i*2+1)%n))...)
				} else {
					n := len(z.nsecChain())
					repl = append(repl, withSig(z, z.nsecAt((i*2+1)%n))...)
				}
			}
		case "denial-subset":
			if len(denial) < 2 {
				return nil, false
			}
			repl = withSig(z, denial[0])
		case "denial-dup-reorder":
			for i := len(denial) - 1; i >= 0; i-- {
				repl = append(repl, withSig(z, denial[i])...)
				repl = append(repl, withSig(z, denial[i])...)
			}
		}
		m.Ns = append(keep, repl...)
		changed = true
	case "nx-for-existing":
		if a.Kind != "answer" || z == nil || !z.Signed {
			return nil, false
		}
		m.Answer, m.Ns = nil, nil
		m.Rcode = dns.RcodeNameError
		soa := dns.Copy(z.soa()[0])
		m.Ns = append(m.Ns, soa)
		m.Ns = append(m.Ns, z.sigsFor([]dns.RR{soa})...)
		// genuine records most likely to be mistaken for a proof: the name's own record,
		// the wrap-around (last) record and the apex record
		qn := dns.CanonicalName(m.Question[0].Name)
		var pick []dns.RR
		if z.NSEC3 {
			n := len(z.nsec3Chain())
			if own := z.nsec3Matching(qn); own != nil {
				pick = append(pick, own)
			}
			pick = append(pick, z.nsec3RR(n-1), z.nsec3RR(0), z.nsec3Covering("*."+qn))
		} else {
			n := len(z.nsecChain())
			if own := z.nsecMatching(qn); own != nil {
				pick = append(pick, own)
			}
			pick = append(pick, z.nsecAt(n-1), z.nsecAt(0))
		}
		for _, d := range dedupRR(pick) {
			m.Ns = append(m.Ns, withSig(z, d)...)
		}
		changed = true
	case "ds-nodata-from-child":
		// What a child-only server says when asked for its own DS: NODATA proven by its apex
		// record, which has SOA and no DS. It is not a proof that the parent publishes no DS.
		if z == nil || len(m.Question) != 1 || m.Question[0].Qtype != dns.TypeDS {
			return nil, false
		}
		qn := dns.CanonicalName(m.Question[0].Name)
		d, ok := z.Cuts[qn]
		if !ok || len(z.dsFor(d)) == 0 {
			return nil, false
		}
		child := z.world.Zones[qn]
		if child == nil || !child.Signed {
			return nil, false
		}
		var apex dns.RR
		if child.NSEC3 {
			if r := child.nsec3Matching(qn); r != nil {
				apex = r
			}
		} else if r := child.nsecMatching(qn); r != nil {
			apex = r
		}
		if apex == nil {
			return nil, false
		}
		m.Answer, m.Ns = nil, nil
		m.Rcode = dns.RcodeSuccess
		m.Authoritative = true
		soa := dns.Copy(child.soa()[0])
		m.Ns = append(m.Ns, soa)
		m.Ns = append(m.Ns, child.sigsFor([]dns.RR{soa})...)
		m.Ns = append(m.Ns, withSig(child, apex)...)
		changed = true
	case "nx-below-delegation":
		if a.Kind != "referral" || z == nil || !z.Signed || len(m.Question) != 1 {
			return nil, false
		}
		qn := dns.CanonicalName(m.Question[0].Name)
		if !dns.IsSubDomain(a.Child, qn) || (qn == a.Child && m.Question[0].Qtype == dns.TypeDS) {
			return nil, false
		}
		var rec dns.RR
		if z.NSEC3 {
			if r := z.nsec3Matching(a.Child); r != nil {
				rec = r
			}
		} else if r := z.nsecMatching(a.Child); r != nil {
			rec = r
		}
		if rec == nil {
			return nil, false
		}
		m.Answer, m.Ns, m.Extra = nil, nil, keepOPT(m.Extra)
		m.Rcode = dns.RcodeNameError
		m.Authoritative = true
		soa := dns.Copy(z.soa()[0])
		m.Ns = append(m.Ns, soa)
		m.Ns = append(m.Ns, z.sigsFor([]dns.RR{soa})...)
		m.Ns = append(m.Ns, withSig(z, rec)...)
		if qn == a.Child {
			// the question is for the delegation point itself: "no such type here", from the
			// parent's record that lists NS and DS only — the type lives in the child zone
			m.Rcode = dns.RcodeSuccess
		} else if z.NSEC3 {
			// closest encloser = the delegation point itself (matching record above); add the
			// records covering the next closer name and the wildcard, genuine ones of the chain
			nc := qn
			for n := parentName(qn); n != a.Child && dns.IsSubDomain(a.Child, n); n = parentName(n) {
				nc = n
			}
			for _, d := range dedupRR([]dns.RR{z.nsec3Covering(nc), z.nsec3Covering("*." + a.Child)}) {
				m.Ns = append(m.Ns, withSig(z, d)...)
			}
		}
		changed = true
	case "nx-below-dname":
		if a.Kind != "dname" || z == nil || !z.Signed || len(m.Question) != 1 {
			return nil, false
		}
		qn := dns.CanonicalName(m.Question[0].Name)
		owner := ""
		for _, rr := range m.Answer {
			if rr.Header().Rrtype == dns.TypeDNAME {
				owner = dns.CanonicalName(rr.Header().Name)
			}
		}
		if owner == "" || qn == owner || !dns.IsSubDomain(owner, qn) {
			return nil, false
		}
		var rec dns.RR
		if z.NSEC3 {
			if r := z.nsec3Matching(owner); r != nil {
				rec = r
			}
		} else if r := z.nsecMatching(owner); r != nil {
			rec = r
		}
		if rec == nil {
			return nil, false
		}
		m.Answer, m.Ns, m.Extra = nil, nil, keepOPT(m.Extra)
		m.Rcode = dns.RcodeNameError
		m.Authoritative = true
		soa := dns.Copy(z.soa()[0])
		m.Ns = append(m.Ns, soa)
		m.Ns = append(m.Ns, z.sigsFor([]dns.RR{soa})...)
		m.Ns = append(m.Ns, withSig(z, rec)...)
		if z.NSEC3 {
			nc := qn
			for n := parentName(qn); n != owner && dns.IsSubDomain(owner, n); n = parentName(n) {
				nc = n
			}
			for _, d := range dedupRR([]dns.RR{z.nsec3Covering(nc), z.nsec3Covering("*." + owner)}) {
				m.Ns = append(m.Ns, withSig(z, d)...)
			}
		}
		changed = true
	case "nodata-wildcard-no-next-closer":
		// A wildcard NODATA proof has three parts: closest encloser, a cover of the next-closer
		// name, and the wildcard's own record without the type. Without the cover nothing says
		// the asked name does not exist - and here it does, and holds the type.
		if a.Kind != "answer" || z == nil || !z.Signed || !z.NSEC3 {
			return nil, false
		}
		qn := dns.CanonicalName(m.Question[0].Name)
		if qn == z.Name || !dns.IsSubDomain(z.Name, qn) {
			return nil, false
		}
		var ceRR, wcRR *dns.NSEC3
		for n := parentName(qn); dns.IsSubDomain(z.Name, n); n = parentName(n) {
			if w := z.nsec3Matching("*." + n); w != nil {
				if c := z.nsec3Matching(n); c != nil {
					ceRR, wcRR = c, w
					break
				}
			}
			if n == z.Name {
				break
			}
		}
		if ceRR == nil {
			return nil, false
		}
		m.Answer, m.Ns = nil, nil
		m.Rcode = dns.RcodeSuccess
		soa := dns.Copy(z.soa()[0])
		m.Ns = append(m.Ns, soa)
		m.Ns = append(m.Ns, z.sigsFor([]dns.RR{soa})...)
		for _, d := range dedupRR([]dns.RR{ceRR, wcRR}) {
			m.Ns = append(m.Ns, withSig(z, d)...)
		}
		changed = true
	case "nx-retired-salt":
		// The zone re-salted its NSEC3 chain; the records of the retired chain are genuine and
		// their signatures still valid. An interval of the retired ring "covers" any hash value,
		// also the hashes the current salt gives to names that exist: a validator that lets the
		// two chains pass as one set accepts the denial.
		if a.Kind != "answer" || z == nil || !z.Signed || !z.NSEC3 || len(z.Salt) < 2 {
			return nil, false
		}
		qn := dns.CanonicalName(m.Question[0].Name)
		if qn == z.Name || !dns.IsSubDomain(z.Name, qn) {
			return nil, false
		}
		ce, nc := z.Name, qn
		for n := parentName(qn); dns.IsSubDomain(z.Name, n); n = parentName(n) {
			if owner, ent := z.nameExists(n); owner || ent || n == z.Name {
				ce = n
				break
			}
			nc = n
		}
		ceRR := z.nsec3Matching(ce)
		if ceRR == nil {
			return nil, false
		}
		retired := *z
		alt := []byte(z.Salt)
		for i := range alt { // another salt of the same length
			if alt[i] == 'a' {
				alt[i] = 'b'
			} else {
				alt[i] = 'a'
			}
		}
		retired.Salt, retired.n3 = string(alt), nil
		cover := func(h string) dns.RR {
			ch := retired.nsec3Chain()
			idx := len(ch) - 1
			for i := range ch {
				if ch[i].hash < h {
					idx = i
				} else {
					break
				}
			}
			return retired.nsec3RR(idx)
		}
		m.Answer, m.Ns = nil, nil
		m.Rcode = dns.RcodeNameError
		soa := dns.Copy(z.soa()[0])
		m.Ns = append(m.Ns, soa)
		m.Ns = append(m.Ns, z.sigsFor([]dns.RR{soa})...)
		for _, d := range dedupRR([]dns.RR{ceRR, cover(z.hash(nc)), cover(z.hash("*." + ce))}) {
			m.Ns = append(m.Ns, withSig(z, d)...)
		}
		changed = true
	case "nodata-to-nx":
		if a.Kind != "nodata" {
			return nil, false
		}
		m.Rcode = dns.RcodeNameError
		changed = true
	case "nods-for-secure":
		if a.Kind != "referral" || z == nil || !z.Signed {
			return nil, false
		}
		hadDS := false
		m.Ns = mapSection(m.Ns, func(r dns.RR) dns.RR {
			if r.Header().Rrtype == dns.TypeDS || (isSig(r) && r.(*dns.RRSIG).TypeCovered == dns.TypeDS) {
				hadDS = true
				return nil
			}
			return r
		})
		if !hadDS {
			return nil, false
		}
		if z.NSEC3 {
			m.Ns = append(m.Ns, withSig(z, z.nsec3RR(0))...)
			m.Ns = append(m.Ns, withSig(z, z.nsec3RR(len(z.nsec3Chain())/2))...)
		} else {
			m.Ns = append(m.Ns, withSig(z, z.nsecAt(0))...)
			m.Ns = append(m.Ns, withSig(z, z.nsecAt(len(z.nsecChain())/2))...)
		}
		changed = true
	case "wildcard-replay", "wildcard-replay-other-nsec", "wildcard-replay-forged-nsec":
		if a.Kind != "answer" || z == nil || !z.Signed || len(m.Question) != 1 {
			return nil, false
		}
		qn := dns.CanonicalName(m.Question[0].Name)
		qt := m.Question[0].Qtype
		var wild string
		var wrrs []dns.RR
		for p := parentName(qn); dns.IsSubDomain(z.Name, p); p = parentName(p) {
			w := "*." + p
			if p == "." {
				w = "*."
			}
			if rrs, ok := z.Nodes[w][qt]; ok && w != qn {
				wild, wrrs = w, rrs
				break
			}
			if p == "." || p == z.Name {
				break
			}
		}
		if wild == "" {
			return nil, false
		}
		ans, sigs := z.expandWildcard(wild, wrrs, m.Question[0].Name)
		m.Answer = append(ans, sigs...)
		m.Ns = nil
		switch kind {
		case "wildcard-replay-other-nsec":
			if z.NSEC3 {
				m.Ns = append(m.Ns, withSig(z, z.nsec3RR(0))...)
			} else {
				m.Ns = append(m.Ns, withSig(z, z.nsecAt(0))...)
			}
		case "wildcard-replay-forged-nsec":
			par := parentName(z.Name)
			next := "zzzz." + par
			if par == "." {
				next = "zzzz."
			}
			m.Ns = append(m.Ns, &dns.NSEC{Hdr: dns.RR_Header{Name: par, Rrtype: dns.TypeNSEC, Class: dns.ClassINET, Ttl: 300},
				NextDomain: next, TypeBitMap: []uint16{dns.TypeNS, dns.TypeSOA, dns.TypeRRSIG, dns.TypeNSEC}})
		}
		changed = true
	case "forge-unsigned":
		forged, ok := Apply("flip-rdata", a, attacker, other)
		if !ok {
			return nil, false
		}
		return Apply("strip", &Answer{Zone: a.Zone, Msg: forged, Kind: a.Kind, Child: a.Child}, attacker, other)
	default:
		return nil, false
	}
	if !changed {
		return nil, false
	}
	return m, true
}

func mustRR(s string) dns.RR {
	rr, err := dns.NewRR(s)
	if err != nil {
		panic(err)
	}
	return rr
}

// StepOf classifies an honest answer for tamper targeting.
func StepOf(a *Answer, qtype uint16) string {
	switch a.Kind {
	case "referral":
		return "referral"
	case "refused":
		return "refused"
	}
	switch qtype {
	case dns.TypeDNSKEY:
		return "dnskey"
	case dns.TypeDS:
		return "ds"
	}
	switch a.Kind {
	case "nodata", "nxdomain":
		return "negative"
	}
	return "answer"
}

// keepOPT returns only the OPT record of an additional section.
func keepOPT(extra []dns.RR) []dns.RR {
	var out []dns.RR
	for _, r := range extra {
		if r.Header().Rrtype == dns.TypeOPT {
			out = append(out, r)
		}
	}
	return out
}
