#!/usr/bin/env python3
"""tools_seeded_prompt.py <wave> <ID> "<ideas already used>" : creates the scratch worktree /tmp/wt<wave>-<ID>
of /repo and writes the sub-agent prompt /tmp/prompt<wave>-<ID>.txt (property text only, nothing from /verif)."""
import json, os, subprocess, sys
wave, pid, avoid = sys.argv[1], sys.argv[2], (sys.argv[3] if len(sys.argv) > 3 else "")
props = {}
for l in open('/verif/properties.jsonl'):
    d = json.loads(l); props[d['id']] = d
wt = '/tmp/wt%s-%s' % (wave, pid)
if not os.path.isdir(wt):
    subprocess.check_call(['git', '-C', '/repo', 'worktree', 'add', '-q', '--detach', wt, 'HEAD'])
os.makedirs(wt + '/SEEDED', exist_ok=True)
tmpl = '''You are helping test a verification harness for the Go project semihalev/sdns (a recursive DNS resolver). You have your own scratch git worktree of the project at {wt} (a detached HEAD of the current tree). Work ONLY inside {wt}. Do not read or write /verif or /repo, and do not look for any verification machinery: your job is independent of it. IMPORTANT: never use `git stash` (the stash is shared between worktrees and other agents are working in sibling worktrees); to toggle your change use `git diff > SEEDED/patch.diff`, `git checkout -- <files>`, `git apply SEEDED/patch.diff`.

Here is a semantic property the project is supposed to satisfy:

TITLE: {title}

STATEMENT: {statement}

Files most relevant: {files}

{avoid}YOUR TASK: introduce ONE small, realistic source change (the kind of slip a maintainer could make in a refactor, optimisation or "cleanup") to non-test Go files that BREAKS this property, such that:
  1. the project still compiles (`go1.26.8 build ./...`),
  2. the existing tests of every package you touched still pass (`go1.26.8 test -vet=off -count=1 <pkg>`; run them — if one fails, choose a different change),
  3. the breakage needs something specific to manifest (a particular input shape, timing, interleaving, fault or history) — not something every query trips over,
  4. it is NOT a change that merely deletes a feature wholesale or makes everything fail,
  5. it manifests in the default deployment: sdns as a recursive resolver talking to authoritative servers (no `forwarderservers` configured, so not a change that only the forwarder middleware path can reach).

Then write a demonstration: a NEW Go test file (name it *_seeded_test.go, in the package where it fits best) containing a test that PASSES on the unchanged tree and FAILS with your change, showing the property being violated as directly as you can (drive the real code; no mocks of the code under test).

Environment (no network): every shell command needs
  export GOFLAGS=-mod=mod GOPROXY=off GOSUMDB=off GOTOOLCHAIN=local
and use the `go1.26.8` binary (not `go`). Package tests can take up to ~60 s; the machine is busy, be patient.

Deliverables, all inside {wt}/SEEDED/ :
  - patch.diff : output of `git diff` for your source change ONLY (not the demonstration test file; the test file stays untracked in its package directory),
  - NOTES.md : 5-15 lines: what you changed, why it is plausible, exactly what it takes to manifest, and how the demonstration shows it,
and leave the worktree with the change applied and the demonstration test file in place.

Finish by replying with: the relative path of the demonstration test file, the `-run` pattern of its test, the package path (e.g. ./middleware/cache/), a one-sentence "needs to manifest" description, and confirmation of the four verification runs you did (build; demo fails with change; existing package tests pass with change; demo passes with the source change reverted — then re-applied).'''
p = props[pid]
av = ""
if avoid:
    av = "Ideas that have ALREADY been used by others for this property — pick something in a different part of the code or a different clause of the statement: " + avoid + "\n\n"
open('/tmp/prompt%s-%s.txt' % (wave, pid), 'w').write(tmpl.format(wt=wt, title=p['title'], statement=p['statement'], files=", ".join(p['anchors']['files'][:12]), avoid=av))
print('/tmp/prompt%s-%s.txt' % (wave, pid))
