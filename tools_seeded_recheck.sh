#!/bin/bash
# tools_seeded_recheck.sh <name> <worktree> <property> : re-run only the quick check against a seeded worktree and update seeded/<name>/meta.json
export GOFLAGS=-mod=mod GOPROXY=off GOSUMDB=off GOTOOLCHAIN=local
name=$1; wt=$2; prop=$3
cd $wt && git checkout -q -- . && git apply /verif/seeded/$name/patch.diff || { echo "patch does not apply"; exit 2; }
cd /verif && VERIF_REPO=$wt ./verifsim check $prop > /tmp/recheck_$name.log 2>&1; rc=$?
viol=$(grep "^violation class" /tmp/recheck_$name.log | head -1 | cut -c1-300)
python3 - "$name" "$prop" "$rc" "$viol" <<'PY'
import json,sys
name,prop,rc,viol=sys.argv[1:]
p='/verif/seeded/%s/meta.json'%name
m=json.load(open(p))
old=m.get("check_result",{})
if "first_check_result" not in m and not old.get("caught"):
    m["first_check_result"]=old
m["check_result"]={"command":"./verifsim check %s (quick)"%prop,"exit":int(rc),"caught":rc=="1","violation":viol}
json.dump(m,open(p,"w"),indent=1)
print(name, "caught" if rc=="1" else "NOT caught", viol[:160])
PY
